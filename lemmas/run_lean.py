"""python3-vt lemmas/run_lean.py [--stamp] : (re)check the Lean lemma files and write the content-hash stamps used by the quick tier."""
import os, sys
ROOT = os.path.dirname(os.path.dirname(os.path.abspath(__file__)))
sys.path.insert(0, ROOT)
from pyvc.lemmas import LeanLemma
from contracts.lean_lemmas import LEAN
ok = True
for l in LEAN:
    r = l.check("thorough", force=True)
    print(r["name"], r["status"], r.get("axioms"), "%.1fs" % r["time_s"], r.get("reason", "")[:300])
    ok = ok and r["status"] == "discharged"
sys.exit(0 if ok else 1)
