import Mathlib
open Finset BigOperators

namespace CombiIE
variable {d : ℕ}

def allowed (lmin g : ℤ) : Finset ℤ := if g ≤ lmin then {0} else {0, -1}
def sgn1 (s : ℤ) : ℤ := if s = 0 then 1 else -1

theorem coord_sum (lmin g l : ℤ) (hl : lmin ≤ l) :
    (∑ s ∈ allowed lmin g, sgn1 s * (if l ≤ g + s then 1 else 0)) = if g = l then 1 else 0 := by
  unfold allowed sgn1
  by_cases hg : g ≤ lmin
  · simp only [hg, if_true, sum_singleton, add_zero]
    by_cases h1 : g = l
    · subst h1; simp
    · have : ¬ l ≤ g := by omega
      simp [this, h1]
  · simp only [hg, if_false]
    rw [sum_pair (by norm_num)]
    by_cases h1 : g = l
    · subst h1; simp
    · by_cases h2 : l ≤ g
      · have h3 : l ≤ g + -1 := by omega
        simp [h1, h2, h3]
      · have h3 : ¬ l ≤ g + -1 := by omega
        simp [h1, h2, h3]

/-- the stencil of a level vector -/
def stencil (lmin : ℤ) (g : Fin d → ℤ) : Finset (Fin d → ℤ) :=
  Fintype.piFinset (fun i => allowed lmin (g i))

def sgn (s : Fin d → ℤ) : ℤ := ∏ i, sgn1 (s i)

/-- coefficient computed by `get_coefficients_to_index_set` for level vector `k` -/
def coeff (lmin : ℤ) (I : Finset (Fin d → ℤ)) (k : Fin d → ℤ) : ℤ :=
  ∑ g ∈ I, ∑ s ∈ stencil lmin g, if g + s = k then sgn s else 0

/-- for fixed g: signed count of stencil elements dominating l is [g = l] -/
theorem stencil_sum (lmin : ℤ) (g l : Fin d → ℤ) (hl : ∀ i, lmin ≤ l i) :
    (∑ s ∈ stencil lmin g, sgn s * (if ∀ i, l i ≤ g i + s i then 1 else 0)) = if g = l then 1 else 0 := by
  have h1 : ∀ s : Fin d → ℤ, sgn s * (if ∀ i, l i ≤ g i + s i then (1:ℤ) else 0)
      = ∏ i, (sgn1 (s i) * (if l i ≤ g i + s i then 1 else 0)) := by
    intro s
    unfold sgn
    rw [Finset.prod_mul_distrib]
    congr 1
    rw [Finset.prod_ite_zero]
    simp
  simp_rw [h1]
  unfold stencil
  rw [(Finset.prod_univ_sum (fun i => allowed lmin (g i)) (fun i s => sgn1 s * (if l i ≤ g i + s then (1:ℤ) else 0))).symm]
  simp_rw [coord_sum lmin _ _ (hl _)]
  rw [Finset.prod_ite_zero]
  simp [funext_iff]

/-- Inclusion–exclusion: the coefficients of all grids dominating `l` sum to `[l ∈ I]`. -/
theorem dominating_sum (lmin : ℤ) (I K : Finset (Fin d → ℤ)) (l : Fin d → ℤ)
    (hl : ∀ i, lmin ≤ l i)
    (hK : ∀ g ∈ I, ∀ s ∈ stencil lmin g, g + s ∈ K) :
    (∑ k ∈ K, if (∀ i, l i ≤ k i) then coeff lmin I k else 0) = if l ∈ I then 1 else 0 := by
  unfold coeff
  have : ∀ k ∈ K, (if (∀ i, l i ≤ k i) then (∑ g ∈ I, ∑ s ∈ stencil lmin g, if g + s = k then sgn s else 0) else 0)
      = ∑ g ∈ I, ∑ s ∈ stencil lmin g, if g + s = k then (sgn s * (if ∀ i, l i ≤ g i + s i then 1 else 0)) else 0 := by
    intro k _
    split_ifs with h
    · apply Finset.sum_congr rfl; intro g _
      apply Finset.sum_congr rfl; intro s _
      split_ifs with h2 h3
      · simp
      · exfalso; apply h3; intro i; have := h i; rw [← h2] at this; simpa using this
      · rfl
    · symm
      apply Finset.sum_eq_zero; intro g _
      apply Finset.sum_eq_zero; intro s _
      split_ifs with h2 h3
      · exfalso; apply h; intro i; have := h3 i; rw [← h2]; simpa using this
      · simp
      · rfl
  rw [Finset.sum_congr rfl this]
  rw [Finset.sum_comm]
  have h2 : ∀ g ∈ I, (∑ k ∈ K, ∑ s ∈ stencil lmin g, if g + s = k then (sgn s * (if ∀ i, l i ≤ g i + s i then 1 else 0)) else 0)
      = if g = l then 1 else 0 := by
    intro g hg
    rw [Finset.sum_comm]
    rw [← stencil_sum lmin g l hl]
    apply Finset.sum_congr rfl; intro s hs
    rw [Finset.sum_ite_eq K (g + s)]
    simp [hK g hg s hs]
  rw [Finset.sum_congr rfl h2]
  simp [Finset.sum_ite_eq']


/-- decrement coordinate i -/
def dec (g : Fin d → ℤ) (i : Fin d) : Fin d → ℤ := Function.update g i (g i - 1)

/-- downward closed above lmin (I3 weakened) -/
def DownClosed (lmin : ℤ) (I : Finset (Fin d → ℤ)) : Prop :=
  ∀ g ∈ I, ∀ i, lmin < g i → dec g i ∈ I

theorem box_subset (lmin : ℤ) (I : Finset (Fin d → ℤ)) (hdc : DownClosed lmin I) :
    ∀ (n : ℕ) (g : Fin d → ℤ), g ∈ I → ∀ k : Fin d → ℤ, (∀ i, lmin ≤ k i) → (∀ i, k i ≤ g i) →
      (∑ i, (g i - k i)).toNat = n → k ∈ I := by
  intro n
  induction n with
  | zero =>
    intro g hg k _ hk2 hn
    have hsum : ∑ i, (g i - k i) = 0 := by
      have hnn : 0 ≤ ∑ i, (g i - k i) := Finset.sum_nonneg (fun i _ => by have := hk2 i; omega)
      omega
    have : ∀ i ∈ (Finset.univ : Finset (Fin d)), g i - k i = 0 :=
      (Finset.sum_eq_zero_iff_of_nonneg (fun i _ => by have := hk2 i; omega)).mp hsum
    have hgk : k = g := by
      funext i; have := this i (Finset.mem_univ i); omega
    rw [hgk]; exact hg
  | succ n ih =>
    intro g hg k hk1 hk2 hn
    have hpos : 0 < ∑ i, (g i - k i) := by omega
    obtain ⟨i, _, hi⟩ : ∃ i ∈ (Finset.univ : Finset (Fin d)), 0 < g i - k i := by
      by_contra hcon
      push Not at hcon
      have : ∑ i, (g i - k i) ≤ 0 := Finset.sum_nonpos (fun i hi => hcon i hi)
      omega
    have hgi : lmin < g i := by have := hk1 i; omega
    have hmem := hdc g hg i hgi
    apply ih (dec g i) hmem k hk1
    · intro j
      unfold dec
      by_cases hj : j = i
      · subst hj; simp; omega
      · simp [Function.update_of_ne hj]; exact hk2 j
    · have hsplit : ∑ j, (dec g i j - k j) = ∑ j, (g j - k j) - 1 := by
        have : ∀ j, dec g i j - k j = (g j - k j) - (if j = i then 1 else 0) := by
          intro j; unfold dec
          by_cases hj : j = i
          · subst hj; simp; omega
          · simp [hj]
        simp_rw [this]
        rw [Finset.sum_sub_distrib]
        simp
      rw [hsplit]; omega

/-- every point of the combined grid has coefficient sum 1:
    `m i l` says "the i-th coordinate of the point belongs to the 1-D point set of level l";
    the sets grow with the level; the point lies in some component grid `g ∈ I`. -/
theorem point_coeff_sum (lmin : ℤ) (I K : Finset (Fin d → ℤ)) (hdc : DownClosed lmin I)
    (hI : ∀ g ∈ I, ∀ i, lmin ≤ g i)
    (hK : ∀ g ∈ I, ∀ s ∈ stencil lmin g, g + s ∈ K)
    (hKl : ∀ ℓ ∈ K, ∀ i, lmin ≤ ℓ i)
    (m : Fin d → ℤ → Prop) [∀ i l, Decidable (m i l)]
    (hmono : ∀ i l, m i l → m i (l + 1))
    (g : Fin d → ℤ) (hg : g ∈ I) (hgm : ∀ i, m i (g i)) :
    (∑ ℓ ∈ K, if (∀ i, m i (ℓ i)) then coeff lmin I ℓ else 0) = 1 := by
  classical
  -- monotone in general
  have hmono' : ∀ i (l l' : ℤ), l ≤ l' → m i l → m i l' := by
    intro i l l' hll hl
    induction l', hll using Int.le_induction with
    | base => exact hl
    | succ n _ ihn => exact hmono i n ihn
  -- least level ≥ lmin at which coordinate i is present
  have hex : ∀ i, ∃ kb, (lmin ≤ kb ∧ m i kb) ∧ ∀ z, (lmin ≤ z ∧ m i z) → kb ≤ z := by
    intro i
    exact Int.exists_least_of_bdd ⟨lmin, fun z hz => hz.1⟩ ⟨g i, hI g hg i, hgm i⟩
  choose k hk using hex
  have hk1 : ∀ i, lmin ≤ k i := fun i => (hk i).1.1
  have hkg : ∀ i, k i ≤ g i := fun i => (hk i).2 (g i) ⟨hI g hg i, hgm i⟩
  have hkI : k ∈ I := box_subset lmin I hdc _ g hg k hk1 hkg rfl
  have hiff : ∀ ℓ ∈ K, (∀ i, m i (ℓ i)) ↔ (∀ i, k i ≤ ℓ i) := by
    intro ℓ hℓ
    constructor
    · intro h i; exact (hk i).2 (ℓ i) ⟨hKl ℓ hℓ i, h i⟩
    · intro h i; exact hmono' i (k i) (ℓ i) (h i) (hk i).1.2
  have := dominating_sum lmin I K k hk1 hK
  rw [if_pos hkI] at this
  rw [← this]
  apply Finset.sum_congr rfl
  intro ℓ hℓ
  by_cases h : ∀ i, m i (ℓ i)
  · rw [if_pos h, if_pos ((hiff ℓ hℓ).mp h)]
  · rw [if_neg h, if_neg (fun h' => h ((hiff ℓ hℓ).mpr h'))]


section telescope
variable {R : Type*} [CommRing R]

/-- combination of an arbitrary quantity F over the scheme = sum of mixed differences over I -/
theorem coeff_sum_eq (lmin : ℤ) (I K : Finset (Fin d → ℤ))
    (hK : ∀ g ∈ I, ∀ s ∈ stencil lmin g, g + s ∈ K) (F : (Fin d → ℤ) → R) :
    (∑ ℓ ∈ K, (coeff lmin I ℓ : R) * F ℓ) = ∑ g ∈ I, ∑ s ∈ stencil lmin g, (sgn s : R) * F (g + s) := by
  unfold coeff
  simp_rw [Int.cast_sum, Finset.sum_mul]
  rw [Finset.sum_comm]
  apply Finset.sum_congr rfl; intro g hg
  rw [Finset.sum_comm]
  apply Finset.sum_congr rfl; intro s hs
  have : ∀ ℓ ∈ K, ((if g + s = ℓ then sgn s else 0 : ℤ) : R) * F ℓ = if g + s = ℓ then (sgn s : R) * F (g + s) else 0 := by
    intro ℓ _
    split_ifs with h
    · rw [h]
    · simp
  rw [Finset.sum_congr rfl this, Finset.sum_ite_eq K (g + s)]
  simp [hK g hg s hs]

/-- one-dimensional hierarchical difference -/
def delta (lmin : ℤ) (a : ℤ → R) (x : ℤ) : R := ∑ s ∈ allowed lmin x, (sgn1 s : R) * a (x + s)

theorem delta_le (lmin : ℤ) (a : ℤ → R) (x : ℤ) (h : x ≤ lmin) : delta lmin a x = a x := by
  unfold delta allowed sgn1; simp [h]

theorem delta_gt (lmin : ℤ) (a : ℤ → R) (x : ℤ) (h : lmin < x) : delta lmin a x = a x - a (x - 1) := by
  unfold delta allowed sgn1
  have : ¬ x ≤ lmin := by omega
  simp only [this, if_false]
  rw [sum_pair (by norm_num)]
  simp [sub_eq_add_neg]

theorem delta_telescope (lmin : ℤ) (a : ℤ → R) : ∀ (n : ℕ),
    ∑ x ∈ Finset.Icc lmin (lmin + n), delta lmin a x = a (lmin + n) := by
  intro n
  induction n with
  | zero => simp [delta_le]
  | succ n ih =>
    have hI : Finset.Icc lmin (lmin + (n + 1 : ℕ)) = insert (lmin + (n + 1 : ℕ)) (Finset.Icc lmin (lmin + n)) := by
      ext x; simp only [Finset.mem_Icc, Finset.mem_insert]; push_cast; omega
    rw [hI, Finset.sum_insert (by simp only [Finset.mem_Icc]; push_cast; omega), ih]
    rw [delta_gt lmin a _ (by push_cast; omega)]
    push_cast
    rw [show lmin + ((n:ℤ) + 1) - 1 = lmin + n by ring]
    ring

theorem combi_telescope (lmin : ℤ) (I : Finset (Fin d → ℤ)) (hdc : DownClosed lmin I)
    (hI : ∀ g ∈ I, ∀ i, lmin ≤ g i)
    (k : Fin d → ℤ) (hkI : k ∈ I)
    (a : Fin d → ℤ → R) (hconst : ∀ i l, k i ≤ l → a i l = a i (k i)) :
    (∑ g ∈ I, ∑ s ∈ stencil lmin g, (sgn s : R) * ∏ i, a i ((g + s) i)) = ∏ i, a i (k i) := by
  classical
  have hk1 : ∀ i, lmin ≤ k i := hI k hkI
  -- step 1: product of 1-D differences
  have h1 : ∀ g : Fin d → ℤ, (∑ s ∈ stencil lmin g, (sgn s : R) * ∏ i, a i ((g + s) i)) = ∏ i, delta lmin (a i) (g i) := by
    intro g
    unfold stencil delta
    rw [Finset.prod_univ_sum (fun i => allowed lmin (g i)) (fun i s => (sgn1 s : R) * a i (g i + s))]
    apply Finset.sum_congr rfl; intro s _
    unfold sgn
    rw [Int.cast_prod, ← Finset.prod_mul_distrib]
    simp
  simp_rw [h1]
  -- step 2: differences vanish above k
  have h2 : ∀ i x, k i < x → delta lmin (a i) x = 0 := by
    intro i x hx
    rw [delta_gt lmin (a i) x (by have := hk1 i; omega)]
    rw [hconst i x (by omega), hconst i (x - 1) (by omega)]; ring
  -- step 3: restrict to the box
  let box : Finset (Fin d → ℤ) := Fintype.piFinset (fun i => Finset.Icc lmin (k i))
  have hsub : box ⊆ I := by
    intro g hg
    have hg' : ∀ i, lmin ≤ g i ∧ g i ≤ k i := by
      intro i; have := (Fintype.mem_piFinset.mp hg) i; simpa [Finset.mem_Icc] using this
    exact box_subset lmin I hdc _ k hkI g (fun i => (hg' i).1) (fun i => (hg' i).2) rfl
  have hzero : ∀ g ∈ I, g ∉ box → ∏ i, delta lmin (a i) (g i) = 0 := by
    intro g hg hnb
    have : ∃ i, k i < g i := by
      by_contra hcon
      push Not at hcon
      apply hnb
      apply Fintype.mem_piFinset.mpr
      intro i; simp only [Finset.mem_Icc]; exact ⟨hI g hg i, hcon i⟩
    obtain ⟨i, hi⟩ := this
    exact Finset.prod_eq_zero (Finset.mem_univ i) (h2 i (g i) hi)
  rw [← Finset.sum_subset hsub hzero]
  -- step 4: product of telescoping sums
  show (∑ g ∈ Fintype.piFinset (fun i => Finset.Icc lmin (k i)), ∏ i, delta lmin (a i) (g i)) = _
  rw [← Finset.prod_univ_sum (fun i => Finset.Icc lmin (k i)) (fun i x => delta lmin (a i) x)]
  apply Finset.prod_congr rfl; intro i _
  have := delta_telescope lmin (a i) (k i - lmin).toNat
  have hcast : lmin + ((k i - lmin).toNat : ℤ) = k i := by have := hk1 i; omega
  rw [hcast] at this
  exact this

end telescope

end CombiIE
#print axioms CombiIE.point_coeff_sum
#print axioms CombiIE.combi_telescope
#print axioms CombiIE.coeff_sum_eq
