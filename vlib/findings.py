"""known_findings.txt:  recorded genuine defects of obersteiner/sparseSpACE.

  finding: property=<id> site=<site> clause=<clause-id> witness=<witness class> -- <what fails>
  fixed: property=<id> <commit> <what failed>

A violation is suppressed (printed as KNOWN-FINDING) only if property, site, clause and witness class all
match a `finding:` line ('*' is not supported: every field must be given).  `fixed:` lines suppress nothing.
The file is never written at run time.
"""
import re


def load(path):
    out = []
    try:
        lines = open(path).read().splitlines()
    except FileNotFoundError:
        return out
    for ln in lines:
        ln = ln.strip()
        if not ln.startswith("finding:"):
            continue
        m = re.match(r"finding:\s+property=(\S+)\s+site=(\S+)\s+clause=(\S+)\s+witness=(\S+)\s+--\s+(.*)$", ln)
        if not m:
            continue
        out.append({"property": m.group(1), "site": m.group(2), "clause": m.group(3), "witness": m.group(4),
                    "text": "site=%s clause=%s witness=%s -- %s" % (m.group(2), m.group(3), m.group(4), m.group(5))})
    return out


def match(known, prop, v):
    for k in known:
        if k["property"] == prop and k["site"] == v.get("site") and k["clause"] == v.get("clause") \
                and k["witness"] == v.get("witness_class"):
            return k
    return None
