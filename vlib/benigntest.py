"""Developer tool: false-alarm test with behaviour-preserving refactorings.
   /venv/bin/python vlib/benigntest.py /tmp/seed_out/benign/B01 [...]
For each directory (patch.diff + meta.json with "functions"): scratch worktree of /repo HEAD under /tmp, apply the patch, run layer P of every property
that has contracts (a refactoring may cost a proof -> UNDECIDED, it must never produce a VIOLATION) and the full quick check (P+B) of the properties whose
contracts mention a touched file; every full check must exit 0.  Result: <dir>/benign_result.json."""
import glob, json, os, re, shutil, subprocess, sys
ROOT = os.path.dirname(os.path.dirname(os.path.abspath(__file__)))


def sh(cmd, **kw):
    return subprocess.run(cmd, stdout=subprocess.PIPE, stderr=subprocess.STDOUT, **kw)


def props_for(files):
    out = set()
    for c in glob.glob(os.path.join(ROOT, "contracts", "C??.py")):
        txt = open(c).read()
        if any(f in txt for f in files):
            out.add(os.path.basename(c)[:3])
    return sorted(out)


def main():
    for d in sys.argv[1:]:
        d = os.path.abspath(d.rstrip("/"))
        name = os.path.basename(d)
        meta = json.load(open(os.path.join(d, "meta.json")))
        files = sorted({f.split("::")[0] for f in meta["functions"]})
        wt = "/tmp/vw_%s" % name
        sh(["git", "-C", "/repo", "worktree", "remove", "--force", wt])
        sh(["git", "-C", "/repo", "worktree", "add", "--detach", wt, "HEAD"])
        res = {"name": name, "files": files, "P": {}, "full": {}}
        try:
            ap = sh(["git", "-C", wt, "apply", os.path.join(d, "patch.diff")])
            res["patch_applies"] = ap.returncode == 0
            env = dict(os.environ, VERIF_REPO=wt)
            allp = sorted(os.path.basename(c)[:3] for c in glob.glob(os.path.join(ROOT, "contracts", "C??.py")))
            full = props_for(files)
            for p in allp:
                if p in full:
                    continue
                r = sh([os.path.join(ROOT, "bin", "check"), p, "--tier", "quick", "--only", "P"], cwd=ROOT, env=env, timeout=3600)
                out = r.stdout.decode()
                res["P"][p] = {"exit": r.returncode, "lines": [l[:220] for l in out.splitlines() if l.startswith(("VIOLATION", "UNDECIDED", "CHECKER-ERROR", "OK", "  obligation="))][:8]}
            for p in full:
                r = sh([os.path.join(ROOT, "bin", "check"), p, "--tier", "quick"], cwd=ROOT, env=env, timeout=7200)
                out = r.stdout.decode()
                res["full"][p] = {"exit": r.returncode, "lines": [l[:220] for l in out.splitlines() if l.startswith(("VIOLATION", "UNDECIDED", "CHECKER-ERROR", "OK", "  obligation="))][:8]}
            res["false_alarm"] = any(v["exit"] != 0 for v in res["full"].values()) or any(v["exit"] in (1, 3) for v in res["P"].values())
        finally:
            sh(["git", "-C", "/repo", "worktree", "remove", "--force", wt])
            shutil.rmtree(wt, ignore_errors=True)
        json.dump(res, open(os.path.join(d, "benign_result.json"), "w"), indent=1)
        print(name, "FALSE-ALARM" if res.get("false_alarm") else "quiet", {p: v["exit"] for p, v in res["full"].items()}, {p: v["exit"] for p, v in res["P"].items() if v["exit"] != 0}, flush=True)


if __name__ == "__main__":
    main()
