"""Developer self-test of layer P (the "planted mutants" of DESIGN section 6):
    python3-vt vlib/pmutate.py C09 [--max 12] [--fn substring-of-qualname]
For every function under contract of the property, simple AST mutants of the REAL source are generated in a scratch copy of the package
(comparison operator swaps, +-1 on integer constants, and<->or, dropped statements, swapped subscripts i-1 <-> i+1), the prover is run on the copy and the
outcome is classified:  refuted (some obligation `sat`)  /  proof-broken (some obligation undecided)  /  survived (everything still discharged).
A survivor is either an equivalent mutant or a hole in the contract; it never affects a verdict of the checks."""
import ast
import copy
import json
import os
import shutil
import subprocess
import sys
import tempfile

ROOT = os.path.dirname(os.path.dirname(os.path.abspath(__file__)))
sys.path.insert(0, ROOT)
REPO = "/repo"

CMP = {ast.Lt: ast.LtE, ast.LtE: ast.Lt, ast.Gt: ast.GtE, ast.GtE: ast.Gt, ast.Eq: ast.NotEq, ast.NotEq: ast.Eq}


def mutants_of(fn):
    """yield (description, mutated FunctionDef)"""
    nodes = list(ast.walk(fn))
    for idx, n in enumerate(nodes):
        if isinstance(n, ast.Compare) and len(n.ops) == 1 and type(n.ops[0]) in CMP:
            m = copy.deepcopy(fn)
            t = list(ast.walk(m))[idx]
            t.ops = [CMP[type(n.ops[0])]()]
            yield "L%d: %s -> %s" % (n.lineno, type(n.ops[0]).__name__, CMP[type(n.ops[0])].__name__), m
        if isinstance(n, ast.Constant) and isinstance(n.value, int) and not isinstance(n.value, bool) and n.value in (0, 1, 2):
            m = copy.deepcopy(fn)
            t = list(ast.walk(m))[idx]
            t.value = n.value + 1
            yield "L%d: constant %d -> %d" % (n.lineno, n.value, n.value + 1), m
        if isinstance(n, ast.BoolOp):
            m = copy.deepcopy(fn)
            t = list(ast.walk(m))[idx]
            t.op = ast.Or() if isinstance(n.op, ast.And) else ast.And()
            yield "L%d: and<->or" % n.lineno, m
        if isinstance(n, ast.BinOp) and isinstance(n.op, (ast.Add, ast.Sub)) and isinstance(n.right, ast.Constant) and n.right.value == 1:
            m = copy.deepcopy(fn)
            t = list(ast.walk(m))[idx]
            t.op = ast.Sub() if isinstance(n.op, ast.Add) else ast.Add()
            yield "L%d: +1 <-> -1" % n.lineno, m
        if isinstance(n, (ast.Assign, ast.AugAssign)) or (isinstance(n, ast.Expr) and isinstance(n.value, ast.Call)):
            # drop the statement (replace by pass) unless it is a docstring / print / log
            if isinstance(n, ast.Expr):
                txt = ast.unparse(n.value.func)
                if txt.startswith("print") or "log" in txt:
                    continue
            m = copy.deepcopy(fn)
            t = list(ast.walk(m))[idx]
            for parent in ast.walk(m):
                for field in ("body", "orelse"):
                    seq = getattr(parent, field, None)
                    if isinstance(seq, list) and t in seq:
                        seq[seq.index(t)] = ast.Pass()
            yield "L%d: drop `%s`" % (n.lineno, ast.unparse(n)[:50]), m


def bcheck(prop, tmp, expect_violation):
    """cross-check with the bounded layer on the same mutant.  A prop clause refuted by P on a mutant that B accepts is either a hole in the B
    universe or a prop clause stronger than the property (candidate false alarm); a mutant that P still proves but B refutes is a hole in the
    contracts or an unsound encoding.  Both are flagged for manual triage."""
    bout = os.path.join(tmp, "b.json")
    try:
        subprocess.run(["/venv/bin/python", os.path.join(ROOT, "bounded", "run.py"), prop, "--tier", "quick", "--out", bout],
                       env=dict(os.environ, VERIF_REPO=tmp, OMP_NUM_THREADS="1"), stdout=subprocess.DEVNULL, stderr=subprocess.DEVNULL, timeout=3600, cwd=tmp)
        from vlib import findings
        known = findings.load(os.path.join(ROOT, "known_findings.txt"))
        b = json.load(open(bout))
        new = [v for v in b["violations"] if not findings.match(known, prop, {"site": v["site"], "clause": v["clause"], "witness_class": v["witness_class"]})]
        txt = "  B: %d new violation(s)%s" % (len(new), (" errors=%s" % str(b["errors"])[:80]) if b.get("errors") else "")
        if expect_violation and not new and not b.get("errors"):
            txt += "  <== P-only"
        if not expect_violation and (new or b.get("errors")):
            txt += "  <== B-only (contract hole?) " + "; ".join(sorted({v["clause"] for v in new}))[:100]
        return txt
    except Exception as e:  # noqa
        return "  B: no result (%s)" % e


def main():
    prop = sys.argv[1]
    mx = int(sys.argv[sys.argv.index("--max") + 1]) if "--max" in sys.argv else 10
    import importlib
    from pyvc.book import Book
    book = Book()
    mod = importlib.import_module("contracts." + prop)
    targets = {}
    for c in mod.CONTRACTS:
        if c.trusted:
            continue
        book.register(c)
        if c.node is not None:
            targets.setdefault((c.file, c.qualname), c)
    summary = {"refuted": 0, "proof-broken": 0, "survived": 0, "error": 0}
    details = []
    only = sys.argv[sys.argv.index("--fn") + 1] if "--fn" in sys.argv else None
    for (relfile, qual), c in targets.items():
        if only and only not in qual:
            continue
        src_path = os.path.join(REPO, relfile)
        text = open(src_path).read()
        seg = ast.get_source_segment(text, c.node)
        ms = list(mutants_of(c.node))
        step = max(1, len(ms) // mx)
        for desc, m in ms[::step][:mx]:
            try:
                new_src = ast.unparse(m)
            except Exception:
                continue
            indent = " " * c.node.col_offset
            new_seg = "\n".join((indent + l if i else l) for i, l in enumerate(new_src.splitlines()))
            tmp = tempfile.mkdtemp(prefix="pmut_")
            try:
                shutil.copytree(os.path.join(REPO, "sparseSpACE"), os.path.join(tmp, "sparseSpACE"))
                p2 = os.path.join(tmp, relfile)
                t2 = open(p2).read()
                if seg not in t2:
                    continue
                open(p2, "w").write(t2.replace(seg, new_seg, 1))
                try:
                    ast.parse(open(p2).read())
                except SyntaxError:
                    continue
                out = os.path.join(tmp, "res.json")
                subprocess.run(["python3-vt", os.path.join(ROOT, "pyvc", "prove.py"), prop, "--out", out, "--only", qual.split(".")[-1], "--timeout", "8000"],
                               env=dict(os.environ, VERIF_REPO=tmp, PYTHONPATH=ROOT), stdout=subprocess.DEVNULL, stderr=subprocess.DEVNULL, timeout=900)
                r = json.load(open(out))
                st = [o["status"] for f in r["functions"] for o in f["obligations"]]
                failed = [o for f in r["functions"] for o in f["obligations"] if o["status"] == "failed"]
                extra = ""
                if r.get("errors"):
                    kind = "error"
                elif "failed" in st:
                    kind = "refuted"
                    is_prop = any(o.get("prop") for o in failed)
                    extra = "  [%s: %s]" % ("prop" if is_prop else "aux", ", ".join(sorted({o["name"].split("#")[-1] for o in failed}))[:120])
                    if "--bcheck" in sys.argv:
                        extra += bcheck(prop, tmp, expect_violation=True)
                elif any(s != "discharged" for s in st):
                    kind = "proof-broken"
                else:
                    kind = "survived"
                    if "--bcheck" in sys.argv:
                        # a survivor that layer B refutes is a hole in the contracts (or an unsound encoding): manual triage
                        extra += bcheck(prop, tmp, expect_violation=False)
            except Exception as e:  # noqa
                kind, extra = "error", " %s" % e
            finally:
                shutil.rmtree(tmp, ignore_errors=True)
            summary[kind] += 1
            details.append((qual, desc, kind))
            print("%-14s %-60s %s%s" % (kind, qual, desc, extra), flush=True)
    print(json.dumps(summary))


if __name__ == "__main__":
    main()
