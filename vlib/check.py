"""bin/check <ID> [--tier quick|thorough] [--replay file]

Orchestrates, for one property, the three layers described in DESIGN.md:
  P  pyvc/prove.py        (python3-vt: ast -> VCs -> z3/cvc5)   obligations on the real source
  L  lemmas/run_lemmas.py (Lean stamp / SMT induction lemmas)
  B  bounded/run.py       (/venv/bin/python: runtime contracts on the real code, bounded universe)
merges their JSON results into evidence/<ID>.json, prints VIOLATION / KNOWN-FINDING lines.
Exit: 0 held | 1 violation | 2 undecided (nothing could speak) | 3 checker error.
"""
import argparse
import json
import os
import subprocess
import sys
import tempfile
import time

ROOT = os.path.dirname(os.path.dirname(os.path.abspath(__file__)))
sys.path.insert(0, ROOT)
from vlib import findings  # noqa: E402

PY_B = "/venv/bin/python"
PY_P = "python3-vt"
REPO = os.environ.get("VERIF_REPO", "/repo")


def load_levels():
    man = json.load(open(os.path.join(ROOT, "MANIFEST.json")))
    return {c["property_id"]: c["level_claimed"]["category"] for c in man.get("checks", [])}


def run_stage(cmd, out, timeout, log):
    t0 = time.time()
    workdir = os.path.join(ROOT, ".cache", "work")     # the library appends to ./log_sg in its working directory: keep that out of /verif's tree
    os.makedirs(workdir, exist_ok=True)
    try:
        lg = os.path.join(workdir, "log_sg")
        if os.path.exists(lg) and os.path.getsize(lg) > 20_000_000:
            os.remove(lg)
    except OSError:
        pass
    try:
        p = subprocess.run(cmd, stdout=subprocess.PIPE, stderr=subprocess.STDOUT, timeout=timeout, cwd=workdir,
                           env=dict(os.environ, PYTHONPATH=ROOT, PYTHONDONTWRITEBYTECODE="1", MPLBACKEND="Agg",
                                    # one numerical thread: spinning BLAS/OpenMP workers would burn the CPU-time budget of layer B on a busy machine
                                    OMP_NUM_THREADS="1", OPENBLAS_NUM_THREADS="1", MKL_NUM_THREADS="1"))
        txt = p.stdout.decode(errors="replace")
        rc = p.returncode
    except subprocess.TimeoutExpired as e:
        txt = (e.stdout or b"").decode(errors="replace") + "\n[stage timed out after %ss]" % timeout
        rc = -9
    with open(log, "w") as f:
        f.write(txt)
    res = None
    if os.path.exists(out):
        try:
            res = json.load(open(out))
        except Exception:
            res = None
    return rc, res, txt, time.time() - t0


def main():
    ap = argparse.ArgumentParser()
    ap.add_argument("prop")
    ap.add_argument("--tier", default=os.environ.get("VERIF_TIER", "quick"))
    ap.add_argument("--replay")
    ap.add_argument("--only", choices=["P", "B", "L"], action="append")
    a = ap.parse_args()
    prop, tier = a.prop, a.tier
    if tier not in ("quick", "thorough"):
        tier = "quick"
    seed = int(os.environ.get("VERIF_SEED", "0") or 0)
    t0 = time.time()
    cache = os.path.join(ROOT, ".cache", "run_%d" % os.getpid())      # per-process scratch: concurrent checks of one property must not share files
    os.makedirs(cache, exist_ok=True)
    import atexit, shutil
    atexit.register(lambda: shutil.rmtree(cache, ignore_errors=True))
    # developer runs against a scratch copy of the repository (VERIF_REPO set) must not overwrite the committed evidence
    scratch = os.environ.get("VERIF_REPO") not in (None, "", "/repo")
    evdir = os.path.join(ROOT, ".cache", "scratch_evidence") if scratch else os.path.join(ROOT, "evidence")
    os.makedirs(evdir, exist_ok=True)
    rdir = os.path.join(ROOT, "replays", prop)
    os.makedirs(rdir, exist_ok=True)

    if a.replay:
        return do_replay(prop, a.replay, seed, cache)

    has_P = os.path.exists(os.path.join(ROOT, "contracts", prop + ".py"))
    has_B = os.path.exists(os.path.join(ROOT, "bounded", prop + ".py"))
    stages = {}
    import concurrent.futures as cf
    with cf.ThreadPoolExecutor(max_workers=3) as ex:
        futs = {}
        if has_P and (not a.only or "P" in a.only):
            out = os.path.join(cache, "%s.P.%s.json" % (prop, tier))
            if os.path.exists(out):
                os.remove(out)
            futs["P"] = ex.submit(run_stage, [PY_P, os.path.join(ROOT, "pyvc", "prove.py"), prop, "--tier", tier,
                                              "--seed", str(seed), "--out", out],
                                  out, 900 if tier == "quick" else 5400, os.path.join(cache, prop + ".P.log"))
        if has_B and (not a.only or "B" in a.only):
            out = os.path.join(cache, "%s.B.%s.json" % (prop, tier))
            if os.path.exists(out):
                os.remove(out)
            futs["B"] = ex.submit(run_stage, [PY_B, os.path.join(ROOT, "bounded", "run.py"), prop, "--tier", tier,
                                              "--seed", str(seed), "--out", out],
                                  out, 900 if tier == "quick" else 7200, os.path.join(cache, prop + ".B.log"))
        for k, f in futs.items():
            stages[k] = f.result()

    known = findings.load(os.path.join(ROOT, "known_findings.txt"))
    violations = []      # dicts: layer, site, clause, witness_class, message, replay payload
    undecided = []
    errors = []
    assumptions = []

    # ---------------- P ----------------
    P = None
    if "P" in stages:
        rc, P, txt, dt = stages["P"]
        if P is None:
            errors.append("P stage produced no result (rc=%s)\n%s" % (rc, txt[-1500:]))
        else:
            errors.extend(P.get("errors", []))
            assumptions.extend(P.get("assumptions", []))
            for fn in P.get("functions", []):
                loops_ok = all(o["status"] == "discharged" for o in fn.get("obligations", []) if o.get("kind", "").startswith("loop"))
                for ob in fn.get("obligations", []):
                    if ob["status"] == "failed" and not (ob.get("prop") and loops_ok):
                        # refuted auxiliary clause (frame, helper exactness, loop invariant, safety) or a property clause whose
                        # loop invariants no longer hold: the PROOF is broken, which is not by itself a verdict about the property.
                        # The counter-model is still replayed on the real code: if the real function violates a property
                        # clause on the model's inputs it is a violation, otherwise the obligation stays undecided (layer B decides).
                        violations.append({"layer": "P", "site": fn["name"], "clause": ob["name"], "aux": True,
                                           "witness_class": ob.get("witness_class", "model"),
                                           "message": ob.get("message", ""), "model": ob.get("model"),
                                           "replay_input": ob.get("replay_input"), "solver_output": ob.get("solver_output", "")})
                    elif ob["status"] == "failed":
                        violations.append({"layer": "P", "site": fn["name"], "clause": ob["name"],
                                           "witness_class": ob.get("witness_class", "model"),
                                           "message": ob.get("message", ""), "model": ob.get("model"),
                                           "replay_input": ob.get("replay_input"), "solver_output": ob.get("solver_output", "")})
                    elif ob["status"] != "discharged" and ob.get("replay_input") is not None and ob.get("candidate_model"):
                        # the solvers could not decide the obligation; a model of the quantifier-free part of the verification condition is a candidate
                        # input.  It is replayed on the real code like the counter-model of a broken auxiliary obligation: only a property-level
                        # failure of the REAL code on it is reported, otherwise the obligation stays undecided (layer B decides).
                        violations.append({"layer": "P", "site": fn["name"], "clause": ob["name"], "aux": True, "candidate": True,
                                           "witness_class": ob.get("witness_class", "model"),
                                           "message": "obligation %s undecided by the solvers; candidate input from the quantifier-free part of the verification condition" % ob["name"],
                                           "model": ob.get("candidate_model"), "replay_input": ob.get("replay_input"), "solver_output": ob.get("solver_output", ""),
                                           "undecided_reason": ob.get("reason", ob["status"])})
                    elif ob["status"] != "discharged":
                        undecided.append({"obligation": ob["name"], "site": fn["name"], "reason": ob.get("reason", ob["status"])})
            for lm in P.get("lemmas", []):
                if lm["status"] != "discharged":
                    errors.append("lemma %s not accepted: %s" % (lm["name"], lm.get("reason", lm["status"])))
    # ---------------- B ----------------
    B = None
    if "B" in stages:
        rc, B, txt, dt = stages["B"]
        if B is None:
            errors.append("B stage produced no result (rc=%s)\n%s" % (rc, txt[-1500:]))
        else:
            errors.extend(B.get("errors", []))
            for v in B.get("violations", []):
                violations.append({"layer": "B", "site": v["site"], "clause": v["clause"], "witness_class": v["witness_class"],
                                   "message": v["message"], "case": v["case"], "witness": v.get("witness"), "count": v.get("count", 1)})

    # ---------------- replay of failed proof obligations on the real code ----------------
    for v in violations:
        if v["layer"] != "P":
            continue
        v["reproduced"] = None
        if v.get("replay_input") is not None and os.path.exists(os.path.join(ROOT, "bounded", "replay_models.py")):
            inp = os.path.join(cache, "%s.replay_in.json" % prop)
            outp = os.path.join(cache, "%s.replay_out.json" % prop)
            json.dump({"property": prop, "obligation": v["clause"], "site": v["site"], "input": v["replay_input"]}, open(inp, "w"))
            if os.path.exists(outp):
                os.remove(outp)
            rc, res, txt, dt = run_stage([PY_B, os.path.join(ROOT, "bounded", "replay_models.py"), inp, outp], outp, 300,
                                         os.path.join(cache, prop + ".replay.log"))
            if res is not None:
                v["reproduced"] = bool(res.get("reproduced"))
                v["native"] = res
    kept = []
    for v in violations:
        if v["layer"] == "P" and not v.get("aux") and v.get("reproduced") is False and isinstance(v.get("native"), dict) \
                and not str(v["native"].get("detail", "")).startswith(("replay crashed", "no native replay handler")):
            # the solver's counter-model WAS replayed and the real code satisfies the property-level check on exactly that input: the refuted
            # clause is not violated by the code on the witness the solver offers (spurious model or a clause sharper than the statement).
            # Not a violation and not a proof: undecided, layer B decides.
            undecided.append({"obligation": v["clause"], "site": v["site"],
                              "reason": "refuted, but the replay of the counter-model on the real code satisfies the property (no violation shown; layer B decides): "
                                        + (v.get("solver_output") or "")[:160].replace("\n", " ")})
            continue
        if v.get("candidate") and not v.get("reproduced"):
            undecided.append({"obligation": v["clause"], "site": v["site"], "reason": v.get("undecided_reason", "unknown")})
        elif v.get("aux") and not v.get("reproduced"):
            undecided.append({"obligation": v["clause"], "site": v["site"],
                              "reason": "auxiliary obligation refuted but the counter-model does not violate the property on the real code "
                                        "(proof broken, layer B decides): " + (v.get("solver_output") or "")[:160].replace("\n", " ")})
        else:
            kept.append(v)
    violations = kept
    # ---------------- report ----------------
    lines = []
    n_viol = 0
    n_known = 0
    vid = 0
    for v in violations:
        kf = findings.match(known, prop, v)
        if kf is not None:
            n_known += 1
            lines.append("KNOWN-FINDING: property=%s %s" % (prop, kf["text"]))
            continue
        vid += 1
        n_viol += 1
        path = os.path.join(rdir, "%s_%02d.json" % (v["layer"], vid))
        payload = {"property": prop, "layer": v["layer"], "obligation": v["clause"], "site": v["site"],
                   "witness_class": v["witness_class"], "message": v["message"], "tier": tier, "seed": seed}
        suffix = ""
        if v["layer"] == "P":
            payload.update({"model": v.get("model"), "replay_input": v.get("replay_input"), "solver_output": v.get("solver_output"),
                            "reproduced_on_real_code": v.get("reproduced"), "native": v.get("native")})
            if not v.get("reproduced"):
                suffix = " no-failing-input-found"
        else:
            payload.update({"case": v.get("case"), "witness": v.get("witness")})
        json.dump(payload, open(path, "w"), indent=1, default=str)
        lines.append("VIOLATION property=%s replay=%s%s" % (prop, os.path.relpath(path, ROOT), suffix))
        lines.append("  obligation=%s site=%s witness=%s :: %s" % (v["clause"], v["site"], v["witness_class"],
                                                                 (v["message"] or "").splitlines()[0][:300] if v["message"] else ""))
    for u in undecided:
        lines.append("UNDECIDED obligation=%s site=%s reason=%s" % (u["obligation"], u["site"], u["reason"]))
    seen = set()
    for ln in lines:
        if ln.startswith("KNOWN-FINDING") and ln in seen:
            continue
        seen.add(ln)
        print(ln)
    for e in errors:
        print("CHECKER-ERROR %s" % e.strip().splitlines()[0][:300])

    # ---------------- evidence ----------------
    levels = load_levels()
    level = levels.get(prop, "other")
    cov = {}
    n_ob = n_dis = 0
    fns = []
    by_backend = {}
    solver_time = 0.0
    if P:
        for fn in P.get("functions", []):
            fobs = fn.get("obligations", [])
            fns.append({"name": fn["name"], "file": fn.get("file"), "sha256": fn.get("sha256"), "lines": fn.get("lines"),
                        "obligations": len(fobs), "discharged": sum(1 for o in fobs if o["status"] == "discharged"),
                        "dropped_by_extraction": fn.get("dropped", [])})
            for o in fobs:
                n_ob += 1
                if o["status"] == "discharged":
                    n_dis += 1
                    by_backend[o.get("backend", "z3")] = by_backend.get(o.get("backend", "z3"), 0) + 1
                solver_time += o.get("time_s", 0.0)
        for lm in P.get("lemmas", []):
            n_ob += 1
            if lm["status"] == "discharged":
                n_dis += 1
                by_backend[lm.get("backend", "z3")] = by_backend.get(lm.get("backend", "z3"), 0) + 1
            solver_time += lm.get("time_s", 0.0)
        cov.update({
            "obligations": n_ob, "discharged": n_dis,
            "checker_cmd": "python3-vt pyvc/prove.py %s --tier %s  (z3 %s, cvc5 fallback; Lean for lemmas/*.lean)" % (prop, tier, P.get("z3_version", "?")),
            "trusted_base": P.get("trusted_base", []),
            "functions_under_contract": fns,
            "by_backend": by_backend, "solver_time_s": round(solver_time, 3),
            "undecided": undecided, "out_of_subset": P.get("out_of_subset", []),
            "lemmas": P.get("lemmas", []),
            "vacuity_covers": P.get("vacuity", []),
            "encoder_crosscheck": P.get("crosscheck") or {"status": "not run inside the check",
                                                           "note": "the CPython differential of DESIGN section 6 was not built; the encoding is exercised by the developer "
                                                                   "tool vlib/pmutate.py --bcheck (planted mutants proved by P and run through layer B, DESIGN section 12) and "
                                                                   "by the native replay of every refuted obligation"},
            "baseline_guard": "every obligation name recorded for the pinned tree in contracts/baseline.json must be generated again (else UNDECIDED)",
            "obligation_samples": P.get("obligation_samples", []),
        })
    if B:
        cov.update({
            "evaluations": B["evaluations"], "distinct_nontrivial": B["distinct_nontrivial"],
            "rule": B.get("rule", B.get("bound", "")), "samples": B["samples"] or ["(none)"],
            "exhaustive": B.get("exhaustive", False),
            "bounded": {"label": "bounded stand-in, never counted as proved", "bound": B.get("bound"),
                        "clauses": B.get("clauses", []), "notes": B.get("notes", [])},
        })
    elif P:
        samples = P.get("obligation_samples", []) or ["(none)"]
        cov.update({"evaluations": max(n_ob, 1), "distinct_nontrivial": n_ob, "rule": "one evaluation per named proof obligation", "samples": samples})
    cov["explanation"] = ("P (proved, unbounded): %d/%d named obligations discharged over %d functions extracted from the working tree; "
                          "B (bounded stand-in, not proof): %s contract evaluations over %s cases (%s distinct non-trivial). See DESIGN.md section 7 %s."
                          % (n_dis, n_ob, len(fns), sum(c.get("evaluations", 0) for c in (B or {}).get("clauses", [])) if B else 0,
                             B["evaluations"] if B else 0, B["distinct_nontrivial"] if B else 0, prop))
    cov["known_findings_reported"] = n_known
    ev = {"property_id": prop, "tier": tier, "seed": seed, "level": level, "coverage": cov,
          "assumptions": sorted(set(assumptions + ((B or {}).get("assumptions", []) if B else []))),
          "wall_s": round(time.time() - t0, 2), "violations": n_viol}
    with open(os.path.join(evdir, prop + ".json"), "w") as f:
        json.dump(ev, f, indent=1, default=str)

    if n_viol:
        return 1
    if errors:
        return 3
    if undecided and not B:
        return 2
    if not P and not B:
        print("CHECKER-ERROR no layer available for %s" % prop)
        return 3
    print("OK property=%s tier=%s obligations=%d discharged=%d bounded_cases=%d known_findings=%d wall=%.1fs"
          % (prop, tier, n_ob, n_dis, B["evaluations"] if B else 0, n_known, time.time() - t0))
    return 0


def do_replay(prop, path, seed, cache):
    path = os.path.abspath(path if os.path.exists(path) else os.path.join(ROOT, path))
    payload = json.load(open(path))
    if payload.get("layer") == "B" or "case" in payload:
        out = os.path.join(cache, "%s.Breplay.json" % prop)
        rc, res, txt, dt = run_stage([PY_B, os.path.join(ROOT, "bounded", "run.py"), prop, "--seed", str(seed), "--out", out, "--replay", path],
                                     out, 1800, os.path.join(cache, prop + ".Breplay.log"))
        if res is None:
            print("CHECKER-ERROR replay produced no result")
            return 3
        for v in res.get("violations", []):
            print("REPRODUCED clause=%s site=%s :: %s" % (v["clause"], v["site"], v["message"].splitlines()[0][:300] if v["message"] else ""))
        for e in res.get("errors", []):
            print("CHECKER-ERROR", e.splitlines()[0])
        return 1 if res.get("violations") else 0
    inp = os.path.join(cache, "%s.replay_in.json" % prop)
    outp = os.path.join(cache, "%s.replay_out.json" % prop)
    json.dump({"property": prop, "obligation": payload.get("obligation"), "site": payload.get("site"), "input": payload.get("replay_input")}, open(inp, "w"))
    if os.path.exists(outp):
        os.remove(outp)
    rc, res, txt, dt = run_stage([PY_B, os.path.join(ROOT, "bounded", "replay_models.py"), inp, outp], outp, 300,
                                 os.path.join(cache, prop + ".replay.log"))
    print(json.dumps(res, indent=1) if res else txt[-2000:])
    return 1 if res and res.get("reproduced") else 0


if __name__ == "__main__":
    sys.exit(main())
