"""Developer tool (not used by the checks): run the bounded layer of the given properties and print candidate `finding:` lines
for every violation that is not yet listed in known_findings.txt.  Lines must be reviewed (native repro!) before they are added."""
import json, os, subprocess, sys
ROOT = os.path.dirname(os.path.dirname(os.path.abspath(__file__)))
sys.path.insert(0, ROOT)
from vlib import findings
tier = os.environ.get("TIER", "quick")
known = findings.load(os.path.join(ROOT, "known_findings.txt"))
props = sys.argv[1:]
procs = {}
for p in props:
    out = "/tmp/cf_%s_%s.json" % (p, tier)
    procs[p] = (subprocess.Popen(["/venv/bin/python", os.path.join(ROOT, "bounded", "run.py"), p, "--tier", tier, "--out", out],
                                 stdout=subprocess.DEVNULL, stderr=subprocess.DEVNULL, cwd=ROOT), out)
for p, (pr, out) in procs.items():
    pr.wait()
    try:
        r = json.load(open(out))
    except Exception as e:
        print("# %s: no result (%s)" % (p, e)); continue
    print("# %s %s: %d cases, %d violations, errors=%s, wall=%ss" % (p, tier, r["evaluations"], len(r["violations"]), r["errors"], r["wall_s"]))
    for v in r["violations"]:
        vv = {"site": v["site"], "clause": v["clause"], "witness_class": v["witness_class"]}
        if findings.match(known, p, vv):
            continue
        print("finding: property=%s site=%s clause=%s witness=%s -- %s" % (p, v["site"], v["clause"], v["witness_class"], v["message"].splitlines()[0][:260] if v["message"] else ""))
