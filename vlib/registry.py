"""What MANIFEST.json claims.  Edit here, then run  /venv/bin/python vlib/mkmanifest.py"""
HOOKS = {
    "guard": "SPARSESPACE_VERIF",
    "enable": "no hooks are compiled into /repo: contracts are sidecar files under /verif/contracts and runtime wrappers are installed inside the check process only",
    "baseline_off_cmd": "cd /repo && /venv/bin/python -m pytest -ra -q -p no:cacheprovider --timeout=900 --continue-on-collection-errors",
    "source_commits": [],
    "add_only": True,
}
NOTES = ("Technique: contract-based deductive verification of the real code. Layer P = own AST->SMT VC generator over the real function bodies "
         "re-read from /repo on every run (unbounded in the inputs; where a function is only loop-free for a fixed dimension the bound on the dimension is stated); "
         "layer L = lemmas over the spec vocabulary (SMT induction schemas, Lean 4/Mathlib); layer B = runtime contracts on the real functions over a stated bounded "
         "universe (labelled bounded, never counted as proved). A refuted obligation is replayed on the real code; unknown/timeout/out-of-subset is UNDECIDED and "
         "the bounded layer decides. Genuine defects found are in known_findings.txt (fixed: / finding:). See DESIGN.md.")

T_MIXED = "contract-based deductive verification (own AST->SMT VC generator on the real source, z3/cvc5, lemmas) + bounded runtime contracts as labelled stand-in"
T_BOUNDED = "runtime contracts on the real functions over a bounded universe (labelled bounded stand-in); small proved kernels where within reach"
TRUST = ("Trusted base: pyvc encoding of Python (ints mathematical, floats as reals A-REAL, tuples as arrays), prelude contracts of builtins/numpy, z3/cvc5/Lean kernels; "
         "trusted (assumed) callee contracts are listed in the evidence. Bounded layer: independent oracles written in the harness, tolerances stated per clause.")


def mixed(text, note=""):
    return dict(level="other", text=text, note=TRUST + (" " + note if note else ""), technique=T_MIXED)


def bounded(text, note=""):
    return dict(level="exploration", text=text, note=TRUST + (" " + note if note else ""), technique=T_BOUNDED)


CLAIMS = {
    "C01": mixed("PROVED for all inputs (unbounded dimension, arbitrary index sets): update_adaptive_combi / __refine_scheme / the query methods, symbolically executed from the "
                 "working tree, preserve the index-set invariant (entries>=lmin, old/active disjoint, backward neighbours old => downward closed, no active index with a forward "
                 "neighbour) for refinable and non-refinable requests; getCombiScheme on an adaptive object returns the scheme computed once for exactly old | active whatever lmin / lmax arguments are passed and changes nothing; Lean/Mathlib: for ANY finite index set the stencil coefficients of the grids dominating l sum to [l in I]. "
                 "init_adaptive_combi_scheme also without its precondition: an invalid level range is refused and a refused request leaves the scheme untouched. "
                 "BOUNDED: initialisation, closed-form scheme, and the link get_coefficients_to_index_set <-> Lean coeff function (exhaustive small universes).",
                 "Initialisation (getGrids recursion) and get_coefficients_to_index_set are covered by the bounded layer only."),
    "C02": mixed("PROVED: the real 1-D trapezoidal grid (set_current_area, level_to_num_points_1d, points/weights) returns as many points as it announces, inside the sub-box, "
                 "boundary-off drops exactly the global boundary points (all levels, all boxes); SMT: level-nestedness; Lean: per-point coefficient sum 1 and reproduction at "
                 "grid points for nested families over downward-closed index sets. BOUNDED: the real StandardCombi (d<=3) against nodal unit functions and hierarchical hats."),
    "C03": mixed("PROVED: modify_according_to_levelvec (all integers): selected level stays in [lmin, l], is monotone in the component level and depends only on the own level entry "
                 "(relational product proofs); get_point_coord_for_each_dim (1-2 dimensions, any container sizes, children bookkeeping sliced away mechanically, subtraction value abstract): every "
                 "returned 1-D list is strictly ascending, contains both domain end points and consists exactly of the interval ends that pass the level test of that dimension; "
                 "get_subtraction_value for the level-independent coarsening versions 2 and 3 (relational product proofs, get_max_level abstract): the subtraction value depends only on the own level "
                 "entry and the level down to which points are kept grows with the component level; "
                 "RefinementContainer.refine when the interval refuses to be split (floating-point resolution): the container is left untouched, so the 1-D point sets keep the domain end points in histories with a refused step; "
                 "Lean lemmas as C02. BOUNDED: the real dimension-wise strategy under an adversarial benefit oracle (d<=3, versions 2,3,6,7,8, "
                 "rebalancing, boundary on/off): sorted nested 1-D sets, coefficient sum 1, reproduction at grid points after every refinement step."),
    "C04": bounded("No contract within reach decides 'every function of the initial space stays exact' (needs approximation theory through numpy quadrature/interpn). "
                   "BOUNDED (deciding): hierarchical hats of the initial space, random combinations and linear monomials carried as extra output components through adversarial "
                   "refinement histories of all three strategies. PROVED support only: coarsening never below lmin; global trapezoidal weights (standard and modified basis) are "
                   "the exact integrals of the basis functions; the local 1-D trapezoidal rule with boundary points (used per area by extend-split and cell) integrates 1 and x "
                   "exactly for every level and sub-box."),
    "C05": mixed("PROVED: the accumulation pass compute_solutions (any number of component grids and sub-areas, extend-split receiver) adds to the combined result exactly "
                 "the sum over component grids and areas of coefficient*component result, and the same to the container total / the area values; Integration.evaluate_area moves area value, container total and combined result by the same coefficient*component-integral; process_removed_objects "
                 "subtracts each removed area exactly once; RefinementContainer.set_value/set_evaluations keep total == sum over objects (ghost Sum + induction lemma). "
                 "dimension-wise / standard strategies: Integration.calculate_operation_dimension_wise adds coefficient * (quadrature of the grid set to exactly the handed-in point sets) to the combined result and the container total, "
                 "evaluate_levelvec adds coefficient * component integral over the whole domain; StandardCombi.get_points_and_weights (schemes of 1-3 component grids, any number of points): "
                 "the exposed rule is, in scheme order, every component grid's current points with its weights times the grid's coefficient, each component rule requested once in this call. "
                 "BOUNDED: at every stop of every strategy result == sum coeff*component result recomputed independently, == from-scratch evaluation, unchanged by reevaluate_at_end."),
    "C06": mixed("PROVED: splitting an interval yields two children tiling it at an inner point with shared-point level max+1, inherited outer levels, coarsening max(c-1,0)>=0, "
                 "receiver unchanged, never raises; the selection kernel returns the FIRST object at/after the cursor whose benefit reaches the tolerance and advances the cursor "
                 "(any container size); benefits non-negative; refinement_postprocessing (1-2 dimensions, any container sizes, rebalancing on or off, removal / sorting / rebalancing abstract): "
                 "afterwards every interval's coarsening level == lmax[d] - its highest end-point level, never negative, lmax[d] >= deepest level (update_coarsening_values and "
                 "RefinementContainer.update_values proved, raise_lmax assumed to add its argument to lmax[d]); RefinementContainer.refine with an interval that refuses to be split leaves the container untouched (post_raise). BOUNDED: whole-container tiling, tree level rule incl. rebalancing, coarsening/lmax bookkeeping, exact split set per step."),
    "C07": mixed("PROVED for d in {1,2,3} with symbolic coordinates: split_area_single_dim / split_area_arbitrary_dim children lie inside the parent, have pairwise disjoint "
                 "interiors and volumes summing to the parent's; refine() for d in {1,2} under all three policies (split-then-extend, automatic extend/split by parent benefits, "
                 "splitSingleDim by twin errors): the outcome is either one area with the same box and coarsening >= 0 or 2^k areas tiling the parent with unchanged coarsening, never an exception; "
                 "update keeps coarsening>=0. BOUNDED: coarsen_grid local combination validity (exhaustive d<=4), whole histories, point assignment."),
    "C08": mixed("PROVED (trapezoidal family, all levels/boxes/flags): announced count == returned points == weights, points inside the box, boundary-off drops exactly global "
                 "boundary points and leaves every remaining weight the composite trapezoidal weight of its global position; with boundary points the weights sum to the box length and "
                 "integrate x exactly (1-D; the list comprehension over range(num_points) is evaluated for an arbitrary index against the contract of get_1d_weight; induction lemmas "
                 "trapezoid-weights-sum / trapezoid-first-moment); the tensor grid (Grid.setCurrentArea / levelToNumPoints, 1-2 dimensions, per-dimension domain, sub-box, level and flag): "
                 "every dimension returns as many coordinates and weights as numPoints reports and as its 1-D grid announces, inside the sub-box. BOUNDED: all families (Trapezoidal, Simpson, Clenshaw-Curtis, Leja, Gauss-Legendre, Lagrange, B-spline) d<=3: counts, containment, weight sum, "
                 "polynomial exactness to the nominal degree."),
    "C09": mixed("PROVED for every number of points and every strictly sorted grid: GlobalTrapezoidalGrid.compute_weights returns for each point the exact integral of its "
                 "(modified) hat function (standard; modified n=3, n=4, n>=5), non-negative in the standard case; induction lemma: sum w_i f_i == integral of the piecewise-linear "
                 "interpolant; linear exactness; end-weight lemma for the modified basis; GlobalGrid.set_grid (1-2 dimensions, any number of points): the grid keeps the handed-in points with the weights computed for exactly "
                 "these points, one weight and level per kept point, boundary off drops exactly the first and last point with their weights and levels. BOUNDED: Simpson/high-order/Lagrange/B-spline global rules on all refinement trees of depth<=4."),
    "C10": bounded("BOUNDED (deciding): hierarchise-then-interpolate is the identity on every grid, polynomial reproduction, derivatives/integrals of basis functions, for local and "
                   "global Lagrange/B-spline grids on refinement trees. PROVED kernel: LagrangeBasis is 1 at its own knot and 0 at every other knot for ANY number of distinct knots, any index "
                   "(loop invariants over the ghost product through the real constructor and __call__; induction lemmas prod-zero, prod-inverse), and additionally by loop-free "
                   "unrolling for 2..4 knots."),
    "C11": bounded("BOUNDED (deciding, exhaustive over all dyadic trees of depth<=4, all slice groupings/versions/containers): weights sum to the interval length, linear exactness, "
                   "degree 2m+1 on complete grids, binary-tree completion. PROVED kernel: get_romberg_coefficient for ANY depth m and any j (exponents 1, 2) is the product of the interval-free ratios "
                   "2^(je)/(2^(je)-2^(ie)) (ghost Prod invariant through the real loop; lemmas romberg-ratio, pow2-strictly-monotone), i.e. independent of [a,b]; for m<=3 it equals the "
                   "explicit Richardson constant; "
                   "the constants sum to 1 and cancel the error terms."),
    "C12": mixed("PROVED: Function.__call__ single-point path returns the evaluation of the point whether cached or not, keeps the cache sound and counts each distinct point once; "
                 "every local is defined on every path; an empty batch yields an array shaped (0, output length) and counts nothing; reset/deactivate contracts; "
                 "the polynomial test functions (ConstantValue any dimension; FunctionLinear / FunctionMultilinear d<=3; FunctionPolynomial d<=2, degree<=3) evaluate to the stated polynomial "
                 "and their analytic integral is the integral of that polynomial over every box (shared monomial spec, NRA). BOUNDED: all 33 function classes, operation histories (single/batch/repeat/empty/reset/"
                 "deactivate), analytic integral vs own Gauss quadrature."),
    "C13": mixed("PROVED for ALL sequences of (error, point count) the evaluation steps may produce: continue_adaptive_refinement stops at the FIRST evaluation meeting a stopping "
                 "rule, never refines after it, appends exactly one history entry per evaluation recording that evaluation (ghost counters on abstract step contracts); Integration.get_global_error_estimate (result vectors of length 1..3, norms 1/2/inf): the reported error is the normalised "
                 "norm of the absolute deviation exactly for the zero reference and of the component-wise relative deviation for every other reference, however small; the default local error estimators of both adaptive strategies (vectors of length 1..3, norms 1/2/inf) return the normalised "
                 "norm of absolute values and are never negative; the reported point count is the number of points in the integrand's evaluation cache (chain get_total_num_points -> get_distinct_points -> get_f_dict_size; that the cache holds exactly the distinct evaluated points is C12's contract). "
                 "performSpatiallyAdaptiv (entry point): the driver loop is entered with empty history arrays after exactly one initialisation, the options and the reference of the request are those of the run, and a request refused by the argument validation keeps the history arrays of the previous run. "
                 "BOUNDED: all strategies with reference solution: reported error == normalised deviation in the chosen norm, point count == distinct evaluations, no negative errors."),
    "C14": bounded("BOUNDED (deciding): stop-and-continue at every interruption index, save/restore round trip (dill) vs an uninterrupted run. PROVED support: the driver loop is "
                   "re-entrant for an arbitrary existing history (C13 contract); the selection kernel a resumed run uses is the exact comparison benefit >= tolerance (any container size), "
                   "which is invariant under the common scaling of the accumulated benefits that a re-evaluation after a resume produces (SMT lemma)."),
    "C15": mixed("PROVED for every grid size/sorted grid with the distribution abstracted by its interval moments (A-DIST): weighted trapezoidal weights are non-negative and equal "
                 "the per-interval moment formula, and (ghost Sum through the accumulation loop, lemmas sum-update / total-mass) add up to the probability of [x_0, x_{n-1}], i.e. to 1 "
                 "when the grid spans the support and interval probabilities are additive (A-DIST-ADD); lemmas: uniform => trapezoidal/(b-a); E[cf+e]=cE[f]+e, Var[cf+e]=c^2 Var[f], constant model; variance never negative (1..3 outputs); get_middle_weighted with an abstract strictly increasing cdf and its inverse ppf returns a point strictly inside the interval "
                 "that halves its probability. "
                 "_set_nodes_weights_evals (node-based statistics; any leftovers of earlier or aborted queries in the operation, abstract pure model): nodes, weights and model values have one length and f_evals[i] is the model value at nodes[i]. "
                 "BOUNDED: real distributions (uniform/triangle/normal), weighted midpoint with inexact ppf, sums to 1 incl. infinite ends and boundary-off renormalisation, the real UQ pipeline."),
    "C16": mixed("PROVED for every dimension with symbolic coordinates: calculate_R_value_analytically returns the product of the 1-D L2 products of the two hat functions (Gram entry), 0 for non-adjacent; "
                 "lemma: the closed forms are the integrals; hat_function_non_symmetric (standard basis) and hat_function (uniform grid) return the product of the 1-D hat values for every dimension; "
                 "check_adjacency is true exactly when the indices differ by at most one in every dimension; the mass-lumped system matrix value of a uniform component grid (dims 1-3, any levels) is the Gram diagonal prod 2 h_k / 3; build_R_matrix without mass lumping (dims 1-2, the grid abstracted to two arbitrary grid points): every entry is the Gram entry of the two hats, lambda added on the diagonal, symmetric. BOUNDED: matrix assembly (uniform / dimension-wise), SPD, mass lumping, right-hand side on all three size paths, "
                 "scalar vs vectorised hats, normalisation."),
    "C17": bounded("Relational over configurations (reuse on/off, both sides of the 200-point threshold): no single-call contract expresses the whole property. "
                   "PROVED kernel (d in {1,2}, symbolic coordinates): get_domain_overlap_width returns the cache key (ascending overlap widths, ascending node distances; zeros when not "
                   "adjacent), and for hats of grid nodes equal keys imply equal Gram entries (SMT lemma over the value contract of calculate_R_value_analytically), i.e. a hit of the "
                   "matrix-entry cache returns what a recomputation would. BOUNDED (deciding): both configurations run on the same data and refinement history, "
                   "surpluses/scheme/densities equal to 1e-9; right-hand-side reuse, data bins, size threshold."),
    "C18": bounded("numpy/sklearn-based bookkeeping mostly outside the verified subset (PROVED kernel: split_pieces cuts samples and labels at the same index, prefix/suffix, "
                   "nothing lost; DataSet.concatenate: the result holds the receiver's rows followed by the argument's with labels attached and the receiver's scaling attributes, inputs untouched, "
                   "a refusal leaves both sets untouched -- its clause 'different scalings are refused' is REFUTED on the pinned tree (known finding, replayed natively)); BOUNDED (deciding): random operation sequences (<=8 ops over 14 operations) on data sets incl. empty, single, ties, "
                   "unlabelled: range ends, revert restores, multiset of (sample,label) preserved, attributes carried, refusals without modification."),
    "C19": bounded("PROVED kernel (any number of samples): Classification._evaluate reports wrong == number of positions where assigned class and true label differ, "
                   "total == number of classified samples, percentage == 1 - wrong/total, and refuses only when the two lengths differ; Classification.test_data / __call__ (scaling, label split, concatenation and arg-max classification abstract): "
                   "the classes of earlier data are never changed, new classes are appended in order and stay aligned with the recorded tested samples, unlabelled samples are set aside, "
                   "the summary covers exactly the newly tested samples. "
                   "_process_performed_classification (2 and 3 classes, any leftovers of earlier learning attempts in the object): the estimator table holds exactly one estimator per class of this learning call in class order, held-out data are classified with them. "
                   "BOUNDED (deciding): synthetic labelled sets, standard and dimension-wise learning, sequences of __call__/test_data with data inside/partly/entirely outside: arg-max clause "
                   "against independently evaluated per-class densities, out-of-range removal, summary consistency, history stability."),
    "C20": bounded("PROVED kernel (any number of component grids): all six coefficient-optimisation variants (error per grid, least squares on the validation set, Garcke's linear "
                   "system; standard and spatially adaptive) leave coefficients in the scheme that sum to one, whatever the validation errors / the lstsq solution are, provided "
                   "the raw sum is not zero (assumption A-NORMALISABLE: the library divides by it unguarded) -- ghost Sum, loop invariants, induction lemma sum-scale; "
                   "build_C_matrix (dims 1-2, the grid abstracted to two arbitrary grid points): every entry is the gradient Gram entry of the two hats (sum over k of stiffness in k times mass in the other dimensions), symmetric. "
                   "BOUNDED (deciding for the rest): normal equations residual on every component grid, design matrix == basis values, C == gradient Gram matrix (own exact reference) incl. anisotropic level "
                   "vectors, PSD, every coefficient optimisation variant sums to one; standard and dimension-wise training, d<=3."),
}
NOT_APPLICABLE = {}
