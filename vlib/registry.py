"""What MANIFEST.json claims.  Edit here, then run  python3 vlib/mkmanifest.py"""
HOOKS = {
    "guard": "SPARSESPACE_VERIF",
    "enable": "no hooks are compiled into /repo: contracts are sidecar files under /verif/contracts and runtime wrappers are installed inside the check process only",
    "baseline_off_cmd": "cd /repo && /venv/bin/python -m pytest -ra -q -p no:cacheprovider --timeout=900 --continue-on-collection-errors",
    "source_commits": [],
    "add_only": True,
}
NOTES = ("Technique: contract-based deductive verification of the real code. Layer P = own AST->SMT VC generator over the real function bodies "
         "(unbounded); layer L = lemmas (SMT induction, Lean/Mathlib); layer B = runtime contracts over a bounded universe (labelled bounded, never counted as proved). "
         "See DESIGN.md.")
CLAIMS = {}
NOT_APPLICABLE = {}
