"""What MANIFEST.json claims.  Edit here, then run  python3 vlib/mkmanifest.py"""
HOOKS = {
    "guard": "SPARSESPACE_VERIF",
    "enable": "no hooks are compiled into /repo: contracts are sidecar files under /verif/contracts and runtime wrappers are installed inside the check process only",
    "baseline_off_cmd": "cd /repo && /venv/bin/python -m pytest -ra -q -p no:cacheprovider --timeout=900 --continue-on-collection-errors",
    "source_commits": [],
    "add_only": True,
}
NOTES = ("Technique: contract-based deductive verification of the real code. Layer P = own AST->SMT VC generator over the real function bodies "
         "(unbounded); layer L = lemmas (SMT induction, Lean/Mathlib); layer B = runtime contracts over a bounded universe (labelled bounded, never counted as proved). "
         "See DESIGN.md.")
CLAIMS = {
    "C01": dict(
        level="other",
        text=("Mixed. PROVED for all inputs (unbounded dimension, arbitrary index sets): the real update_adaptive_combi / __refine_scheme / query methods, "
              "symbolically executed from the working tree, preserve the index-set invariant (entries>=lmin, old/active disjoint, backward neighbours old "
              "=> downward closed, no active index with a forward neighbour) for refinable and non-refinable requests; Lean/Mathlib lemma: for ANY finite index set "
              "the stencil coefficients of the grids dominating l sum to [l in I] (inclusion-exclusion, hence sum 1). BOUNDED (not proof): initialisation, the "
              "closed-form scheme, and the link between get_coefficients_to_index_set and the Lean coeff function are checked exhaustively on small universes."),
        note=("Assumes the pyvc encoding of Python (ints mathematical, tuple == array in canonical form), A-ITER; z3/cvc5/Lean kernels; "
              "initialisation (getGrids recursion) and get_coefficients_to_index_set are only covered by the bounded layer."),
        technique="deductive verification (own AST->SMT VC generator, z3/cvc5) + Lean 4/Mathlib lemma; bounded runtime contracts as stand-in",
    ),
}
NOT_APPLICABLE = {}
