"""Developer tool: copy verified seeded changes from /tmp/seed_out into /verif/seeded/<id>/ and print the DESIGN table.
A seed is kept only if: the patch applies, demo exits 0 on the pristine tree and != 0 with the patch, and the full repository suite with the patch
fails only tests that also fail on the pristine tree."""
import json, os, shutil, sys
ROOT = os.path.dirname(os.path.dirname(os.path.abspath(__file__)))
SRC = "/tmp/seed_out"
KNOWN_FAILING = {
    "test/test_ExtrapolationInterpolatingGrid.py::TestExtrapolationInterpolationGrid::test_full_grid_interpolation",
    "test/test_Regression.py::TestRegression::test_Opticom_sum_always_1",
    "test/test_Regression.py::TestRegression::test_Opticom_sum_always_1_spatially_adaptive",
    "test/test_Regression.py::TestRegression::test_calculate_C_matrix",
    "test/test_UncertaintyQuantification.py::TestUncertaintyQuantification::test_pce",
}
rows = []
for name in sorted(os.listdir(SRC)):
    d = os.path.join(SRC, name)
    if not (os.path.isdir(d) and len(name) == 5 and name[0] == "C" and name[3] == "_"):
        continue
    rp = os.path.join(d, "result_quick.json")
    if not os.path.exists(rp):
        print("# %s: no result" % name); continue
    r = json.load(open(rp))
    meta = json.load(open(os.path.join(d, "meta.json")))
    ok_demo = r.get("demo_pristine_exit") == 0 and r.get("demo_patched_exit") not in (0, None) and r.get("patch_applies")
    tests_known = "tests_failed" in r
    extra = sorted(set(r.get("tests_failed", [])) - KNOWN_FAILING)
    ok_tests = tests_known and not extra and "passed" in r.get("tests_tail", "")
    if not (ok_demo and ok_tests):
        print("# %s NOT kept: demo ok=%s tests known=%s extra failures=%s tail=%s" % (name, ok_demo, tests_known, extra, r.get("tests_tail")))
        continue
    dst = os.path.join(ROOT, "seeded", name)
    os.makedirs(dst, exist_ok=True)
    for f in ("patch.diff", "demo.py"):
        shutil.copy(os.path.join(d, f), os.path.join(dst, f))
    viol = [v for v in r.get("check_violations", []) if v.startswith("  obligation=")]
    first = viol[0].strip() if viol else ""
    layer = "P" if first.startswith("obligation=") and "site=sparseSpACE/" in first else ("B" if first else "-")
    m = {
        "property": meta["property"], "summary": meta.get("summary"), "needs_to_manifest": meta.get("needs_to_manifest"),
        "files_touched": meta.get("files_touched"), "author": "independent sub-agent given only the property text and a scratch worktree",
        "what_was_run": {
            "demo": "cd <scratch worktree> && PYTHONPATH=<worktree> /venv/bin/python demo.py : exit %s on the pristine tree, exit %s with the patch" % (r["demo_pristine_exit"], r["demo_patched_exit"]),
            "tests": "full repository suite with the patch applied: %s; failures not in the pristine always-failing set: %s" % (r.get("tests_tail"), extra),
            "check": "VERIF_REPO=<patched worktree> bin/check %s --tier quick : exit %s" % (meta["property"], r.get("check_exit")),
        },
        "caught_by_quick_check": bool(r.get("caught")), "first_violation": first[:400], "layer": layer,
    }
    json.dump(m, open(os.path.join(dst, "meta.json"), "w"), indent=1)
    clause = first.split(" site=")[0].replace("obligation=", "") if first else ""
    rows.append((name, meta["property"], (meta.get("summary") or "")[:110].replace("|", "/"), (meta.get("needs_to_manifest") or "")[:90].replace("|", "/"),
                 "caught" if r.get("caught") else "MISSED", layer, clause[:90]))
print("| seed | what is changed | needs | quick check | layer | first reporting clause / obligation |")
print("|---|---|---|---|---|---|")
for n, p, s, nd, c, l, cl in rows:
    print("| %s | %s | %s | %s | %s | `%s` |" % (n, s, nd, c, l, cl))
print("kept", len(rows))
