"""Regenerates MANIFEST.json from vlib/registry.py (claimed checks) -- every property not claimed is listed not_applicable."""
import json, os, sys
ROOT = os.path.dirname(os.path.dirname(os.path.abspath(__file__)))
sys.path.insert(0, ROOT)
from vlib.registry import CLAIMS, NOT_APPLICABLE, HOOKS, NOTES

props = [json.loads(l)["id"] for l in open(os.path.join(ROOT, "properties.jsonl"))]
checks = []
na = []
for p in props:
    if p in CLAIMS:
        c = CLAIMS[p]
        checks.append({
            "property_id": p,
            "quick_cmd": "bin/check %s --tier quick" % p,
            "thorough_cmd": "bin/check %s --tier thorough" % p,
            "evidence_file": "evidence/%s.json" % p,
            "replay_cmd_template": "bin/check %s --replay {path}" % p,
            "engine": "pyvc+bounded",
            "level_claimed": {"category": c["level"], "text": c["text"], "design_ref": "DESIGN.md section 7 (%s)" % p},
            "level_note": c["note"],
            "technique": c["technique"],
        })
    else:
        na.append({"property_id": p, "reason": NOT_APPLICABLE.get(p, "no check built yet for this property (work in progress)")})
man = {
    "version": 1,
    "setup_cmd": "python3-vt lemmas/run_lean.py --stamp || true",
    "hooks": HOOKS,
    "engines": [
        {"name": "pyvc", "path": "pyvc/", "serves_properties": [p for p in props if p in CLAIMS and os.path.exists(os.path.join(ROOT, "contracts", p + ".py"))],
         "kind_free_text": "own VC generator: symbolic execution of the real function ASTs re-read from /repo on every run, sidecar contracts, modular calls, loop invariants; z3 5.1 with cvc5 fallback; Lean 4 + Mathlib for combinatorial lemmas"},
        {"name": "bounded", "path": "bounded/", "serves_properties": [p for p in props if p in CLAIMS and os.path.exists(os.path.join(ROOT, "bounded", p + ".py"))],
         "kind_free_text": "runtime contracts on the real functions over a stated bounded universe (bounded stand-in, never counted as proved)"},
    ],
    "checks": checks,
    "not_applicable": na,
    "notes": NOTES,
}
json.dump(man, open(os.path.join(ROOT, "MANIFEST.json"), "w"), indent=1)
print("MANIFEST: %d checks, %d not_applicable" % (len(checks), len(na)))
