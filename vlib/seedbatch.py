"""Developer tool: run vlib/seedtest.py for several seed directories with bounded parallelism.
   python3 vlib/seedbatch.py [--tier quick] [--tests] [--par 6] dir1 dir2 ..."""
import os, subprocess, sys, time
ROOT = os.path.dirname(os.path.dirname(os.path.abspath(__file__)))
args = sys.argv[1:]
par = 6
extra = []
dirs = []
i = 0
while i < len(args):
    if args[i] == "--par":
        par = int(args[i + 1]); i += 2
    elif args[i] == "--tier":
        extra += ["--tier", args[i + 1]]; i += 2
    elif args[i] == "--tests":
        extra.append("--tests"); i += 1
    else:
        dirs.append(args[i]); i += 1
running = []
for d in dirs:
    while len(running) >= par:
        running = [p for p in running if p.poll() is None]
        time.sleep(2)
    log = open(os.path.join(d, "run.log"), "w")
    running.append(subprocess.Popen(["/venv/bin/python", os.path.join(ROOT, "vlib", "seedtest.py"), d] + extra, stdout=log, stderr=subprocess.STDOUT))
for p in running:
    p.wait()
print("done", len(dirs))
