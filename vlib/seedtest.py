"""Developer tool: verify a seeded change and run the checks against it.
   python3 vlib/seedtest.py /tmp/seed_out/C15_1 [--tier quick|thorough] [--tests]
Steps: scratch worktree of /repo HEAD under /tmp (removed afterwards) -> demo on pristine tree must exit 0 -> apply patch -> demo must exit != 0
-> (optional) full repository test suite with the patch -> bin/check <prop> with VERIF_REPO pointing at the patched worktree."""
import json, os, shutil, subprocess, sys, time
ROOT = os.path.dirname(os.path.dirname(os.path.abspath(__file__)))


def sh(cmd, **kw):
    return subprocess.run(cmd, stdout=subprocess.PIPE, stderr=subprocess.STDOUT, **kw)


def main():
    d = os.path.abspath(sys.argv[1].rstrip("/"))
    tier = "quick"
    if "--tier" in sys.argv:
        tier = sys.argv[sys.argv.index("--tier") + 1]
    meta = json.load(open(os.path.join(d, "meta.json")))
    prop = meta["property"]
    name = os.path.basename(d)
    wt = "/tmp/vw_%s" % name
    sh(["git", "-C", "/repo", "worktree", "remove", "--force", wt])
    r = sh(["git", "-C", "/repo", "worktree", "add", "--detach", wt, "HEAD"])
    res = {"seed": name, "property": prop, "tier": tier}
    prev_path = os.path.join(d, "result_%s.json" % tier)
    if "--tests" not in sys.argv and os.path.exists(prev_path):
        try:
            prev = json.load(open(prev_path))
            for k in ("tests_tail", "tests_failed", "tests_wall_s"):
                if k in prev:
                    res[k] = prev[k]           # keep the record of the full-suite run of an earlier invocation
        except Exception:
            pass
    try:
        env = dict(os.environ, PYTHONPATH=wt, MPLBACKEND="Agg")
        demo = os.path.join(d, "demo.py")
        p0 = sh(["/venv/bin/python", demo], cwd=wt, env=env, timeout=900)
        res["demo_pristine_exit"] = p0.returncode
        ap = sh(["git", "-C", wt, "apply", os.path.join(d, "patch.diff")])
        res["patch_applies"] = ap.returncode == 0
        if ap.returncode != 0:
            res["apply_output"] = ap.stdout.decode()[-500:]
        p1 = sh(["/venv/bin/python", demo], cwd=wt, env=env, timeout=900)
        res["demo_patched_exit"] = p1.returncode
        res["demo_patched_output"] = p1.stdout.decode()[-600:]
        if "--tests" in sys.argv:
            t0 = time.time()
            pt = sh(["/venv/bin/python", "-m", "pytest", "-q", "-p", "no:cacheprovider", "--timeout=900", "--continue-on-collection-errors"], cwd=wt, env=env, timeout=7200)
            out = pt.stdout.decode()
            res["tests_tail"] = out.strip().splitlines()[-1] if out.strip() else ""
            failed = sorted(l.split(" ")[1] for l in out.splitlines() if l.startswith("FAILED "))
            res["tests_failed"] = failed
            res["tests_wall_s"] = round(time.time() - t0)
        envc = dict(os.environ, VERIF_REPO=wt)
        t0 = time.time()
        pc = sh([os.path.join(ROOT, "bin", "check"), prop, "--tier", tier], cwd=ROOT, env=envc, timeout=7200)
        out = pc.stdout.decode()
        res["check_exit"] = pc.returncode
        res["check_wall_s"] = round(time.time() - t0)
        res["check_violations"] = [l for l in out.splitlines() if l.startswith("VIOLATION") or l.startswith("  obligation=")][:12]
        res["check_undecided"] = [l[:200] for l in out.splitlines() if l.startswith("UNDECIDED")][:6]
        res["check_errors"] = [l[:300] for l in out.splitlines() if l.startswith("CHECKER-ERROR")][:4]
        res["caught"] = pc.returncode == 1 and any(l.startswith("VIOLATION") for l in out.splitlines())
    finally:
        sh(["git", "-C", "/repo", "worktree", "remove", "--force", wt])
        shutil.rmtree(wt, ignore_errors=True)
    print(json.dumps(res, indent=1))
    json.dump(res, open(os.path.join(d, "result_%s.json" % tier), "w"), indent=1)


if __name__ == "__main__":
    main()
