"""python3-vt pyvc/prove.py <ID> --tier quick|thorough --out result.json

Layer P + L for one property: loads contracts/<ID>.py, extracts every function under contract from the current
/repo working tree, generates the verification conditions from the real AST and discharges them."""
import argparse
import importlib
import json
import os
import sys
import time
import traceback

ROOT = os.path.dirname(os.path.dirname(os.path.abspath(__file__)))
sys.path.insert(0, ROOT)

import z3  # noqa: E402

from pyvc import engine, smt  # noqa: E402
from pyvc.book import Book  # noqa: E402
from pyvc.values import OutOfSubset  # noqa: E402

TRUSTED_BASE = [
    "CPython semantics as encoded by pyvc (DESIGN.md section 3): ints mathematical, floats treated as reals (A-REAL), int64 no overflow (A-INT64)",
    "set/dict iteration visits every element exactly once while the container is not mutated (A-ITER)",
    "list-valued fields are not aliased except where the executor tracks the alias (A-ALIAS)",
    "prelude contracts of builtins/numpy used by the targets (len, range, list, tuple, max, min, abs, np.zeros, np.linspace, math.isclose, ...)",
    "z3 5.1 / cvc5 1.0 / Lean 4.33 kernels",
]


def prove_function(book, c, tier):
    out = {"name": "%s:%s" % (c.file, getattr(c, "label", None) or c.qualname), "file": c.file, "sha256": c.sha256, "lines": c.lines, "obligations": [],
           "dropped": [], "paths": 0}
    if c.node is None:
        out["obligations"].append({"name": c.qualname + "/extract", "status": "undecided", "reason": "STALE-CONTRACT: function not found in " + c.file})
        return out, [], None
    ex = engine.Executor(c.node, c, book, cls_name=c.cls_name)
    try:
        obs = ex.explore()
    except OutOfSubset as e:
        out["obligations"].append({"name": c.qualname + "/in-subset", "status": "undecided", "reason": "out-of-subset: %s" % e})
        out["out_of_subset"] = str(e)
        return out, [], ex
    except (KeyError, AttributeError, TypeError, IndexError, z3.Z3Exception) as e:
        if os.environ.get("PYVC_DEBUG"):
            raise
        out["obligations"].append({"name": c.qualname + "/in-subset", "status": "undecided",
                                   "reason": "STALE-CONTRACT or engine limit: %s: %s | %s" % (type(e).__name__, e, traceback.format_exc(limit=int(os.environ.get("PYVC_TB", "3"))).replace("\n", " | ")[-600:])})
        return out, [], ex
    out["paths"] = ex.paths
    out["dropped"] = sorted(ex.dropped)
    out["assumed"] = sorted(set(ex.assumed))
    return out, obs, ex


def norm_name(n):
    """obligation name without source line numbers (they move under harmless edits)"""
    import re
    return re.sub(r"@(\w+:)*L\d+", "@L", n)


def main():
    ap = argparse.ArgumentParser()
    ap.add_argument("prop")
    ap.add_argument("--tier", default="quick")
    ap.add_argument("--seed", type=int, default=0)
    ap.add_argument("--out", required=True)
    ap.add_argument("--only")
    ap.add_argument("--verbose", action="store_true")
    ap.add_argument("--ob")
    ap.add_argument("--timeout", type=int)
    ap.add_argument("--dump")
    ap.add_argument("--write-baseline", action="store_true")
    a = ap.parse_args()
    t0 = time.time()
    res = {"property": a.prop, "tier": a.tier, "functions": [], "lemmas": [], "errors": [], "assumptions": [], "vacuity": [],
           "out_of_subset": [], "trusted_base": list(TRUSTED_BASE), "z3_version": z3.get_version_string(), "obligation_samples": []}
    bpath = os.path.join(ROOT, "contracts", "baseline.json")
    try:
        baseline_all = json.load(open(bpath))
    except Exception:
        baseline_all = {}
    baseline = {} if a.write_baseline else baseline_all.get(a.prop, {})
    try:
        book = Book()
        mod = importlib.import_module("contracts." + a.prop)
        contracts = [book.register(c) for c in mod.CONTRACTS]
        all_obs = []
        per_fn = []
        for c in contracts:
            if c.trusted:
                res["assumptions"].append("TRUSTED contract (assumed at call sites, not proved): %s -- %s" % (c.qualname, c.note))
                continue
            if a.only and a.only not in c.qualname and a.only not in (getattr(c, "label", None) or ""):
                continue
            fo, obs, ex = prove_function(book, c, a.tier)
            per_fn.append((fo, obs, ex, c))
            all_obs.extend(obs)
            if fo.get("out_of_subset"):
                res["out_of_subset"].append({"function": fo["name"], "reason": fo["out_of_subset"]})
            # vacuity: the precondition must be satisfiable
            if ex is not None and ex.covers:
                s = z3.Solver()
                s.set("timeout", 2000)
                for p in ex.covers[0][1]:
                    s.add(p)
                r = s.check()
                note = ""
                if r == z3.unknown:
                    # quantified definitions (ghost sums, lemma instances) make the full query undecidable for the solver: check the quantifier-free part
                    s = z3.Solver()
                    s.set("timeout", 8000)
                    for p in ex.covers[0][1]:
                        if not engine._has_quant(p):
                            s.add(p)
                    r = s.check()
                    note = " (quantifier-free part of the precondition; quantified ghost definitions assumed consistent)"
                res["vacuity"].append({"function": c.qualname, "cover": "pre", "result": str(r) + note})
                if r == z3.unsat:
                    res["errors"].append("vacuous precondition for %s" % c.qualname)
        t_z3 = a.timeout or (20000 if a.tier == "quick" else 60000)
        if a.ob:
            all_obs = [o for o in all_obs if a.ob in o.name]
            per_fn = [(fo, [o for o in obs if a.ob in o.name], ex, c) for fo, obs, ex, c in per_fn]
        if a.dump:
            os.makedirs(a.dump, exist_ok=True)
            for i, o in enumerate(all_obs):
                for k, (h, g) in enumerate(smt.split_goal(list(o.hyps), o.goal)):
                    open(os.path.join(a.dump, "%03d_%d_%s.smt2" % (i, k, o.name.replace("/", "_").replace("#", "_"))), "w").write(smt.to_smt2(h, g))
        agg = smt.discharge(all_obs, t_z3_ms=t_z3, t_cvc5_s=30 if a.tier == "quick" else 120, double_check=(a.tier == "thorough"))
        for fo, obs, ex, c in per_fn:
            names = []
            for ob in obs:
                if ob.name not in names:
                    names.append(ob.name)
            for n in names:
                r = agg[n]
                if r["status"] == "failed" and hasattr(c, "model_to_input"):
                    try:
                        r["replay_input"] = c.model_to_input(r["model"])
                    except Exception as e:  # noqa
                        r["replay_input"] = None
                if r["status"] == "undecided" and r.get("candidate_model") and hasattr(c, "model_to_input"):
                    try:
                        r["replay_input"] = c.model_to_input(r["candidate_model"])
                    except Exception as e:  # noqa
                        r["replay_input"] = None
                r["witness_class"] = "model"
                r["message"] = ("obligation %s refuted by z3: %s" % (n, r.get("solver_output", ""))) if r["status"] == "failed" else ""
                fo["obligations"].append(r)
            # vacuity guard against pruned paths: every obligation recorded for this function on the pinned tree (contracts/baseline.json, written by
            # `pyvc/prove.py <ID> --write-baseline`) must still be generated; one that is not (its path ended early, the code changed shape) is
            # UNDECIDED, never silently absent.  Obligations carrying line numbers (safety@L.., call@L..) are matched without the number.
            base = baseline.get(fo["name"])
            if base is not None and not a.ob:
                have = {norm_name(o["name"]) for o in fo["obligations"]}
                for bn in base:
                    if bn not in have and not any(o["name"].endswith("/in-subset") for o in fo["obligations"]):
                        fo["obligations"].append({"name": bn, "kind": "baseline", "lineno": 0, "instances": 0, "status": "undecided", "backend": "", "time_s": 0.0,
                                                  "model": None, "solver_output": "", "prop": False, "witness_class": "model", "message": "",
                                                  "reason": "recorded on the pinned tree but not generated on this tree (a path to it ended early or the code changed shape)"})
            # vacuity guards: a function that left the verified subset is reported as UNDECIDED (in-subset obligation), not as a checker error
            oos = bool(fo.get("out_of_subset")) or any(o["name"].endswith("/in-subset") and o["status"] != "discharged" for o in fo["obligations"])
            if not fo["obligations"] and not oos:
                res["errors"].append("zero obligations generated for %s (vacuity guard)" % c.qualname)
            exp = getattr(c, "min_obligations", 1)
            if len(fo["obligations"]) < exp and not oos:
                res["errors"].append("obligation count for %s dropped to %d (< %d recorded in the sidecar)" % (c.qualname, len(fo["obligations"]), exp))
            res["functions"].append(fo)
            if a.verbose:
                for o in fo["obligations"]:
                    print("%-10s %-70s %6.2fs %s %s" % (o["status"], o["name"], o.get("time_s", 0), o.get("backend", ""), o.get("reason", "")[:150]))
                    if o["status"] == "failed":
                        print("    model:", json.dumps(o.get("model"))[:1500])
        # lemma dependencies: an obligation proved `by` a lemma instance is only discharged if that lemma is
        used = {}
        for ob in all_obs:
            for ln in getattr(ob, "lemmas", []):
                used.setdefault("lemma/" + ln, set()).add(ob.name)
        res["lemma_uses"] = {k: sorted(v) for k, v in used.items()}
        # lemmas
        for lm in getattr(mod, "LEMMAS", []):
            if a.only and a.only not in lm.name and lm.name not in used and lm.name.replace("lemma/lean/", "lemma/") not in used:
                continue
            r = lm.check(a.tier)
            res["lemmas"].append(r)
            if a.verbose:
                print("%-10s lemma %-60s %6.2fs %s %s" % (r["status"], r["name"], r.get("time_s", 0), r.get("backend", ""), r.get("reason", "")[:300]))
        lemma_status = {l["name"]: l["status"] for l in res["lemmas"]}
        for ln, obnames in res.get("lemma_uses", {}).items():
            if lemma_status.get(ln) != "discharged" and lemma_status.get(ln.replace("lemma/", "lemma/lean/")) != "discharged":
                for fo in res["functions"]:
                    for o in fo["obligations"]:
                        if o["name"] in obnames and o["status"] == "discharged":
                            o["status"] = "undecided"
                            o["reason"] = "depends on lemma %s which is not discharged" % ln
        for fo in res["functions"]:
            for o in fo["obligations"][:2]:
                if len(res["obligation_samples"]) < 8:
                    res["obligation_samples"].append({"obligation": o["name"], "status": o["status"], "instances": o.get("instances"), "time_s": o.get("time_s")})
        res["assumptions"].extend(getattr(mod, "ASSUMPTIONS", []))
        asm = set()
        for fo in res["functions"]:
            for s in fo.get("assumed", []):
                asm.add(s)
        res["assumptions"].extend(sorted(asm))
    except Exception as e:  # noqa
        res["errors"].append("prover crashed: %s: %s\n%s" % (type(e).__name__, e, traceback.format_exc(limit=10)))
    if a.write_baseline and not a.only and not a.ob and not res["errors"]:
        baseline_all[a.prop] = {fo["name"]: sorted({norm_name(o["name"]) for o in fo["obligations"]}) for fo in res["functions"]}
        with open(bpath, "w") as f:
            json.dump(baseline_all, f, indent=0, sort_keys=True)
    res["wall_s"] = round(time.time() - t0, 2)
    for fo in res["functions"]:
        for o in fo["obligations"]:
            o.pop("smt2", None)
    with open(a.out, "w") as f:
        json.dump(res, f, indent=1, default=str)
    if a.verbose:
        n = sum(len(f["obligations"]) for f in res["functions"])
        d = sum(1 for f in res["functions"] for o in f["obligations"] if o["status"] == "discharged")
        print("obligations %d discharged %d lemmas %d errors %s wall %.1fs" % (n, d, len(res["lemmas"]), res["errors"], res["wall_s"]))
    return 0


if __name__ == "__main__":
    sys.exit(main())
