"""pyvc.engine -- symbolic executor / VC generator over the *real* function ASTs of /repo.

One `Executor` handles one function under contract.  Paths are explored depth-first by re-execution with a
decision prefix (no state copying).  Loops are cut by the sidecar invariants, calls use the callee's contract
(never its body) unless the sidecar explicitly asks for inlining of a helper.

Every proof obligation is recorded as (name, hypotheses, goal) and discharged later (pyvc.smt).
"""
import ast
import os
import itertools
from fractions import Fraction

import z3

from . import values as V
from .values import Seq, SetV, DictV, Obj, ObjSeq, Func, Module, RangeV, OutOfSubset, Opaque, OptV, is_z3


class PathEnd(Exception):
    pass


class ReturnEx(Exception):
    def __init__(self, value):
        self.value = value


class BreakEx(Exception):
    pass


class ContinueEx(Exception):
    pass


class RaiseEx(Exception):
    def __init__(self, exc_name, node):
        self.exc_name = exc_name
        self.node = node


class Obligation:
    def __init__(self, name, hyps, goal, lineno, kind, tags=None, uses=None):
        self.name, self.hyps, self.goal, self.lineno, self.kind = name, hyps, goal, lineno, kind
        self.tags = tags or [""] * len(hyps)
        self.uses = uses


class Cl:
    """contract clause: name, formula, keep (assume after proving), uses (tag prefixes of the hypotheses the proof needs;
    tried first as a small query -- dropping hypotheses is always sound)"""

    def __init__(self, name, expr, keep=False, uses=None, by=None, prop=False):
        self.name, self.expr, self.keep, self.uses = name, expr, keep, uses
        self.prop = prop        # True: the clause is transcribed from the property statement (a refutation is a violation);
        #                         False: auxiliary (frame, helper exactness, loop invariant, safety): a refutation only breaks the proof
        self.by = by or []      # [(lemma name, instance formula)]: instances of separately proved lemmas (LEMMAS of the sidecar)


def clause(item):
    if isinstance(item, Cl):
        return item
    if len(item) > 2:
        return Cl(item[0], item[1], keep=(item[2] == "keep"), uses=item[3] if len(item) > 3 else None)
    return Cl(item[0], item[1])


DROPPED_CALL_PREFIXES = ("print", "logging.", "plt.", "self.log_util.log_", "self.log_util.print_", "log_util.log_", "log_util.print_", "warnings.")


class Sym:
    """Symbol factory handed to the sidecar (`S`)."""

    def __init__(self, ex):
        self.ex = ex
        self.n = itertools.count()

    def _nm(self, name):
        return "%s" % name if name not in self.ex.used_names else "%s!%d" % (name, next(self.n))

    def fresh(self, name):
        nm = "%s!%d" % (name, next(self.n))
        return nm

    def int(self, name):
        nm = self._nm(name); self.ex.used_names.add(nm)
        return z3.Int(nm)

    def real(self, name):
        nm = self._nm(name); self.ex.used_names.add(nm)
        return z3.Real(nm)

    def bool(self, name):
        nm = self._nm(name); self.ex.used_names.add(nm)
        return z3.Bool(nm)

    def const(self, name, sort):
        nm = self._nm(name); self.ex.used_names.add(nm)
        return z3.Const(nm, sort)

    def array(self, name, dom, rng):
        nm = self._nm(name); self.ex.used_names.add(nm)
        return z3.Array(nm, dom, rng)

    def seq(self, name, length, sort=None, kind="list"):
        sort = z3.IntSort() if sort is None else sort
        return Seq(kind, None, length, self.array(name, z3.IntSort(), sort))

    def set(self, name, keysort):
        return SetV(self.array(name, keysort, z3.BoolSort()))

    def dict(self, name, keysort, valsort):
        return DictV(self.array(name + ".dom", keysort, z3.BoolSort()), self.array(name + ".val", keysort, valsort))

    def obj(self, cls, **fields):
        return Obj(cls, fields)

    def assume(self, e, tag="input"):
        self.ex.assume(e, tag)

    def like(self, v, name):
        """fresh value of the same shape as v (used for havoc)."""
        if isinstance(v, bool):
            return self.bool(name)
        if isinstance(v, int):
            return self.int(name)
        if isinstance(v, Fraction):
            return self.real(name)
        if is_z3(v):
            return self.const(name, v.sort())
        if isinstance(v, Seq):
            if v.concrete:
                if all(not isinstance(x, (Seq, Obj, SetV, DictV)) for x in v.items):
                    srt = v.elem_sort()
                    ln = self.int(name + ".len")
                    self.ex.assume(ln >= 0)
                    return Seq(v.kind, None, ln, self.array(name, z3.IntSort(), srt))
                raise OutOfSubset("cannot havoc a list of boxes (%s)" % name)
            ln = self.int(name + ".len")
            self.ex.assume(ln >= 0)
            return Seq(v.kind, None, ln, self.array(name, z3.IntSort(), v.arr.sort().range()))
        if isinstance(v, SetV):
            return SetV(self.array(name, v.arr.sort().domain(), z3.BoolSort()))
        if isinstance(v, ObjSeq):
            ln = self.int(name + ".len")
            self.ex.assume(ln >= 0)
            return ObjSeq(v.cls, ln, {f: ([self.array("%s.%s%d" % (name, f, q), z3.IntSort(), x.sort().range()) for q, x in enumerate(a)] if isinstance(a, (list, tuple))
                                          else self.array("%s.%s" % (name, f), z3.IntSort(), a.sort().range()))
                                      for f, a in v.fields.items()})
        if isinstance(v, DictV):
            return DictV(self.array(name + ".dom", v.dom.sort().domain(), z3.BoolSort()),
                         self.array(name + ".val", v.val.sort().domain(), v.val.sort().range()))
        if isinstance(v, Opaque):
            o = Opaque(self.const(name, v.term.sort()))
            if getattr(v, "shape", None):
                o.shape = v.shape        # a loop may rewrite the entries of an n-d array, not its shape
            return o
        if v is None:
            return None
        raise OutOfSubset("cannot havoc value %r (%s)" % (v, name))


def assigned_names(nodes):
    """names (and self-fields) possibly modified by a block of statements (syntactic)."""
    names, fields, calls = set(), set(), []

    def tgt(t):
        if isinstance(t, ast.Name):
            names.add(t.id)
        elif isinstance(t, (ast.Tuple, ast.List)):
            for e in t.elts:
                tgt(e)
        elif isinstance(t, ast.Subscript):
            base = t.value
            while isinstance(base, ast.Subscript):
                base = base.value
            tgt_base(base)
        elif isinstance(t, ast.Attribute):
            if isinstance(t.value, ast.Name) and t.value.id == "self":
                fields.add(t.attr)
            else:
                tgt_base(t.value)
        elif isinstance(t, ast.Starred):
            tgt(t.value)

    def tgt_base(b):
        if isinstance(b, ast.Name):
            names.add(b.id)
        elif isinstance(b, ast.Attribute) and isinstance(b.value, ast.Name) and b.value.id == "self":
            fields.add(b.attr)

    for n in nodes:
        for sub in ast.walk(n):
            if isinstance(sub, ast.Assign):
                for t in sub.targets:
                    tgt(t)
            elif isinstance(sub, (ast.AugAssign, ast.AnnAssign)):
                tgt(sub.target)
            elif isinstance(sub, ast.For):
                tgt(sub.target)
            elif isinstance(sub, ast.NamedExpr):
                tgt(sub.target)
            elif isinstance(sub, ast.Call):
                f = sub.func
                if isinstance(f, ast.Attribute) and f.attr in ("append", "extend", "add", "remove", "pop", "insert", "sort", "clear", "update", "discard", "fill"):
                    tgt_base(f.value)
                calls.append(sub)
    return names, fields, calls


class Executor:
    def __init__(self, fn_node, contract, book, module_globals=None, cls_name=None):
        self.fn = fn_node
        self.contract = contract
        self.book = book              # registry of all contracts (for modular calls) + source index
        self.cls_name = cls_name
        self.module_globals = module_globals or {}
        self.obligations = []
        self.paths = 0
        self.ended_paths = 0
        self.dropped = set()
        self.assumed = []             # textual list of assumptions introduced by the encoding
        self.max_paths = 4000
        self.loop_nodes = [n for n in ast.walk(fn_node) if isinstance(n, (ast.For, ast.While))]
        self.loop_nodes.sort(key=lambda n: (n.lineno, n.col_offset))
        self.covers = []

    # ------------------------------------------------------------------ exploration
    def explore(self):
        work = [[]]
        while work:
            prefix = work.pop()
            self.paths += 1
            if self.paths > self.max_paths:
                raise OutOfSubset("path explosion (> %d paths)" % self.max_paths)
            self.prefix = prefix
            self.pos = 0
            self.trace = []
            self.pc = []
            self.overapprox = []
            self.pc_tags = []
            self.pending = []
            self.used_names = set()
            self.S = Sym(self)
            self.loop_stack = []
            self.ghost = {}
            try:
                self.run_path()
            except PathEnd:
                self.ended_paths += 1
            work.extend(self.pending)
        return self.obligations

    def run_path(self):
        c = self.contract
        S = self.S
        check_decorators(self.fn)
        env = c.inputs(S)
        self.env = env
        for item in c.pre(S, env):
            cl = clause(item)
            self.assume(cl.expr, "pre#" + cl.name)
        if not self.covers:
            self.covers.append(("pre", list(self.pc)))
        old = V.clone(env)
        self.old = old
        if getattr(c, "relational", False):
            # product program: the body is run once per environment of the tuple `env`; post relates the results
            results = []
            for sub in env:
                try:
                    self.exec_block(self.fn.body, sub)
                    results.append(None)
                except ReturnEx as r:
                    results.append(r.value)
                except RaiseEx:
                    raise PathEnd()
            for item in c.post(S, old, env, results):
                cl = clause(item)
                self.oblige("post#" + cl.name, cl.expr, self.fn, "post", keep=cl.keep, uses=cl.uses, by=cl.by, prop=cl.prop)
            return
        entry = dict(env)        # the caller's view: parameters bound to the ORIGINAL boxes (a rebinding inside the body is invisible)
        self.entry = entry
        # the boxes (mutable sequences) reachable from the parameters' fields at entry, by field name: lets a postcondition say
        # "this array object was rebound, not overwritten"
        self.entry_boxes = {}
        for v_ in env.values():
            if isinstance(v_, Obj):
                for fn_, fv_ in v_.fields.items():
                    if isinstance(fv_, Seq):
                        self.entry_boxes[fn_] = fv_
        result = None
        raised = None
        try:
            self.exec_block(self.fn.body, env)
        except ReturnEx as r:
            result = r.value
        except RaiseEx as r:
            raised = r
        if raised is not None:
            posts = c.post_raise(S, old, entry, raised.exc_name) if hasattr(c, "post_raise") else None
            if posts is None:
                if getattr(c, "total", False) or os.environ.get("PYVC_ALL_TOTAL"):
                    # contract flag `total`: under the precondition the function returns normally (an exceptional exit would make every
                    # postcondition hold vacuously); the obligation is "this raising path is infeasible"
                    self.oblige("returns-normally#%s@L%d" % (raised.exc_name, getattr(raised.node, "lineno", self.fn.lineno) - self.fn.lineno), False, raised.node, "safety", keep=False)
                    return
                self.assumed.append("exceptional exit (%s) establishes nothing: partial correctness" % raised.exc_name)
                raise PathEnd()   # partial correctness: an exceptional exit establishes nothing
            for item in posts:
                cl = clause(item)
                self.oblige("post_raise#" + cl.name, cl.expr, raised.node, "post", keep=cl.keep, uses=cl.uses, prop=cl.prop)
            return
        for item in c.post(S, old, entry, result):
            cl = clause(item)
            self.oblige("post#" + cl.name, cl.expr, self.fn, "post", keep=cl.keep, uses=cl.uses, by=cl.by, prop=cl.prop)

    # ------------------------------------------------------------------ path condition
    def assume(self, e, tag="path"):
        if isinstance(e, bool):
            if not e:
                raise PathEnd()
            return
        self.pc.append(e)
        self.pc_tags.append(tag)

    def qf_pc(self):
        return [p for p in self.pc if not _has_quant(p)]

    def feasible(self, cond):
        s = z3.Solver()
        s.set("timeout", 3000)
        for p in self.qf_pc():
            s.add(p)
        s.add(cond)
        return s.check() != z3.unsat

    def decide(self, cond):
        """branch on a (possibly symbolic) boolean; returns a python bool for this path."""
        if isinstance(cond, bool):
            return cond
        cond = z3.simplify(cond)
        if z3.is_true(cond):
            return True
        if z3.is_false(cond):
            return False
        if self.pos < len(self.prefix):
            d = self.prefix[self.pos]
        else:
            ct = self.feasible(cond)
            cf = self.feasible(z3.Not(cond))
            if ct and cf:
                d = True
                self.pending.append(self.trace + [False])
            elif ct:
                d = True
            elif cf:
                d = False
            else:
                raise PathEnd()
        self.pos += 1
        self.trace.append(d)
        self.pc.append(cond if d else z3.Not(cond))
        self.pc_tags.append("path")
        return d

    def choice(self, n, tag):
        """non-deterministic choice among n alternatives (loop cutting); implemented by binary decisions."""
        for k in range(n - 1):
            b = z3.Bool("choice!%s!%d!%d" % (tag, len(self.trace), k))
            if self.decide(b):
                return k
        return n - 1

    def oblige(self, name, goal, node, kind, keep=True, uses=None, by=None, prop=False):
        if isinstance(goal, bool):
            goal = z3.BoolVal(goal)
        full = "%s/%s" % (getattr(self.contract, "label", None) or self.contract.qualname, name)
        sel = [i for i, h in enumerate(self.pc) if not _trivial(h)]
        ob = Obligation(full, [self.pc[i] for i in sel] + [f for _, f in (by or [])], goal, getattr(node, "lineno", 0), kind,
                        tags=[self.pc_tags[i] for i in sel] + ["input" for _ in (by or [])], uses=uses)
        ob.lemmas = [n for n, _ in (by or [])]
        ob.prop = prop
        ob.overapprox = list(getattr(self, "overapprox", []))
        self.obligations.append(ob)
        if keep:
            self.pc.append(goal)
            self.pc_tags.append(name)

    def safety(self, what, goal, node):
        if isinstance(goal, bool) and goal:
            return
        if what in getattr(self.contract, "assumed_safety", ()):
            # the sidecar declares this class of run-time conditions an explicit assumption of the contract (listed in the evidence), e.g. a
            # normalising sum that is not zero: the condition is assumed from here on instead of being proved
            self.assumed.append("safety condition `%s` at L%d ASSUMED by the contract (%s)" % (what, node.lineno, getattr(self.contract, "assumed_safety_note", "")))
            self.assume(goal if not isinstance(goal, bool) else z3.BoolVal(goal), "assumed-safety/" + what)
            return
        if is_z3(goal):
            g = z3.simplify(goal)
            if z3.is_true(g):
                return
        self.oblige("safety/%s@%sL%d" % (what, getattr(self, "inl", ""), node.lineno - self.fn.lineno), goal, node, "safety")

    # ------------------------------------------------------------------ statements
    def exec_block(self, stmts, env):
        for st in stmts:
            self.exec_stmt(st, env)

    # ---- slicing: statements that only feed names the contract declares irrelevant (`slice_out`) are not executed -------------------------
    def sliced(self, st):
        names = getattr(self.contract, "slice_out", ())
        if not names:
            return False

        def base_name(e):
            while isinstance(e, (ast.Subscript, ast.Attribute)):
                e = e.value
            return e.id if isinstance(e, ast.Name) else None

        if isinstance(st, (ast.Assign, ast.AugAssign, ast.AnnAssign)):
            targets = st.targets if isinstance(st, ast.Assign) else [st.target]
            return all(base_name(t) in names for t in targets)
        if isinstance(st, ast.Expr) and isinstance(st.value, ast.Call) and isinstance(st.value.func, ast.Attribute):
            recv = base_name(st.value.func.value)
            if recv in names:
                return True
            # a read-only probe whose arguments come from a sliced name, e.g. points.index(c.left_parent) with c drawn from a sliced list
            if st.value.func.attr in ("index", "count") and any(base_name(a) in self._slice_bound for a in st.value.args):
                return True
            return False
        if isinstance(st, ast.If):
            return all(self.sliced(x) for x in st.body + st.orelse) and bool(st.body)
        if isinstance(st, ast.For):
            it_base = base_name(st.iter)
            if it_base in names and isinstance(st.target, ast.Name):
                self._slice_bound.add(st.target.id)
            ok = all(self.sliced(x) for x in st.body) and bool(st.body)
            return ok
        return False

    def exec_stmt(self, st, env):
        if getattr(self.contract, "slice_out", None):
            if not hasattr(self, "_slice_bound"):
                self._slice_bound = set()
            if self.sliced(st):
                self.dropped.add("sliced away at L%d (only feeds %s; its conditions are assumed free of side effects, a raise inside it is not modelled): %s"
                                 % (st.lineno, "/".join(self.contract.slice_out), ast.unparse(st).splitlines()[0][:90]))
                return None
        m = getattr(self, "s_" + type(st).__name__, None)
        if m is None:
            raise OutOfSubset("statement %s" % type(st).__name__, st)
        return m(st, env)

    def s_Expr(self, st, env):
        v = st.value
        if isinstance(v, ast.Constant):
            self.dropped.add("docstring/constant expression")
            return
        if isinstance(v, ast.Call):
            txt = ast.unparse(v.func)
            if txt == "print" or any(txt.startswith(p) for p in DROPPED_CALL_PREFIXES):
                self.dropped.add("call to %s (assumed effect-free)" % txt.split("(")[0])
                # the call itself is dropped, but its arguments are still evaluated by Python: a name that is unbound here raises before the call
                bound = set()
                arg_nodes = [n for a_ in list(v.args) + [k.value for k in v.keywords] for n in ast.walk(a_)]
                for sub in arg_nodes:
                    if isinstance(sub, ast.Lambda):
                        bound |= {a.arg for a in sub.args.args}
                    if isinstance(sub, ast.comprehension):
                        bound |= {n.id for n in ast.walk(sub.target) if isinstance(n, ast.Name)}
                for sub in arg_nodes:
                    if isinstance(sub, ast.Name) and isinstance(sub.ctx, ast.Load) and sub.id not in bound and sub.id != "self":
                        try:
                            self.e_Name(sub, env)
                        except OutOfSubset:
                            pass        # a global / builtin the prelude does not know: not a local of this function
                return
        self.eval(v, env)

    def s_Pass(self, st, env):
        return

    def s_Delete(self, st, env):
        self.dropped.add("del statement")

    def s_Global(self, st, env):
        return

    def s_Assign(self, st, env):
        val = self.eval(st.value, env)
        lt = getattr(self.contract, "local_types", None)
        if lt and len(st.targets) == 1 and isinstance(st.targets[0], ast.Name) and st.targets[0].id in lt \
                and ((isinstance(val, Seq) and val.concrete and not val.items) or (isinstance(val, dict) and not val)):
            val = lt[st.targets[0].id](self.S)     # sidecar-declared representation of an initially empty container
        for t in st.targets:
            self.assign(t, val, env)

    def s_AnnAssign(self, st, env):
        if st.value is not None:
            self.assign(st.target, self.eval(st.value, env), env)

    def s_AugAssign(self, st, env):
        cur = self.eval(_load(st.target), env)
        rhs = self.eval(st.value, env)
        if isinstance(cur, Seq) and isinstance(st.op, ast.Add) and cur.kind == "list":
            self.seq_extend(cur, rhs, st)
            return
        val = self.binop(st.op, cur, rhs, st)
        if isinstance(st.target, ast.Subscript) and isinstance(self.eval(st.target.slice, env) if not isinstance(st.target.slice, ast.Slice) else None, V.DiagIndex):
            self.assign(st.target, val, env)
            return
        if isinstance(cur, Seq) and cur.kind == "array" and isinstance(val, Seq):
            # numpy: `a op= b` works IN PLACE: the array object (and every alias / view holder of it) sees the new contents
            cur.items, cur.length, cur.arr = (list(val.items) if val.items is not None else None), val.length, val.arr
            return
        self.assign(st.target, val, env)

    def s_Return(self, st, env):
        raise ReturnEx(self.eval(st.value, env) if st.value is not None else None)

    def s_Break(self, st, env):
        raise BreakEx()

    def s_Continue(self, st, env):
        raise ContinueEx()

    def s_Raise(self, st, env):
        name = "Exception"
        if st.exc is not None:
            f = st.exc.func if isinstance(st.exc, ast.Call) else st.exc
            name = ast.unparse(f)
        elif getattr(self, "_handled", None):
            raise self._handled[-1]          # bare `raise` inside a handler: the exception being handled
        raise RaiseEx(name, st)

    # try / except / else / finally with python's semantics at statement granularity: an exceptional exit (assert, raise, a callee whose contract exits
    # exceptionally) leaves the state as it is at that point; handlers are matched by class name with a small table of builtin exception classes -- anything the
    # table cannot decide is out of subset, never guessed
    _EXC_PARENTS = {"ZeroDivisionError": "ArithmeticError", "OverflowError": "ArithmeticError", "FloatingPointError": "ArithmeticError", "IndexError": "LookupError",
                    "KeyError": "LookupError", "ArithmeticError": "Exception", "LookupError": "Exception", "AssertionError": "Exception", "ValueError": "Exception",
                    "TypeError": "Exception", "AttributeError": "Exception", "RuntimeError": "Exception", "NotImplementedError": "RuntimeError", "NameError": "Exception",
                    "UnboundLocalError": "NameError", "StopIteration": "Exception", "MemoryError": "Exception", "OSError": "Exception", "Exception": "BaseException"}

    def _handler_matches(self, handler, exc_name, node):
        if handler.type is None:
            return True
        elts = handler.type.elts if isinstance(handler.type, ast.Tuple) else [handler.type]
        names = []
        for e_ in elts:
            if isinstance(e_, ast.Name):
                names.append(e_.id)
            elif isinstance(e_, ast.Attribute):
                names.append(e_.attr)
            else:
                raise OutOfSubset("except clause with a computed class", node)
        tail = exc_name.split(".")[-1]
        if tail in names:
            return True
        if "BaseException" in names:
            return True
        if tail not in self._EXC_PARENTS:
            # an exception class the table does not know (user class, abstract callee fault): `except Exception` catches every ordinary exception class
            if "Exception" in names:
                return True
            raise OutOfSubset("cannot decide whether `except %s` catches %s" % ("/".join(names), exc_name), node)
        cur = tail
        while cur in self._EXC_PARENTS:
            cur = self._EXC_PARENTS[cur]
            if cur in names:
                return True
        if all(n_ in self._EXC_PARENTS or n_ in ("Exception", "BaseException") for n_ in names):
            return False
        raise OutOfSubset("cannot decide whether `except %s` catches %s" % ("/".join(names), exc_name), node)

    def s_Try(self, st, env):
        if any(isinstance(n_, (ast.Return, ast.Break, ast.Continue)) for f_ in st.finalbody for n_ in ast.walk(f_)):
            raise OutOfSubset("return / break / continue inside a finally block", st)

        def final():
            if st.finalbody:
                self.exec_block(st.finalbody, env)
        try:
            self.exec_block(st.body, env)
        except RaiseEx as r:
            handler = None
            for h in st.handlers:
                if self._handler_matches(h, r.exc_name, st):
                    handler = h
                    break
            if handler is None:
                final()
                raise
            if handler.name:
                from . import prelude
                env[handler.name] = Opaque(self.S.const("exc!%d" % len(self.trace), prelude.U))
            self._handled = getattr(self, "_handled", []) + [r]
            try:
                self.exec_block(handler.body, env)
            except (RaiseEx, ReturnEx, BreakEx, ContinueEx):
                self._handled = self._handled[:-1]
                final()
                raise
            self._handled = self._handled[:-1]
            final()
            return
        except (ReturnEx, BreakEx, ContinueEx):
            final()
            raise
        if st.orelse:
            try:
                self.exec_block(st.orelse, env)
            except (RaiseEx, ReturnEx, BreakEx, ContinueEx):
                final()
                raise
        final()

    def s_Assert(self, st, env):
        c = self.truth(self.eval(st.test, env))
        if getattr(self.contract, "must_hold_asserts", False):
            self.oblige("assert@%sL%d" % (getattr(self, "inl", ""), st.lineno - self.fn.lineno), c, st, "assert")
        else:
            if getattr(self.contract, "total", False):
                self.assumed.append("assert at L%d: both branches explored, the failing one is the obligation returns-normally#AssertionError" % st.lineno)
            else:
                self.assumed.append("assert at L%d assumed (partial correctness: a failing assert raises)" % st.lineno)
            if not self.decide(c):
                raise RaiseEx("AssertionError", st)

    def s_If(self, st, env):
        c = self.truth(self.eval(st.test, env))
        if self.decide(c):
            self.exec_block(st.body, env)
        else:
            self.exec_block(st.orelse, env)

    def s_FunctionDef(self, st, env):
        env[st.name] = Func("def", st, env)

    # ---- loops
    def loop_spec(self, node):
        if node not in self.loop_nodes:
            return -1, None          # loop of an inlined helper: only concrete iteration (unrolling) is possible
        ordinal = self.loop_nodes.index(node)
        spec = self.contract.loops.get(ordinal)
        return ordinal, spec

    def s_For(self, st, env):
        if st.orelse:
            raise OutOfSubset("for-else", st)
        ordinal, spec = self.loop_spec(st)
        if isinstance(st.iter, ast.Call) and isinstance(st.iter.func, ast.Name) and st.iter.func.id == "enumerate" and len(st.iter.args) == 1 \
                and "enumerate" not in env and spec is not None:
            inner = self.eval(st.iter.args[0], env)
            if isinstance(inner, ObjSeq) or (isinstance(inner, Seq) and not inner.concrete):
                return self.cut_loop(st, env, inner, ordinal, spec, enumerated=True)
        it = self.eval(st.iter, env)
        # concrete iteration: unroll
        if isinstance(it, Seq) and it.concrete and spec is None:
            items = list(it.items)
        elif isinstance(it, RangeV) and all(isinstance(x, int) for x in (it.lo, it.hi, it.step)) and spec is None:
            items = list(range(it.lo, it.hi, it.step))
        elif isinstance(it, list) and spec is None:
            items = it
        else:
            items = None
        if items is not None:
            if len(items) > 64:
                raise OutOfSubset("unrolling %d iterations" % len(items), st)
            for x in items:
                self.assign(st.target, x, env)
                try:
                    self.exec_block(st.body, env)
                except BreakEx:
                    break
                except ContinueEx:
                    continue
            return
        if spec is None:
            raise OutOfSubset("loop#%d without invariant in the sidecar" % ordinal, st)
        self.cut_loop(st, env, it, ordinal, spec)

    def s_While(self, st, env):
        if st.orelse:
            raise OutOfSubset("while-else", st)
        ordinal, spec = self.loop_spec(st)
        if spec is None:
            raise OutOfSubset("loop#%d without invariant in the sidecar" % ordinal, st)
        self.cut_loop(st, env, None, ordinal, spec)

    def cut_loop(self, st, env, it, ordinal, spec, enumerated=False):
        S = self.S
        tag = "loop%d" % ordinal
        names, fields, calls = assigned_names(st.body)
        extra_fields = set()
        for cnode in calls:
            cc = self.callee_contract_static(cnode)
            if cc is not None:
                extra_fields |= set(getattr(cc, "modifies", ()))
        fields |= extra_fields
        if isinstance(st, ast.For):
            tnames, _, _ = assigned_names([ast.Assign(targets=[st.target], value=ast.Constant(0))])
            names -= tnames
        ghost = {}
        # ---- iteration domain
        if it is None:
            mode = "while"
        elif isinstance(it, RangeV):
            if it.step != 1:
                raise OutOfSubset("range with step in invariant loop", st)
            mode = "range"
            lo, hi = it.lo, it.hi
        elif isinstance(it, Seq):
            mode = "seq"
            itseq = it if not it.concrete else it.to_symbolic()
            lo, hi = 0, itseq.len()
        elif isinstance(it, ObjSeq):
            mode = "seq"
            itseq = it
            lo, hi = 0, it.len()
        elif isinstance(it, SetV):
            mode = "set"
        elif isinstance(it, V.DictItems):
            mode = "set"
            ditems = it
            it = SetV(ditems.d.dom)
        else:
            raise OutOfSubset("iteration over %r" % (it,), st)

        def inv_at(k):
            g = dict(ghost)
            if mode in ("range", "seq"):
                g["k"] = k
            return spec.inv(S, env, g)

        # ---- 1. invariant holds on entry
        if mode in ("range", "seq"):
            ghost["k"] = lo
        if mode == "set":
            ghost["processed"] = SetV(z3.K(it.arr.sort().domain(), z3.BoolVal(False)))
            ghost["domain"] = it
        for item in spec.inv(S, env, ghost):
            cl = clause(item)
            self.oblige("%s/entry#%s" % (tag, cl.name), cl.expr, st, "loop-entry", keep=False, by=cl.by)
        # ---- 2. cut: arbitrary iteration  |  exit
        which = self.choice(2, tag)
        self.havoc(env, names, fields, tag)
        view_name = None
        if mode == "seq" and isinstance(itseq, ObjSeq):
            if isinstance(st.target, ast.Name):
                view_name = st.target.id
            elif enumerated and isinstance(st.target, ast.Tuple) and len(st.target.elts) == 2 and isinstance(st.target.elts[1], ast.Name):
                view_name = st.target.elts[1].id
        if view_name is not None:
            # stores through the loop variable (a view of the list element) modify the iterated list: havoc the written fields in place
            written = set(getattr(spec, "element_fields_written", ()))
            for n_ in st.body:
                for sub in ast.walk(n_):
                    tg = []
                    if isinstance(sub, ast.Assign):
                        tg = sub.targets
                    elif isinstance(sub, ast.AugAssign):
                        tg = [sub.target]
                    for t_ in tg:
                        if isinstance(t_, ast.Attribute) and isinstance(t_.value, ast.Name) and t_.value.id == view_name:
                            written.add(t_.attr)
            for f_ in sorted(written):
                if f_ in itseq.fields and not isinstance(itseq.fields[f_], (list, tuple)):
                    a_ = itseq.fields[f_]
                    itseq.fields[f_] = S.array("%s.%s" % (tag, f_), z3.IntSort(), a_.sort().range())
        if which == 0:
            # arbitrary iteration
            if mode in ("range", "seq"):
                k = S.int(tag + ".k")
                self.assume(z3.And(V.to_z3(lo) <= k, k < V.to_z3(hi)))
                ghost["k"] = k
                for item in spec.inv(S, env, ghost):
                    cl = clause(item)
                    self.assume(cl.expr, "%s/inv#%s" % (tag, cl.name))
                if mode == "range":
                    self.assign(st.target, k, env)
                else:
                    elem = _view(itseq, k) if isinstance(itseq, ObjSeq) else self.seq_get(itseq, k, st)
                    self.assign(st.target, Seq("tuple", [k, elem]) if enumerated else elem, env)
            elif mode == "set":
                P = S.set(tag + ".processed", it.arr.sort().domain())
                x = S.const(tag + ".x", it.arr.sort().domain())
                ghost["processed"] = P
                for item in spec.inv(S, env, ghost):
                    cl = clause(item)
                    self.assume(cl.expr, "%s/inv#%s" % (tag, cl.name))
                key = z3.Const("sub!" + tag, it.arr.sort().domain())
                self.assume(z3.ForAll([key], z3.Implies(z3.Select(P.arr, key), z3.Select(it.arr, key))))
                self.assume(z3.And(z3.Select(it.arr, x), z3.Not(z3.Select(P.arr, x))))
                if "ditems" in locals():
                    self.assign(st.target, Seq("tuple", [self.key_to_value(x, spec), z3.Select(ditems.d.val, x)]), env)
                else:
                    self.assign(st.target, self.key_to_value(x, spec), env)
            else:
                for item in spec.inv(S, env, ghost):
                    cl = clause(item)
                    self.assume(cl.expr, "%s/inv#%s" % (tag, cl.name))
                c = self.truth(self.eval(st.test, env))
                if not self.decide(c):
                    raise PathEnd()
            variant0 = spec.variant(S, env, ghost) if spec.variant else None
            # snapshot of the local sequences at the start of the arbitrary iteration: lets a preserved clause cite lemma instances over the
            # pre-iteration arrays (ghost only; not visible to the program)
            ghost["start"] = {kk: V.clone(vv) for kk, vv in env.items() if isinstance(vv, Seq)}
            broke = False
            try:
                self.exec_block(st.body, env)
            except ContinueEx:
                pass
            except BreakEx:
                broke = True
            if broke:
                return          # continue after the loop with the state at the break
            if mode in ("range", "seq"):
                ghost["k"] = k + 1
            elif mode == "set":
                ghost["processed"] = SetV(z3.Store(P.arr, x, z3.BoolVal(True)))
            for item in spec.inv(S, env, ghost):
                cl = clause(item)
                self.oblige("%s/preserve#%s" % (tag, cl.name), cl.expr, st, "loop-preserve", keep=True, uses=cl.uses, by=cl.by)
            if variant0 is not None:
                v1 = spec.variant(S, env, ghost)
                self.oblige("%s/variant-decreases" % tag, z3.And(v1 < variant0, variant0 >= 0) if not isinstance(variant0, tuple) else _lex(variant0, v1), st, "termination")
            raise PathEnd()
        # ---- exit
        if mode in ("range", "seq"):
            lo_z, hi_z = V.to_z3(lo), V.to_z3(hi)
            if isinstance(lo, int) and isinstance(hi, int):
                ghost["k"] = max(lo, hi)
            else:
                ghost["k"] = hi if self.decide(hi_z >= lo_z) else lo
            for item in spec.inv(S, env, ghost):
                cl = clause(item)
                self.assume(cl.expr, "%s/inv#%s" % (tag, cl.name))
            # python leaves the loop variable at its last value; not modelled (reading it is out of subset)
        elif mode == "set":
            ghost["processed"] = it
            for item in spec.inv(S, env, ghost):
                cl = clause(item)
                self.assume(cl.expr, "%s/inv#%s" % (tag, cl.name))
        else:
            for item in spec.inv(S, env, ghost):
                cl = clause(item)
                self.assume(cl.expr, "%s/inv#%s" % (tag, cl.name))
            if isinstance(st.test, ast.Constant) and st.test.value is True:
                raise PathEnd()      # `while True` is only left through break/return
            c = self.truth(self.eval(st.test, env))
            if self.decide(c):
                raise PathEnd()

    def key_to_value(self, x, spec):
        conv = getattr(spec, "key_to_value", None)
        return conv(self.S, x) if conv else x

    def havoc(self, env, names, fields, tag):
        S = self.S
        for n in sorted(names):
            if n in env:
                env[n] = S.like(env[n], "%s.%s" % (tag, n))
        slf = env.get("self")
        if isinstance(slf, Obj):
            for f in sorted(fields):
                if f in slf.fields:
                    slf.fields[f] = S.like(slf.fields[f], "%s.self.%s" % (tag, f))

    # ------------------------------------------------------------------ assignment
    def assign(self, t, val, env):
        if isinstance(t, ast.Name):
            env[t.id] = val
        elif isinstance(t, (ast.Tuple, ast.List)):
            if isinstance(val, Seq) and val.concrete:
                items = val.items
            elif isinstance(val, (tuple, list)):
                items = list(val)
            else:
                raise OutOfSubset("unpacking of a non-concrete sequence", t)
            if len(items) != len(t.elts):
                raise OutOfSubset("unpacking length mismatch", t)
            for e, x in zip(t.elts, items):
                self.assign(e, x, env)
        elif isinstance(t, ast.Attribute):
            o = self.eval(t.value, env)
            if not isinstance(o, Obj):
                raise OutOfSubset("attribute store on %r" % (o,), t)
            o.fields[t.attr] = val
            if hasattr(o, "origin"):
                oseq, oi = o.origin
                if t.attr in getattr(self.contract, "ignored_element_fields", ()):
                    self.dropped.add("store to the element field %s (not modelled: the contract never reads it)" % t.attr)
                    return
                if t.attr not in oseq.fields or isinstance(oseq.fields[t.attr], (list, tuple)):
                    raise OutOfSubset("store to undeclared or list-valued field %s of a list element" % t.attr, t)
                rs = oseq.fields[t.attr].sort().range()
                oseq.fields[t.attr] = z3.Store(oseq.fields[t.attr], oi, V.to_z3(V.bool_to_int(val), rs == z3.RealSort()))
        elif isinstance(t, ast.Subscript):
            base = self.eval(t.value, env)
            if isinstance(base, Seq):
                idx = self.eval(t.slice, env)
                if isinstance(idx, V.DiagIndex) and base.concrete and all(isinstance(r_, Seq) and r_.concrete for r_ in base.items):
                    # M[np.diag_indices_from(M)] = values: the diagonal entries are replaced
                    vals = val.items if isinstance(val, Seq) and val.concrete else [val] * len(base.items)
                    if len(vals) != len(base.items):
                        raise OutOfSubset("diagonal store of another length", t)
                    for k_, v_ in enumerate(vals):
                        base.items[k_].items[k_] = v_
                elif isinstance(idx, Seq) and idx.concrete and len(idx.items) == 2 and base.concrete and all(isinstance(r_, Seq) for r_ in base.items):
                    self.seq_set(self.seq_get(base, idx.items[0], t), idx.items[1], val, t)      # M[i, j] = v on a small 2-D array (list of rows)
                else:
                    self.seq_set(base, idx, val, t)
            elif isinstance(base, DictV):
                key = self.as_key(self.eval(t.slice, env), base.dom.sort().domain())
                base.dom = z3.Store(base.dom, key, z3.BoolVal(True))
                base.val = z3.Store(base.val, key, self.to_term(val, base.val.sort().range()))
            elif isinstance(base, Opaque) and (hasattr(base, "root") or getattr(base, "shape", None)):
                # store into an opaque n-d array: its content is not modelled, so the whole array becomes a fresh unknown (every later read sees it)
                self.eval(t.slice, env)
                root = getattr(base, "root", base)
                from . import prelude
                root.term = self.S.const("ndarray.store", prelude.U)
                self.dropped.add("store into a multi-dimensional numpy array (content opaque, array havoced)")
                self.overapprox.append("n-d array at L%d is an unknown value after the store" % t.lineno)
            else:
                raise OutOfSubset("subscript store on %r" % (base,), t)
        else:
            raise OutOfSubset("assignment target %s" % type(t).__name__, t)

    # ------------------------------------------------------------------ sequences
    def norm_index(self, seq, idx, node, allow_end=False):
        n = seq.len()
        if isinstance(idx, int) and isinstance(n, int):
            if idx < 0:
                idx += n
            ok = (0 <= idx <= n) if allow_end else (0 <= idx < n)
            if not ok:
                self.safety("index", False, node)
            return idx
        if isinstance(idx, int) and idx < 0:
            idx = V.to_z3(n) + idx
        iz, nz = V.to_z3(idx), V.to_z3(n)
        self.safety("index", z3.And(iz >= 0, iz <= nz if allow_end else iz < nz), node)
        return idx

    def seq_get(self, seq, idx, node):
        if isinstance(idx, bool):
            idx = int(idx)
        if not V.is_int(idx):
            raise OutOfSubset("non-integer index %r" % (idx,), node)
        idx = self.norm_index(seq, idx, node)
        if seq.concrete:
            if isinstance(idx, int):
                return seq.items[idx]
            # symbolic index into a concrete list of scalars: if-chain
            if any(isinstance(x, (Seq, Obj, SetV, DictV)) for x in seq.items):
                k = 0
                for k in range(len(seq.items) - 1):
                    if self.decide(idx == k):
                        return seq.items[k]
                return seq.items[len(seq.items) - 1]
            real = any(V.is_real(x) for x in seq.items)
            res = V.to_z3(V.bool_to_int(seq.items[-1]), real)
            for k in range(len(seq.items) - 2, -1, -1):
                res = z3.If(idx == k, V.to_z3(V.bool_to_int(seq.items[k]), real), res)
            return res
        return z3.Select(seq.arr, V.to_z3(idx))

    def seq_set(self, seq, idx, val, node):
        if seq.kind == "tuple":
            raise OutOfSubset("item assignment on tuple", node)
        if isinstance(idx, bool):
            idx = int(idx)
        idx = self.norm_index(seq, idx, node)
        if seq.concrete:
            if isinstance(idx, int):
                seq.items[idx] = val
                return
            s = seq.to_symbolic()
            seq.items, seq.length, seq.arr = None, s.length, s.arr
        rs = seq.arr.sort().range()
        seq.arr = z3.Store(seq.arr, V.to_z3(idx), V.to_z3(V.bool_to_int(val), rs == z3.RealSort()))

    def seq_append(self, seq, val, node):
        if seq.concrete:
            seq.items.append(val)
            return
        rs = seq.arr.sort().range()
        seq.arr = z3.Store(seq.arr, V.to_z3(seq.length), V.to_z3(V.bool_to_int(val), rs == z3.RealSort()))
        seq.length = seq.length + 1

    def seq_extend(self, seq, other, node):
        if isinstance(other, Seq) and other.concrete:
            for x in other.items:
                self.seq_append(seq, x, node)
            return
        if isinstance(other, Seq):
            # extend by a sequence of symbolic length: in place (every holder of the list sees it), contents = old ++ other
            if seq.concrete and not seq.items:
                so = other.to_symbolic()
                seq.items, seq.length, seq.arr = None, so.len(), so.arr
                return
            cat = self.seq_concat(seq, other, node)
            seq.items, seq.length, seq.arr = None, cat.length, cat.arr
            return
        raise OutOfSubset("extend with symbolic sequence", node)

    def seq_concat(self, a, b, node):
        sa, sb = a.to_symbolic(), b.to_symbolic()
        if sa.arr.sort() != sb.arr.sort():
            if sa.arr.sort().range() == z3.IntSort() and a.concrete:
                sa = Seq(a.kind, [V.to_z3(V.bool_to_int(x), True) for x in a.items]).to_symbolic()
            elif sb.arr.sort().range() == z3.IntSort() and b.concrete:
                sb = Seq(b.kind, [V.to_z3(V.bool_to_int(x), True) for x in b.items]).to_symbolic()
            else:
                raise OutOfSubset("concatenation of sequences of different element sorts", node)
        la, lb = V.to_z3(sa.len()), V.to_z3(sb.len())
        arr = self.S.array("concat", z3.IntSort(), sa.arr.sort().range())
        i = z3.Int("cci")
        self.assume(z3.ForAll([i], z3.Implies(z3.And(i >= 0, i < la), z3.Select(arr, i) == z3.Select(sa.arr, i)), patterns=[z3.Select(arr, i)]), "def:concat")
        self.assume(z3.ForAll([i], z3.Implies(z3.And(i >= la, i < la + lb), z3.Select(arr, i) == z3.Select(sb.arr, i - la)), patterns=[z3.Select(arr, i)]), "def:concat")
        n = sa.len() + sb.len() if isinstance(sa.len(), int) and isinstance(sb.len(), int) else z3.simplify(la + lb)
        return Seq(a.kind, None, n, arr)

    def seq_eq(self, a, b):
        if a.concrete and b.concrete:
            if len(a.items) != len(b.items):
                return False
            return self.and_([self.compare(ast.Eq(), x, y, None) for x, y in zip(a.items, b.items)])
        a2, b2 = a.to_symbolic(), b.to_symbolic()
        i = z3.Int("eqi")
        n = V.to_z3(a2.len())
        return z3.And(n == V.to_z3(b2.len()),
                      z3.ForAll([i], z3.Implies(z3.And(i >= 0, i < n), z3.Select(a2.arr, i) == z3.Select(b2.arr, i))))

    def to_term(self, v, sort):
        if isinstance(v, OptV):
            self.safety("not-none", z3.Not(v.isnone), ast.Pass(lineno=self.fn.lineno))
            v = v.val
        if isinstance(v, Opaque):
            return v.term
        return V.to_z3(v, sort == z3.RealSort())

    def as_key(self, v, keysort):
        """python value used as set/dict key -> z3 term of the key sort."""
        if is_z3(v):
            return v
        if isinstance(v, Opaque):
            return v.term
        if isinstance(v, Seq):
            if isinstance(keysort, z3.ArraySortRef):
                return v.to_symbolic().arr
        if isinstance(v, (int, Fraction, bool)):
            return V.to_z3(v, keysort == z3.RealSort())
        raise OutOfSubset("key %r" % (v,))

    # ------------------------------------------------------------------ expressions
    def eval(self, e, env):
        m = getattr(self, "e_" + type(e).__name__, None)
        if m is None:
            raise OutOfSubset("expression %s" % type(e).__name__, e)
        return m(e, env)

    def e_Constant(self, e, env):
        v = e.value
        if isinstance(v, float):
            return V.num_const(v)
        if isinstance(v, (int, bool, str)) or v is None:
            return v
        raise OutOfSubset("constant %r" % (v,), e)

    def e_Name(self, e, env):
        if e.id in env:
            return env[e.id]
        if e.id in getattr(self.contract, "slice_out", ()):
            from . import prelude
            self.overapprox.append("sliced-away name %s read as an unknown value" % e.id)
            return Opaque(self.S.const("sliced." + e.id, prelude.U))      # a sliced-away name: an unknown python value
        if e.id in self.module_globals:
            return self.module_globals[e.id]
        from . import prelude
        v = prelude.global_name(e.id, self)
        if v is not None:
            return v
        # definedness: a local that is assigned somewhere in the function but not on this path
        local_names, _, _ = assigned_names(self.fn.body)
        if e.id in local_names:
            self.oblige("safety/defined(%s)@L%d" % (e.id, e.lineno - self.fn.lineno), False, e, "safety")
            raise PathEnd()
        raise OutOfSubset("unknown name %s" % e.id, e)

    def e_Tuple(self, e, env):
        return Seq("tuple", [self.eval(x, env) for x in e.elts])

    def e_List(self, e, env):
        return Seq("list", [self.eval(x, env) for x in e.elts])

    def e_UnaryOp(self, e, env):
        v = self.eval(e.operand, env)
        if isinstance(e.op, ast.Not):
            t = self.truth(v)
            return (not t) if isinstance(t, bool) else z3.Not(t)
        if isinstance(e.op, ast.USub):
            if isinstance(v, V.Inf):
                return V.Inf(-v.sign)
            v = V.bool_to_int(v)
            return -v
        if isinstance(e.op, ast.UAdd):
            return v
        raise OutOfSubset("unary op", e)

    def e_BinOp(self, e, env):
        return self.binop(e.op, self.eval(e.left, env), self.eval(e.right, env), e)

    def binop(self, op, a, b, node):
        if isinstance(a, str) and isinstance(op, ast.Mod):
            self.dropped.add("%-formatting of a string (the text is not modelled)")
            return "<formatted text>"
        if isinstance(a, Seq) and isinstance(b, Seq) and isinstance(op, ast.Add):
            if a.kind == "array" or b.kind == "array":
                return self.elementwise(op, a, b, node)
            if a.concrete and b.concrete:
                return Seq(a.kind, a.items + b.items)
            return self.seq_concat(a, b, node)
        if isinstance(a, SetV) and isinstance(b, SetV) and isinstance(op, (ast.BitOr, ast.BitAnd, ast.Sub)):
            k = z3.Const("setk", a.arr.sort().domain())
            x, y = z3.Select(a.arr, k), z3.Select(b.arr, k)
            body = z3.Or(x, y) if isinstance(op, ast.BitOr) else (z3.And(x, y) if isinstance(op, ast.BitAnd) else z3.And(x, z3.Not(y)))
            return SetV(z3.Lambda([k], body))
        if isinstance(a, Seq) and a.kind == "list" and isinstance(op, ast.Mult) and isinstance(b, int) and a.concrete:
            return Seq("list", a.items * b)
        if (isinstance(a, Seq) and a.kind == "array") or (isinstance(b, Seq) and b.kind == "array"):
            return self.elementwise(op, a, b, node)
        if isinstance(a, Opaque) or isinstance(b, Opaque):
            from . import prelude
            return prelude.opaque_binop(self, op, a, b, node)
        if isinstance(b, V.Inf) and isinstance(op, ast.Div) and V.is_num(a) and not isinstance(a, V.Inf):
            return 0            # finite / infinity
        if isinstance(a, V.Inf) or isinstance(b, V.Inf):
            raise OutOfSubset("arithmetic on infinity", node)
        if not (V.is_num(a) and V.is_num(b)):
            raise OutOfSubset("binary op on %r, %r" % (a, b), node)
        a, b = V.bool_to_int(a), V.bool_to_int(b)
        conc = not is_z3(a) and not is_z3(b)
        if isinstance(op, ast.Add):
            return a + b if conc else _arith(a, b, lambda x, y: x + y)
        if isinstance(op, ast.Sub):
            return a - b if conc else _arith(a, b, lambda x, y: x - y)
        if isinstance(op, ast.Mult):
            return a * b if conc else _arith(a, b, lambda x, y: x * y)
        if isinstance(op, ast.Div):
            if conc:
                if b == 0:
                    self.safety("div", False, node)
                    raise PathEnd()
                return Fraction(a) / Fraction(b)
            self.safety("div", V.to_z3(b) != 0, node)
            return z3.ToReal(a) / z3.ToReal(b) if False else _realdiv(a, b)
        if isinstance(op, (ast.FloorDiv, ast.Mod)):
            if V.is_real(a) or V.is_real(b):
                raise OutOfSubset("// or % on reals", node)
            if conc:
                if b == 0:
                    self.safety("div", False, node)
                    raise PathEnd()
                return a // b if isinstance(op, ast.FloorDiv) else a % b
            self.safety("divisor-positive", V.to_z3(b) > 0, node)
            az, bz = V.to_z3(a), V.to_z3(b)
            return az / bz if isinstance(op, ast.FloorDiv) else az % bz
        if isinstance(op, ast.Pow):
            if conc:
                if isinstance(b, int) and b >= 0:
                    return a ** b
                if isinstance(b, int) and a != 0:
                    return Fraction(a) ** b
                if isinstance(b, Fraction) and b.denominator == 1 and b >= 0:
                    return Fraction(a) ** int(b)
                if isinstance(b, Fraction) and b == Fraction(1, 2) and a >= 0:
                    from . import prelude
                    return prelude.sqrt_term(self, z3.RealVal(str(Fraction(a))))      # n ** 0.5 for a concrete n
                raise OutOfSubset("power", node)
            if isinstance(b, int) and 0 <= b <= 4:
                r = 1
                for _ in range(b):
                    r = _arith(r, a, lambda x, y: x * y)
                return r
            if isinstance(b, Fraction) and b.denominator == 1 and 0 <= b.numerator <= 4:
                return self.binop(op, a, int(b), node)
            if isinstance(b, Fraction) and b == Fraction(1, 2):
                from . import prelude
                az = V.to_z3(V.bool_to_int(a), True)
                self.safety("sqrt-nonneg", az >= 0, node)
                return prelude.sqrt_term(self, az)          # x ** 0.5
            if isinstance(a, int) and a == 2 and V.is_int(b):
                from . import prelude
                return prelude.pow2(self, b, node)
            raise OutOfSubset("power with symbolic exponent", node)
        raise OutOfSubset("binary operator %s" % type(op).__name__, node)

    def elementwise(self, op, a, b, node):
        from . import prelude
        return prelude.elementwise(self, op, a, b, node)

    def e_BoolOp(self, e, env):
        is_and = isinstance(e.op, ast.And)
        if getattr(self, "pure_mode", False):
            # element expression of a comprehension over a symbolic sequence: no path split; all operands must be plain truth values (comparisons), for which
            # short-circuit evaluation and the logical connective agree
            ts = []
            n_pc = len(self.pc)
            try:
                for sub in e.values:
                    t = self.truth(self.eval(sub, env))     # evaluated under "the earlier operands did not decide the result" (what short-circuiting guarantees)
                    ts.append(t)
                    if not isinstance(t, bool):
                        self.pc.append(t if is_and else z3.Not(t))
                        self.pc_tags.append("path")
            finally:
                del self.pc[n_pc:]
                del self.pc_tags[n_pc:]
            if all(isinstance(t, bool) or (is_z3(t) and z3.is_bool(t)) for t in ts):
                return self.and_(ts) if is_and else (True if any(t is True for t in ts) else (z3.Or(*[t for t in ts if t is not False]) if any(t is not False for t in ts) else False))
            raise OutOfSubset("boolean operator over non-boolean operands inside a symbolic comprehension", e)
        last = None
        for i, sub in enumerate(e.values):
            v = self.eval(sub, env)
            last = v
            if i == len(e.values) - 1:
                return v
            t = self.truth(v)
            d = self.decide(t)
            if is_and and not d:
                return v if isinstance(v, bool) or v is None else False
            if (not is_and) and d:
                # `a or b` with a truthy a IS a: a symbolic number keeps its value (only a symbolic truth value collapses to True on this path)
                return v if not (is_z3(v) and z3.is_bool(v)) else True
        return last

    def e_IfExp(self, e, env):
        t = self.truth(self.eval(e.test, env))
        if getattr(self, "pure_mode", False) and not isinstance(t, bool):
            # element expression of a comprehension over a symbolic sequence: no path split, the conditional becomes an if-then-else term
            a, b = self.eval(e.body, env), self.eval(e.orelse, env)
            if not (V.is_num(a) and V.is_num(b)):
                raise OutOfSubset("conditional expression with non-numeric branches inside a symbolic comprehension", e)
            x, y, _ = V.coerce_pair(V.bool_to_int(a), V.bool_to_int(b))
            return z3.If(t, x, y)
        if self.decide(t):
            return self.eval(e.body, env)
        return self.eval(e.orelse, env)

    def e_Compare(self, e, env):
        left = self.eval(e.left, env)
        res = []
        for op, rt in zip(e.ops, e.comparators):
            right = self.eval(rt, env)
            res.append(self.compare(op, left, right, e))
            left = right
        return self.and_(res)

    def and_(self, xs):
        out = []
        for x in xs:
            if isinstance(x, bool):
                if not x:
                    return False
            else:
                out.append(x)
        if not out:
            return True
        return out[0] if len(out) == 1 else z3.And(*out)

    def compare(self, op, a, b, node):
        if isinstance(op, (ast.Is, ast.IsNot)):
            if (isinstance(a, OptV) and b is None) or (isinstance(b, OptV) and a is None):
                r = (a if isinstance(a, OptV) else b).isnone
                return r if isinstance(op, ast.Is) else z3.Not(r)
            if a is None or b is None:
                r = (a is None and b is None)
            elif isinstance(a, (Obj, Seq)) or isinstance(b, (Obj, Seq)):
                r = a is b
            elif isinstance(a, bool) and isinstance(b, bool):
                r = a == b
            elif (isinstance(a, bool) and is_z3(b) and z3.is_bool(b)) or (isinstance(b, bool) and is_z3(a) and z3.is_bool(a)):
                # identity test against the singletons True / False: equal to `==` for python bools (a numpy boolean would differ: layer B)
                self.assumed.append("`is True/False` at L%d decided as == (boolean flags are python bools in the model)" % node.lineno)
                za, zb = (z3.BoolVal(a), b) if isinstance(a, bool) else (a, z3.BoolVal(b))
                return (za == zb) if isinstance(op, ast.Is) else (za != zb)
            else:
                raise OutOfSubset("`is` on %r, %r" % (a, b), node)
            return r if isinstance(op, ast.Is) else not r
        if isinstance(op, (ast.In, ast.NotIn)):
            r = self.contains(b, a, node)
            if isinstance(op, ast.In):
                return r
            return (not r) if isinstance(r, bool) else z3.Not(r)
        if isinstance(op, (ast.Eq, ast.NotEq)):
            if a is None or b is None:
                r = a is None and b is None
            elif isinstance(a, str) or isinstance(b, str):
                r = isinstance(a, str) and isinstance(b, str) and a == b
            elif isinstance(a, Seq) and isinstance(b, Seq):
                r = self.seq_eq(a, b)
            elif isinstance(a, V.Inf) or isinstance(b, V.Inf):
                r = isinstance(a, V.Inf) and isinstance(b, V.Inf) and a.sign == b.sign
            elif V.is_bool(a) and V.is_bool(b):
                r = (a == b) if (isinstance(a, bool) and isinstance(b, bool)) else (V.to_z3(a) == V.to_z3(b))
            elif (V.is_bool(a) and is_z3(a) and V.is_num(b)) or (V.is_bool(b) and is_z3(b) and V.is_num(a)):
                x, y, _ = V.coerce_pair(a, b)
                r = x == y
            elif V.is_num(a) and V.is_num(b):
                if not is_z3(a) and not is_z3(b):
                    r = a == b
                elif V.is_bool(a) and V.is_bool(b):
                    r = V.to_z3(a) == V.to_z3(b)
                elif (V.is_bool(a) and is_z3(a) and isinstance(b, int)) or (V.is_bool(b) and is_z3(b) and isinstance(a, int)):
                    x, y, _ = V.coerce_pair(a, b)
                    r = x == y
                else:
                    x, y, _ = V.coerce_pair(a, b)
                    r = x == y
            elif isinstance(a, Obj) and isinstance(b, Obj):
                r = a is b
            elif isinstance(a, SetV) and isinstance(b, SetV):
                r = a.arr == b.arr
            else:
                raise OutOfSubset("== on %r, %r" % (a, b), node)
            if isinstance(op, ast.Eq):
                return r
            return (not r) if isinstance(r, bool) else z3.Not(r)
        # ordering
        if isinstance(a, V.Inf) or isinstance(b, V.Inf):
            return _cmp_inf(op, a, b)
        if not (V.is_num(a) and V.is_num(b)):
            raise OutOfSubset("ordering on %r, %r" % (a, b), node)
        if not is_z3(a) and not is_z3(b):
            a, b = V.bool_to_int(a), V.bool_to_int(b)
            return {ast.Lt: a < b, ast.LtE: a <= b, ast.Gt: a > b, ast.GtE: a >= b}[type(op)]
        x, y, _ = V.coerce_pair(a, b)
        return {ast.Lt: x < y, ast.LtE: x <= y, ast.Gt: x > y, ast.GtE: x >= y}[type(op)]

    def contains(self, coll, x, node):
        if isinstance(coll, SetV):
            return z3.Select(coll.arr, self.as_key(x, coll.arr.sort().domain()))
        if isinstance(coll, DictV):
            return z3.Select(coll.dom, self.as_key(x, coll.dom.sort().domain()))
        if isinstance(coll, Seq) and coll.concrete:
            rs = [self.compare(ast.Eq(), x, y, node) for y in coll.items]
            if any(r is True for r in rs):
                return True
            rs = [r for r in rs if r is not False]
            return z3.Or(*rs) if rs else False
        if isinstance(coll, Seq):
            i = z3.Int("ini")
            return z3.Exists([i], z3.And(i >= 0, i < V.to_z3(coll.len()), z3.Select(coll.arr, i) == V.to_z3(x)))
        raise OutOfSubset("`in` on %r" % (coll,), node)

    def truth(self, v):
        if isinstance(v, bool):
            return v
        if v is None:
            return False
        if is_z3(v):
            if z3.is_bool(v):
                return v
            return v != 0
        if isinstance(v, (int, Fraction)):
            return v != 0
        if isinstance(v, str):
            return len(v) > 0
        if isinstance(v, Seq):
            if v.kind == "array":
                raise OutOfSubset("truth value of an array")
            n = v.len()
            return n != 0 if isinstance(n, int) else n != 0
        if isinstance(v, (Obj, Func, Module)):
            return True
        if isinstance(v, SetV):
            # a set is true exactly when it has an element
            x = z3.Const("nonempty!%d" % len(self.trace), v.arr.sort().domain())
            return z3.Exists([x], z3.Select(v.arr, x))
        raise OutOfSubset("truth value of %r" % (v,))

    def e_Attribute(self, e, env):
        o = self.eval(e.value, env)
        if isinstance(o, tuple) and len(o) == 3 and o[0] == "super":
            return Func("superbound", o[1], e.attr, o[2])
        if isinstance(o, Obj):
            if e.attr in o.fields:
                return o.fields[e.attr]
            nm = e.attr
            if nm.startswith("__") and not nm.endswith("__"):
                nm = "_%s%s" % (o.cls.lstrip("_"), nm)
            return Func("bound", o, e.attr)
        if isinstance(o, Module):
            from . import prelude
            return prelude.module_attr(self, o, e.attr, e)
        if isinstance(o, Func) and o.kind == "class":
            return Func("static", o.a[0], e.attr)
        if isinstance(o, (Seq, SetV, DictV, Opaque, ObjSeq)):
            from . import prelude
            return prelude.value_attr(self, o, e.attr, e)
        raise OutOfSubset("attribute %s of %r" % (e.attr, o), e)

    def e_Subscript(self, e, env):
        base = self.eval(e.value, env)
        if isinstance(e.slice, ast.Slice):
            return self.slice(base, e.slice, env, e)
        idx = self.eval(e.slice, env)
        if isinstance(idx, V.DiagIndex) and isinstance(base, Seq) and base.concrete and all(isinstance(r_, Seq) and r_.concrete for r_ in base.items):
            # M[np.diag_indices_from(M)]: a NEW array holding the diagonal entries (numpy fancy indexing copies)
            return Seq("array", [base.items[k_].items[k_] for k_ in range(len(base.items))])
        if isinstance(base, Seq) and isinstance(idx, Seq) and idx.concrete and len(idx.items) == 2 and base.concrete and all(isinstance(r_, Seq) for r_ in base.items):
            # M[i, j] on a small 2-D array held as a list of rows
            return self.seq_get(self.seq_get(base, idx.items[0], e), idx.items[1], e)
        if isinstance(base, Seq):
            return self.seq_get(base, idx, e)
        if isinstance(base, V.TupleSeq):
            iz = V.to_z3(idx)
            self.safety("index", z3.And(iz >= 0, iz < V.to_z3(base.length)), e)
            return Seq("tuple", [z3.Select(a, iz) for a in base.arrays])
        if isinstance(base, ObjSeq):
            if isinstance(idx, int) and idx < 0:
                idx = V.to_z3(base.length) + idx
            iz = V.to_z3(idx)
            self.safety("index", z3.And(iz >= 0, iz < V.to_z3(base.length)), e)
            view = _view(base, iz)
            return view
        if isinstance(base, DictV):
            key = self.as_key(idx, base.dom.sort().domain())
            self.safety("key", z3.Select(base.dom, key), e)
            return z3.Select(base.val, key)
        if isinstance(base, RangeV):
            return _arith(base.lo, idx, lambda x, y: x + y) if (is_z3(base.lo) or is_z3(idx)) else base.lo + idx
        if isinstance(base, Opaque):
            from . import prelude
            return prelude.opaque_item(self, base, idx, e)
        if isinstance(base, Obj) and self.book.find_method(base.cls, "__getitem__") is not None:
            return self.call_method(base, "__getitem__", [idx], {}, e)
        raise OutOfSubset("subscript of %r" % (base,), e)

    def slice(self, base, sl, env, node):
        if not isinstance(base, Seq):
            raise OutOfSubset("slice of %r" % (base,), node)
        lo = self.eval(sl.lower, env) if sl.lower is not None else None
        hi = self.eval(sl.upper, env) if sl.upper is not None else None
        st = self.eval(sl.step, env) if sl.step is not None else None
        if base.concrete and all(x is None or isinstance(x, int) for x in (lo, hi, st)):
            return Seq(base.kind, base.items[slice(lo, hi, st)])
        if st is not None:
            raise OutOfSubset("symbolic slice with step", node)
        s = base.to_symbolic()
        n = s.len()
        lo = 0 if lo is None else lo
        hi = n if hi is None else hi
        if isinstance(lo, int) and lo < 0:
            lo = _arith(n, lo, lambda x, y: x + y) if is_z3(n) else n + lo
        if isinstance(hi, int) and hi < 0:
            hi = _arith(n, hi, lambda x, y: x + y) if is_z3(n) else n + hi
        loz, hiz, nz = V.to_z3(lo), V.to_z3(hi), V.to_z3(n)
        self.safety("slice", z3.And(0 <= loz, loz <= hiz, hiz <= nz), node)
        arr = self.S.array("slice", z3.IntSort(), s.arr.sort().range())
        i = z3.Int("sli")
        self.assume(z3.ForAll([i], z3.Implies(z3.And(i >= 0, i < hiz - loz), z3.Select(arr, i) == z3.Select(s.arr, i + loz))))
        ln = hi - lo if (isinstance(hi, int) and isinstance(lo, int)) else z3.simplify(hiz - loz)
        return Seq(base.kind, None, ln, arr)

    def e_Dict(self, e, env):
        if e.keys:
            if all(isinstance(k, ast.Constant) and isinstance(k.value, str) for k in e.keys):
                return {k.value: self.eval(v, env) for k, v in zip(e.keys, e.values)}     # record with literal string keys
            raise OutOfSubset("dict literal with computed keys", e)
        return {}

    def e_Lambda(self, e, env):
        return Func("lambda", e, env)

    def e_ListComp(self, e, env):
        if len(e.generators) != 1:
            raise OutOfSubset("nested comprehension", e)
        g = e.generators[0]
        it = self.eval(g.iter, env)
        if isinstance(it, RangeV) and not all(isinstance(x, int) for x in (it.lo, it.hi)) and it.step == 1 and not g.ifs and isinstance(g.target, ast.Name):
            seq = self.range_comprehension(e, g, it, env)
            if seq is not None:
                return seq
        if isinstance(it, RangeV) and not all(isinstance(x, int) for x in (it.lo, it.hi)) and it.step == 1 and not g.ifs:
            # comprehension over a symbolic range: length is exact, the elements are left unconstrained (sound
            # over-approximation for pure element expressions; exceptions inside the element expression are not modelled)
            n = z3.simplify(V.to_z3(it.hi) - V.to_z3(it.lo))
            n = z3.If(n >= 0, n, z3.IntVal(0))
            self.assumed.append("comprehension at L%d over a symbolic range: exact length, unconstrained elements" % e.lineno)
            # OVER-approximation: a counter-model found after this point may be spurious (never reported as a refutation)
            self.overapprox.append("elements of the comprehension at L%d are unconstrained" % e.lineno)
            return Seq("list", None, z3.simplify(n), self.S.array("comp", z3.IntSort(), z3.RealSort()))
        sym = self.symbolic_comprehension(e, g, it, env)
        if sym is not None:
            return sym
        items = self.concrete_items(it, e)
        out = []
        sub = dict(env)
        for x in items:
            self.assign(g.target, x, sub)
            if all(self.decide(self.truth(self.eval(c, sub))) for c in g.ifs):
                out.append(self.eval(e.elt, sub))
        return Seq("list", out)

    e_GeneratorExp = e_ListComp

    def range_comprehension(self, e, g, it, env):
        """[elt(i) for i in range(lo, hi)] with symbolic bounds and a numeric element expression that may call functions under contract: the element is
        evaluated once for an ARBITRARY index k of the range; every symbol created during that evaluation (callee results) is generalised to a function of
        k (an array indexed by k), the facts learnt (callee postconditions) are asserted for all k of the range, and the result is the sequence defined
        pointwise by the generalised element.  Obligations raised while evaluating (callee preconditions) are proved for the arbitrary k.  Returns None
        (caller falls back to exact length / unconstrained elements) if the element is not numeric or the evaluation splits the path."""
        lo, hi = V.to_z3(it.lo), V.to_z3(it.hi)
        k = z3.Int("c!%d!%d!%d" % (e.lineno, len(self.trace), len(self.obligations)))
        names0 = set(self.used_names)
        n_pc, n_trace = len(self.pc), len(self.trace)
        self.pc.append(z3.And(lo <= k, k < hi))
        self.pc_tags.append("path")
        sub = dict(env)
        sub[g.target.id] = k
        saved = getattr(self, "pure_mode", False)
        self.pure_mode = True
        body = None
        try:
            try:
                body = self.eval(e.elt, sub)
            except OutOfSubset:
                body = None
        finally:
            self.pure_mode = saved
            facts = list(self.pc[n_pc + 1:])
            del self.pc[n_pc:]
            del self.pc_tags[n_pc:]
        if body is None or len(self.trace) != n_trace or not V.is_num(body) or isinstance(body, bool):
            return None
        body = V.to_z3(V.bool_to_int(body))
        new_names = set(self.used_names) - names0

        def consts_of(t, acc):
            todo, seen = [t], set()
            while todo:
                x = todo.pop()
                if x.get_id() in seen:
                    continue
                seen.add(x.get_id())
                if z3.is_app(x):
                    if x.num_args() == 0 and x.decl().kind() == z3.Z3_OP_UNINTERPRETED and x.decl().name() in new_names:
                        acc[x.decl().name()] = x
                    todo.extend(x.children())
                elif z3.is_quantifier(x):
                    todo.append(x.body())
        acc = {}
        for t in [body] + facts:
            consts_of(t, acc)
        subs = [(c, z3.Select(z3.Array(nm + "!of", z3.IntSort(), c.sort()), k)) for nm, c in acc.items()]
        body_g = z3.substitute(body, *subs) if subs else body
        facts_g = [z3.substitute(f, *subs) if subs else f for f in facts]
        n = z3.simplify(z3.If(hi - lo >= 0, hi - lo, z3.IntVal(0)))
        comp = self.S.array("comp", z3.IntSort(), body_g.sort())
        rng = z3.And(lo <= k, k < hi)
        self.assume(z3.ForAll([k], z3.Implies(rng, z3.And(z3.Select(comp, k - lo) == body_g, *facts_g)), patterns=[z3.Select(comp, k - lo)]), "comprehension@L%d" % e.lineno)
        self.assumed.append("comprehension at L%d over a symbolic range: element evaluated for an arbitrary index, callee results generalised to functions of the index" % e.lineno)
        return Seq("list", None, n, comp)

    def symbolic_comprehension(self, e, g, it, env):
        """[elt for x in A] / [elt for x, y in zip(A, B)] over sequences of symbolic length, without filter: the result is the sequence
        defined pointwise by the element expression (an array lambda), of the length of the (shortest) operand.  The element expression
        must be pure and may not split the path (conditional expressions become if-then-else terms)."""
        if g.ifs or it is None:
            return None
        if isinstance(it, V.ZipV):
            seqs = it.seqs
        elif isinstance(it, Seq) and not it.concrete:
            seqs = None
        else:
            return None
        k = z3.Int("c!%d!%d" % (e.lineno, len(self.trace)))
        sub = dict(env)
        if seqs is None:
            n = V.to_z3(it.len())
            self.assign(g.target, z3.Select(it.arr, k), sub)
        else:
            ss = [x.to_symbolic() for x in seqs]
            n = V.to_z3(ss[0].len())
            for x in ss[1:]:
                m = V.to_z3(x.len())
                n = z3.If(m < n, m, n)
            self.assign(g.target, Seq("tuple", [z3.Select(x.arr, k) for x in ss]), sub)
        n_trace, n_pc = len(self.trace), len(self.pc)
        saved = getattr(self, "pure_mode", False)
        self.pure_mode = True
        self.pc.append(z3.And(k >= 0, k < n))
        self.pc_tags.append("path")
        try:
            body = self.eval(e.elt, sub)
        finally:
            self.pure_mode = saved
            del self.pc[n_pc:]
            del self.pc_tags[n_pc:]
        if len(self.trace) != n_trace:
            raise OutOfSubset("branching inside the element expression of a comprehension over a symbolic sequence", e)
        if isinstance(body, V.Opaque):
            body = body.term
        if V.is_z3(body) and not z3.is_arith(body) and not z3.is_bool(body) and body.sort().kind() == z3.Z3_UNINTERPRETED_SORT:
            # element of an uninterpreted sort (result of an abstract callable on the element): the new list is the array lambda of these terms
            return Seq("list", None, z3.simplify(n), z3.Lambda([k], body))
        if V.is_z3(body) and z3.is_bool(body):
            body = V.bool_to_int(body)      # a list of truth values: stored as 0 / 1 like python's bool-as-int
        if not V.is_num(body):
            raise OutOfSubset("non-numeric element expression in a comprehension over a symbolic sequence", e)
        body = V.to_z3(V.bool_to_int(body))
        return Seq("list", None, z3.simplify(n), z3.Lambda([k], body))

    def concrete_items(self, it, node):
        if isinstance(it, Seq) and it.concrete:
            return list(it.items)
        if isinstance(it, RangeV) and all(isinstance(x, int) for x in (it.lo, it.hi, it.step)):
            return list(range(it.lo, it.hi, it.step))
        if isinstance(it, list):
            return it
        raise OutOfSubset("iteration over a symbolic collection in an expression", node)

    def quantified_all_any(self, e, env):
        """all(<bool expr> for v in range(n)) / any(...) with symbolic n: a bounded quantifier over the loop variable (the element
        expression must be pure and must not branch)"""
        gen = e.args[0]
        g = gen.generators[0]
        it = self.eval(g.iter, env)
        if not (isinstance(it, RangeV) and it.step == 1 and isinstance(g.target, ast.Name) and not g.ifs):
            return None
        if all(isinstance(x, int) for x in (it.lo, it.hi)):
            return None
        v = z3.Int("q!%s!%d" % (g.target.id, len(self.trace)))
        sub = dict(env)
        sub[g.target.id] = v
        n_trace, n_obl, n_pc = len(self.trace), len(self.obligations), len(self.pc)
        self.pc.append(z3.And(V.to_z3(it.lo) <= v, v < V.to_z3(it.hi)))
        self.pc_tags.append("path")
        try:
            body = self.truth(self.eval(gen.elt, sub))
        finally:
            del self.pc[n_pc:]
            del self.pc_tags[n_pc:]
        if len(self.trace) != n_trace:
            raise OutOfSubset("branching inside a quantified all()/any() element expression", e)
        # safety obligations raised inside the element expression were generated under the range hypothesis: keep them (they mention v, skolem-like)
        body = V.to_z3(body)
        rng = z3.And(V.to_z3(it.lo) <= v, v < V.to_z3(it.hi))
        if e.func.id == "all":
            return z3.ForAll([v], z3.Implies(rng, body))
        return z3.Exists([v], z3.And(rng, body))

    def e_Call(self, e, env):
        if isinstance(e.func, ast.Name) and e.func.id == "super" and not e.args and "super" not in env and isinstance(env.get("self"), Obj):
            return ("super", env["self"], getattr(self, "cur_cls", None) or self.cls_name)
        if isinstance(e.func, ast.Name) and e.func.id in ("all", "any") and len(e.args) == 1 and isinstance(e.args[0], (ast.GeneratorExp, ast.ListComp)) \
                and len(e.args[0].generators) == 1 and e.func.id not in env:
            r = self.quantified_all_any(e, env)
            if r is not None:
                return r
        fv = self.eval(e.func, env)
        args = []
        for a in e.args:
            if isinstance(a, ast.Starred):
                args.extend(self.concrete_items(self.eval(a.value, env), e))
            else:
                args.append(self.eval(a, env))
        kwargs = {k.arg: self.eval(k.value, env) for k in e.keywords}
        return self.call(fv, args, kwargs, e)

    # ------------------------------------------------------------------ calls
    def callee_contract_static(self, cnode):
        f = cnode.func
        if isinstance(f, ast.Attribute) and isinstance(f.value, ast.Name) and f.value.id == "self" and self.cls_name:
            return self.book.lookup(self.cls_name, f.attr)
        return None

    def call(self, fv, args, kwargs, node):
        from . import prelude
        if isinstance(fv, Func):
            if fv.kind == "builtin":
                return prelude.call_builtin(self, fv.a[0], args, kwargs, node)
            if fv.kind == "spec":
                # callable supplied by the sidecar as an uninterpreted function (abstract callback: cdf, ppf, ...): pure and total
                (zf,) = fv.a
                if kwargs or len(args) != zf.arity():
                    raise OutOfSubset("abstract callable: arity", node)
                zargs = []
                for i, x in enumerate(args):
                    x = V.bool_to_int(x)
                    zx = V.to_z3(x, zf.domain(i) == z3.RealSort())
                    zargs.append(zx)
                return zf(*zargs)
            if fv.kind == "lambda":
                lam, cenv = fv.a
                sub = dict(cenv)
                params = [p.arg for p in lam.args.args]
                if len(params) != len(args):
                    raise OutOfSubset("lambda arity", node)
                sub.update(zip(params, args))
                return self.eval(lam.body, sub)
            if fv.kind == "def":
                fn, cenv = fv.a
                return self.inline(fn, cenv, args, kwargs, node)
            if fv.kind == "valuemethod":
                return prelude.call_value_method(self, fv.a[0], fv.a[1], args, kwargs, node)
            if fv.kind == "bound":
                obj, name = fv.a
                return self.call_method(obj, name, args, kwargs, node)
            if fv.kind == "superbound":
                obj, name, cls = fv.a
                mro = self.book.mro(obj.cls)
                rest = mro[mro.index(cls) + 1:] if cls in mro else mro[1:]
                for base in rest:
                    if self.book.find_method(base, name) is not None and self.book.find_method(base, name)[1] == base:
                        return self.call_repo(base, name, obj, args, kwargs, node)
                raise OutOfSubset("super().%s not found" % name, node)
            if fv.kind == "static":
                cls, name = fv.a
                return self.call_repo(cls, name, None, args, kwargs, node)
            if fv.kind == "class":
                return self.construct(fv.a[0], args, kwargs, node)
            if fv.kind == "repo":
                return self.call_repo(None, fv.a[0], None, args, kwargs, node)
        raise OutOfSubset("call of %r" % (fv,), node)

    def call_method(self, obj, name, args, kwargs, node):
        return self.call_repo(obj.cls, name, obj, args, kwargs, node)

    def call_repo(self, cls, name, receiver, args, kwargs, node):
        c = self.book.lookup(cls, name, receiver=receiver, args=args)
        if c is not None:
            return self.apply_contract(c, receiver, args, kwargs, node)
        fn = self.book.inline_source(self.contract, cls, name)
        if fn is not None:
            fnode, fcls = fn
            cenv = {"__defining_class__": fcls}
            a = list(args)
            is_static = any(isinstance(d, ast.Name) and d.id in ("staticmethod",) for d in fnode.decorator_list)
            if receiver is not None and not is_static:
                a = [receiver] + a
            return self.inline(fnode, cenv, a, kwargs, node)
        raise OutOfSubset("call to %s.%s which has neither a contract nor an inline permission" % (cls, name), node)

    def inline(self, fn, cenv, args, kwargs, node):
        check_decorators(fn, node)
        sub = dict(cenv)
        params = [p.arg for p in fn.args.args]
        defaults = fn.args.defaults
        vals = dict(zip(params, args))
        for k, v in kwargs.items():
            vals[k] = v
        nd = len(defaults)
        for i, p in enumerate(params):
            if p not in vals:
                j = i - (len(params) - nd)
                if j < 0:
                    raise OutOfSubset("missing argument %s" % p, node)
                vals[p] = self.eval(defaults[j], {})
        sub.update(vals)
        saved_fn = self.fn
        depth = getattr(self, "_inline_depth", 0)
        if depth > 6:
            raise OutOfSubset("inline depth", node)
        self._inline_depth = depth + 1
        saved_inl = getattr(self, "inl", "")
        saved_cls = getattr(self, "cur_cls", None)
        self.fn, self.inl = fn, saved_inl + fn.name + ":"
        self.cur_cls = cenv.get("__defining_class__", saved_cls)
        try:
            self.exec_block(fn.body, sub)
            return None
        except ReturnEx as r:
            return r.value
        finally:
            self._inline_depth = depth
            self.fn, self.inl = saved_fn, saved_inl
            self.cur_cls = saved_cls

    def construct(self, cls, args, kwargs, node):
        c = self.book.lookup(cls, "__init__")
        obj = Obj(cls, {})
        if c is not None:
            if hasattr(c, "init_fields"):
                # constructor contract that binds fields directly to the (boxed) arguments
                params = [p for p in c.params if p != "self"]
                cenv = dict(zip(params, args))
                cenv.update(kwargs)
                obj.fields.update(c.init_fields(self.S, cenv))
                self.assumed.append("constructor contract of %s assumed at L%d" % (cls, node.lineno))
                return obj
            self.apply_contract(c, obj, args, kwargs, node)
            return obj
        fn = self.book.inline_source(self.contract, cls, "__init__")
        if fn is not None:
            fnode, fcls = fn
            self.inline(fnode, {}, [obj] + list(args), kwargs, node)
            return obj
        raise OutOfSubset("constructor of %s has neither contract nor inline permission" % cls, node)

    def apply_contract(self, c, receiver, args, kwargs, node):
        S = self.S
        params = list(c.params)
        cenv = {}
        a = list(args)
        if receiver is not None and params and params[0] == "self":
            cenv["self"] = receiver
            params = params[1:]
        if len(a) > len(params):
            raise OutOfSubset("too many arguments for %s" % c.qualname, node)
        for p, v in zip(params, a):
            cenv[p] = v
        for k, v in kwargs.items():
            cenv[k] = v
        for p in params:
            if p not in cenv:
                if p in c.defaults:
                    cenv[p] = c.defaults[p]
                else:
                    raise OutOfSubset("missing argument %s for %s" % (p, c.qualname), node)
        tag = "call@L%d:%s" % (node.lineno - self.fn.lineno, c.qualname.split(".")[-1])
        pc_before = len(self.pc)
        for item in c.pre(S, cenv):
            cl = clause(item)
            self.oblige("%s/pre#%s" % (tag, cl.name), cl.expr, node, "call-pre", uses=cl.uses, by=cl.by, prop=cl.prop)
        pc_after_pre = len(self.pc)
        old = V.clone(cenv)
        # havoc the frame
        if receiver is not None:
            for f in getattr(c, "modifies", ()):
                if f in receiver.fields:
                    receiver.fields[f] = S.like(receiver.fields[f], "%s.%s" % (tag, f))
        for pn in getattr(c, "modifies_params", ()):
            v = cenv.get(pn)
            if isinstance(v, Seq):
                nv = S.like(v, "%s.%s" % (tag, pn))
                v.items, v.length, v.arr = None, nv.length, nv.arr
        if hasattr(c, "havoc"):
            c.havoc(S, cenv, tag)        # frame given by the sidecar for nested object structures
        result = c.result(S, cenv) if hasattr(c, "result") else None
        for item in c.post(S, old, cenv, result):
            cl = clause(item)
            if isinstance(cl.expr, bool) and not cl.expr:
                # a structural clause of the callee's contract evaluates to False on the caller-side result shape: assuming it would silently end
                # the path (everything after the call would be vacuously fine).  The sidecar is inconsistent here -> undecided, never a pass.
                raise OutOfSubset("postcondition %s of %s is structurally false on the caller-side result shape (sidecar inconsistency)" % (cl.name, c.qualname), node)
            self.assume(cl.expr, "%s/post#%s" % (tag, cl.name))
        self.assumed.append("contract of %s assumed at call site L%d" % (c.qualname, node.lineno))
        self.check_call_consistency(c, pc_before, pc_after_pre, node)
        return result

    def check_call_consistency(self, c, pc_before, pc_after_pre, node):
        """guard against a silently pruned path: the callee's postcondition is ASSUMED; if it contradicts what is known about the caller's state
        (typically a clause about a field the sidecar forgot to put into the callee's frame, so that it constrains the PRE-state) every obligation
        after the call would hold vacuously.  Only a definite `unsat` counts; the caller is then UNDECIDED (sidecar inconsistency), never a pass."""
        if len(self.pc) == pc_after_pre:
            return
        key = (id(c), tuple(self.trace))
        seen = self.__dict__.setdefault("_consistency_seen", set())
        if key in seen:
            return
        seen.add(key)
        s = z3.Solver()
        s.set("timeout", 1500)
        for p_ in self.pc[:pc_before] + self.pc[pc_after_pre:]:
            s.add(p_)
        if s.check() != z3.unsat:
            return
        s0 = z3.Solver()
        s0.set("timeout", 1500)
        for p_ in self.pc[:pc_before]:
            s0.add(p_)
        if s0.check() == z3.unsat:
            return                      # the path was already infeasible before the call (quantified facts the branch pruning does not use)
        raise OutOfSubset("postcondition of %s contradicts the caller's state at the call (sidecar inconsistency: a clause constrains a field outside the callee's frame)" % c.qualname, node)


ALLOWED_DECORATORS = {"staticmethod", "abc.abstractmethod", "abstractmethod", "classmethod", "property"}


def check_decorators(fn, node=None):
    """a decorator (functools.lru_cache, ...) changes what a call does: such a function is not executed symbolically"""
    for d in getattr(fn, "decorator_list", []):
        txt = ast.unparse(d)
        if txt not in ALLOWED_DECORATORS:
            raise OutOfSubset("function %s is decorated with @%s (semantics of the decorator not modelled)" % (fn.name, txt), node or fn)


def set_field(obj, name, val):
    """assign a field of an object; element views of object lists are written back to the list"""
    obj.fields[name] = val
    if hasattr(obj, "origin"):
        oseq, oi = obj.origin
        rs = oseq.fields[name].sort().range()
        oseq.fields[name] = z3.Store(oseq.fields[name], oi, V.to_z3(V.bool_to_int(val), rs == z3.RealSort()))


def _view(oseq, idx):
    """element view of a struct-of-arrays object list; a field given as a list of arrays is a fixed-length list-valued field (read only)"""
    fields = {}
    for f, a in oseq.fields.items():
        if isinstance(a, (list, tuple)):
            fields[f] = Seq("list", [z3.Select(x, idx) for x in a])
        else:
            fields[f] = z3.Select(a, idx)
    view = Obj(oseq.cls, fields)
    view.origin = (oseq, idx)
    return view


def _trivial(h):
    if isinstance(h, bool):
        return h
    if z3.is_true(h):
        return True
    if z3.is_eq(h) and h.arg(0).eq(h.arg(1)):
        return True
    return False


def _load(t):
    import copy
    t2 = copy.copy(t)
    t2.ctx = ast.Load()
    return t2


def _arith(a, b, f):
    x, y, _ = V.coerce_pair(a, b)
    return f(x, y)


def _realdiv(a, b):
    x = V.to_z3(V.bool_to_int(a), True)
    y = V.to_z3(V.bool_to_int(b), True)
    return x / y


def _has_quant(e):
    seen = set()
    stack = [e]
    while stack:
        t = stack.pop()
        if t.get_id() in seen:
            continue
        seen.add(t.get_id())
        if z3.is_quantifier(t):
            return True
        stack.extend(t.children())
    return False


def _cmp_inf(op, a, b):
    def key(v):
        return (v.sign * 2) if isinstance(v, V.Inf) else 0
    if isinstance(a, V.Inf) and isinstance(b, V.Inf):
        x, y = a.sign, b.sign
        return {ast.Lt: x < y, ast.LtE: x <= y, ast.Gt: x > y, ast.GtE: x >= y}[type(op)]
    if isinstance(a, V.Inf):
        return {ast.Lt: a.sign < 0, ast.LtE: a.sign < 0, ast.Gt: a.sign > 0, ast.GtE: a.sign > 0}[type(op)]
    return {ast.Lt: b.sign > 0, ast.LtE: b.sign > 0, ast.Gt: b.sign < 0, ast.GtE: b.sign < 0}[type(op)]


def _lex(v0, v1):
    """lexicographic decrease of tuples of ints, all components bounded below by 0."""
    cases = []
    for i in range(len(v0)):
        cases.append(z3.And(*([v1[j] == v0[j] for j in range(i)] + [v1[i] < v0[i], v0[i] >= 0])))
    return z3.Or(*cases)
