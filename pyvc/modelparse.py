"""Parse the textual z3 model values shipped back from the solver workers (ints, rationals, K/Store arrays)."""
import re
from fractions import Fraction


def num(s):
    s = s.strip()
    if s in ("True", "False"):
        return s == "True"
    s = s.replace("?", "")
    try:
        if "/" in s:
            a, b = s.split("/")
            return Fraction(int(a), int(b))
        if "." in s:
            return Fraction(s)
        return int(s)
    except Exception:
        return None


def _split_args(s):
    out, depth, cur = [], 0, ""
    for ch in s:
        if ch in "([":
            depth += 1
        elif ch in ")]":
            depth -= 1
        if ch == "," and depth == 0:
            out.append(cur)
            cur = ""
        else:
            cur += ch
    if cur.strip():
        out.append(cur)
    return [x.strip() for x in out]


def array(s):
    """-> (default, {index: value}) or None"""
    s = " ".join(s.split())
    if s.startswith("ARRAY{"):
        m = {}
        for part in s[6:-1].split(","):
            i, v = part.split(":", 1)
            m[int(i)] = num(v)
        return (0, m)
    if s.startswith("K("):
        args = _split_args(s[2:-1])
        return (num(args[-1]), {})
    if s.startswith("Store("):
        args = _split_args(s[6:-1])
        base = array(args[0])
        if base is None:
            return None
        d, m = base
        m = dict(m)
        m[num(args[1])] = num(args[2])
        return (d, m)
    return None


def seq(model, name, n, default=0):
    """python list of length n from an Int->T array model value"""
    a = array(model.get(name, "")) if name in model else None
    if a is None:
        return [default] * n
    d, m = a
    return [m.get(i, d if d is not None else default) for i in range(n)]


def tofloat(x):
    if isinstance(x, Fraction):
        return float(x)
    return x
