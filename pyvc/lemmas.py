"""Layer L: lemmas over the spec vocabulary of the contracts.
  SmtLemma      one validity query (hyps |- goal), split + skolemised
  InductionLemma  base + step queries (induction schema over an Int)
  LeanLemma     a Lean 4 / Mathlib file under lemmas/, accepted when `lean` exits 0, prints no `sorry` warning and
                `#print axioms` lists only propext / Classical.choice / Quot.sound.  Result cached by content hash.
"""
import hashlib
import json
import os
import re
import subprocess
import time

import z3

from . import smt
from .engine import Obligation

ROOT = os.path.dirname(os.path.dirname(os.path.abspath(__file__)))


class SmtLemma:
    def __init__(self, name, build, note=""):
        self.name, self.build, self.note = "lemma/" + name, build, note

    def check(self, tier):
        t0 = time.time()
        try:
            goals = self.build()
            if isinstance(goals, tuple):
                goals = [goals]
            obs = [Obligation("%s#%d" % (self.name, i), list(h), g, 0, "lemma") for i, (h, g) in enumerate(goals)]
            agg = smt.discharge(obs, t_z3_ms=30000 if tier == "quick" else 120000, t_cvc5_s=60)
            bad = [a for a in agg.values() if a["status"] != "discharged"]
            st = "discharged" if not bad else ("failed" if any(a["status"] == "failed" for a in bad) else "undecided")
            backend = "z3" if all(a["backend"] == "z3" for a in agg.values()) else "z3+cvc5"
            return {"name": self.name, "status": st, "backend": backend, "time_s": round(time.time() - t0, 3), "goals": len(obs),
                    "reason": "; ".join("%s:%s %s" % (a["name"], a["status"], a.get("reason", "")) for a in bad)[:600], "note": self.note}
        except Exception as e:  # noqa
            return {"name": self.name, "status": "undecided", "backend": "z3", "time_s": round(time.time() - t0, 3), "reason": "%s: %s" % (type(e).__name__, e)}


class LeanLemma:
    OK_AXIOMS = {"propext", "Classical.choice", "Quot.sound"}

    def __init__(self, name, relpath, theorems):
        self.name, self.relpath, self.theorems = "lemma/lean/" + name, relpath, theorems

    def stamp_path(self, digest):
        return os.path.join(ROOT, ".cache", "lean_%s.json" % digest[:24])

    def check(self, tier, force=False):
        t0 = time.time()
        path = os.path.join(ROOT, self.relpath)
        text = open(path).read()
        ver = subprocess.run(["lean", "--version"], stdout=subprocess.PIPE, stderr=subprocess.STDOUT).stdout.decode().strip()
        digest = hashlib.sha256((text + ver).encode()).hexdigest()
        sp = self.stamp_path(digest)
        if not force and tier == "quick" and os.path.exists(sp):
            r = json.load(open(sp))
            r["cached"] = True
            r["time_s"] = round(time.time() - t0, 3)
            return r
        os.makedirs(os.path.dirname(sp), exist_ok=True)
        p = subprocess.run(["lean", path], stdout=subprocess.PIPE, stderr=subprocess.STDOUT, cwd=os.path.dirname(path), timeout=3000)
        out = p.stdout.decode(errors="replace")
        axioms = set(re.findall(r"depends on axioms: \[([^\]]*)\]", out.replace("\n", " ")) and
                     [a.strip() for grp in re.findall(r"depends on axioms: \[([^\]]*)\]", out.replace("\n", " ")) for a in grp.split(",")])
        ok = p.returncode == 0 and "sorry" not in out and "error" not in out.lower() and axioms <= self.OK_AXIOMS \
            and all(("'%s'" % t in out) or (t in out) for t in self.theorems) and "sorry" not in text
        r = {"name": self.name, "status": "discharged" if ok else "undecided", "backend": "lean", "theorems": self.theorems,
             "axioms": sorted(axioms), "sha256": hashlib.sha256(text.encode()).hexdigest(), "lean": ver, "time_s": round(time.time() - t0, 3),
             "reason": "" if ok else ("lean rc=%d: %s" % (p.returncode, out[-500:]))}
        if ok:
            json.dump(r, open(sp, "w"))
        return r
