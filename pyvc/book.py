"""Source index of /repo (re-read on every run) and registry of sidecar contracts."""
import ast
import hashlib
import os

REPO = os.environ.get("VERIF_REPO", "/repo")


class SourceFile:
    def __init__(self, relpath):
        self.relpath = relpath
        self.path = os.path.join(REPO, relpath)
        self.text = open(self.path).read()
        self.tree = ast.parse(self.text)
        self.classes = {}
        self.functions = {}
        for n in self.tree.body:
            if isinstance(n, ast.ClassDef):
                self.classes[n.name] = n
            elif isinstance(n, ast.FunctionDef):
                self.functions[n.name] = n

    def find(self, qualname):
        parts = qualname.split(".")
        if len(parts) == 1:
            return self.functions.get(parts[0]), None
        cls = self.classes.get(parts[0])
        if cls is None:
            return None, None
        found = None
        for n in cls.body:
            if isinstance(n, ast.FunctionDef) and n.name == parts[1]:
                found = n           # a later definition in the same class body replaces an earlier one (Python semantics)
        return found, cls

    def segment(self, node):
        return ast.get_source_segment(self.text, node) or ""


class Contract:
    """Base class of sidecar contracts.  Subclasses set `file`, `qualname` and override the hooks."""
    file = None
    qualname = None
    loops = {}
    modifies = ()
    modifies_params = ()
    inline = ()
    defaults = {}
    must_hold_asserts = False
    total = True             # under the precondition no path ends in an exception (a raising path would satisfy every postcondition vacuously);
                             # False: exceptional exits are assumed away (partial correctness), recorded per path in the evidence
    trusted = False          # True: contract is only *assumed* at call sites (external / out of reach); listed in evidence
    note = ""

    def inputs(self, S):
        raise NotImplementedError

    def pre(self, S, env):
        return []

    def post(self, S, old, env, result):
        return []

    def result(self, S, env):
        return None


class Loop:
    def __init__(self, inv, variant=None, key_to_value=None, element_fields_written=()):
        self.inv = inv
        self.variant = variant
        self.element_fields_written = tuple(element_fields_written)   # fields of the iterated list's elements modified by callees (havoced at the cut)
        if key_to_value:
            self.key_to_value = key_to_value


class Book:
    def __init__(self):
        self.files = {}
        self.contracts = {}      # (cls or None, name) -> Contract
        self.class_file = {}
        self.bases = {}
        self._indexed = False

    def file(self, relpath):
        if relpath not in self.files:
            self.files[relpath] = SourceFile(relpath)
        return self.files[relpath]

    def index_all(self):
        if self._indexed:
            return
        self._indexed = True
        d = os.path.join(REPO, "sparseSpACE")
        for fn in sorted(os.listdir(d)):
            if fn.endswith(".py"):
                try:
                    sf = self.file("sparseSpACE/" + fn)
                except SyntaxError:
                    continue
                for cn, c in sf.classes.items():
                    self.class_file.setdefault(cn, sf)
                    self.bases[cn] = [b.id for b in c.bases if isinstance(b, ast.Name)]

    def has_class(self, name):
        self.index_all()
        return name in self.class_file

    def has_function(self, name):
        self.index_all()
        return any(name in sf.functions for sf in self.files.values())

    def register(self, c):
        parts = c.qualname.split(".")
        key = (parts[0], parts[1]) if len(parts) == 2 else (None, parts[0])
        if not getattr(c, "relational", False):
            self.contracts.setdefault(key, []).append(c)
        sf = self.file(c.file)
        node, cls = sf.find(c.qualname)
        c.node = node
        c.cls_node = cls
        c.cls_name = parts[0] if len(parts) == 2 else None
        if node is not None:
            c.params = [a.arg for a in node.args.args]
            # constant default values of the real signature (sidecar `defaults` take precedence)
            auto = {}
            dfl = node.args.defaults
            for a_, d_ in zip(node.args.args[len(node.args.args) - len(dfl):], dfl):
                if isinstance(d_, ast.Constant) and not isinstance(d_.value, float):
                    auto[a_.arg] = d_.value
            auto.update(dict(getattr(c, "defaults", {}) or {}))
            c.defaults = auto
            c.sha256 = hashlib.sha256(sf.segment(node).encode()).hexdigest()
            c.lines = [node.lineno, node.end_lineno]
        else:
            c.params = []
            c.sha256 = None
            c.lines = None
        return c

    def mro(self, cls):
        self.index_all()
        out, todo = [], [cls]
        while todo:
            c = todo.pop(0)
            if c in out or c is None:
                continue
            out.append(c)
            todo.extend(self.bases.get(c, []))
        return out

    @staticmethod
    def mangle(cls, name):
        if name.startswith("__") and not name.endswith("__"):
            return ["_%s%s" % (cls.lstrip("_"), name), name]
        return [name]

    def lookup(self, cls, name, receiver=None, args=None):
        """contract of cls.name (searching base classes).  Several contracts may be registered for one function (e.g. one per
        fixed dimension); `applies(receiver, args)` selects among them."""
        keys = [(None, name)] if cls is None else [(c, name) for c in self.mro(cls)]
        for k in keys:
            for c in self.contracts.get(k, []):
                ap = getattr(c, "applies", None)
                if ap is None or receiver is None or ap(receiver, args):
                    return c
        return None

    def find_method(self, cls, name):
        self.index_all()
        if cls is None:
            for sf in self.files.values():
                if name in sf.functions:
                    return sf.functions[name], None
            return None
        for c in self.mro(cls):
            sf = self.class_file.get(c)
            if sf is None:
                continue
            node, _ = sf.find("%s.%s" % (c, name))
            if node is not None:
                return node, c
        return None

    def inline_source(self, contract, cls, name):
        allowed = set(contract.inline)
        keys = {name, "%s.%s" % (cls, name)} | {"%s.%s" % (c, name) for c in (self.mro(cls) if cls else [])}
        if not (keys & allowed):
            # a private helper (leading underscore(s), name-mangled ones included, not a dunder) of the receiver's own class hierarchy that has no contract is inlined from the real
            # source: extracting a block into such a helper is the most common behaviour-preserving edit and must not cost the proof
            if cls and name.startswith("_") and not (name.startswith("__") and name.endswith("__")):
                return self.find_method(cls, name)
            return None
        return self.find_method(cls, name)
