"""Discharge of proof obligations: goal splitting + skolemisation, z3 first, cvc5 for z3's unknowns, 16-process pool."""
import itertools
import multiprocessing as mp
import os
import subprocess
import tempfile
import time

import z3

_sk = itertools.count()


def split_goal(hyps, goal, depth=0):
    """[(hyps, atomic-goal)]: conjunctions are split, universally quantified goals are skolemised, antecedents of
    implications become hypotheses.  (Sound and complete transformation of validity.)"""
    g = goal
    if z3.is_and(g) and depth < 12:
        out = []
        for c in g.children():
            out.extend(split_goal(hyps, c, depth + 1))
        return out
    if z3.is_quantifier(g) and g.is_forall() and depth < 12:
        n = g.num_vars()
        consts = [z3.Const("sk!%s!%d" % (g.var_name(i), next(_sk)), g.var_sort(i)) for i in range(n)]
        body = z3.substitute_vars(g.body(), *reversed(consts))
        return split_goal(hyps, body, depth + 1)
    if z3.is_implies(g) and depth < 12:
        a, b = g.children()
        return split_goal(hyps + [a], b, depth + 1)
    if z3.is_app_of(g, z3.Z3_OP_ITE) and z3.is_bool(g) and depth < 12:
        c, a, b = g.children()
        return split_goal(hyps + [c], a, depth + 1) + split_goal(hyps + [z3.Not(c)], b, depth + 1)
    return [(hyps, g)]


def _has_quant(e):
    seen = set()
    stack = [e]
    while stack:
        t = stack.pop()
        if t.get_id() in seen:
            continue
        seen.add(t.get_id())
        if z3.is_quantifier(t):
            return True
        stack.extend(t.children())
    return False


def to_smt2(hyps, goal):
    s = z3.Solver()
    for h in hyps:
        s.add(h)
    s.add(z3.Not(goal))
    return s.to_smt2()


def _model_dict(m):
    """model -> {name: text}.  Arrays Int->(Int|Real|Bool) are sampled at indices -1..95 and shipped as
    'ARRAY{i:v,...}' so that the replay side does not have to parse nested Store terms."""
    out = {}
    for d in m.decls():
        try:
            v = m[d]
            if d.arity() == 0:
                c = d()
                if isinstance(c.sort(), z3.ArraySortRef) and c.sort().domain() == z3.IntSort() and not isinstance(c.sort().range(), z3.ArraySortRef):
                    vals = []
                    for i in range(-1, 96):
                        vals.append("%d:%s" % (i, m.eval(z3.Select(c, z3.IntVal(i)), model_completion=True)))
                    out[d.name()] = "ARRAY{" + ",".join(vals) + "}"
                elif z3.is_array(v) or isinstance(v, z3.FuncInterp) or z3.is_as_array(v):
                    out[d.name()] = str(v)[:400]
                else:
                    out[d.name()] = str(v)
            else:
                out[d.name()] = str(v)[:400]
        except Exception:
            pass
    return out


def _check_z3(text, timeout_ms, ematch_only=False):
    s = z3.Solver()
    s.set("timeout", timeout_ms)
    if ematch_only:
        s.set("smt.mbqi", False)
        s.set("smt.auto_config", False)
    s.from_string(text)
    t0 = time.time()
    r = s.check()
    dt = time.time() - t0
    if r == z3.unsat:
        return "unsat", dt, None, ""
    if r == z3.sat:
        m = s.model()
        return "sat", dt, _model_dict(m), ""
    return "unknown", dt, None, s.reason_unknown()


def _check_cvc5(text, timeout_s):
    with tempfile.NamedTemporaryFile("w", suffix=".smt2", delete=False) as f:
        f.write("(set-logic ALL)\n" + text.replace("(check-sat)", "") + "\n(check-sat)\n")
        path = f.name
    t0 = time.time()
    try:
        p = subprocess.run(["/usr/bin/cvc5", "--lang", "smt2", "--tlimit=%d" % int(timeout_s * 1000), path],
                           stdout=subprocess.PIPE, stderr=subprocess.PIPE, timeout=timeout_s + 10)
        out = p.stdout.decode().strip().splitlines()
        r = out[0].strip() if out else "unknown"
        err = p.stderr.decode()[:200]
    except subprocess.TimeoutExpired:
        r, err = "unknown", "timeout"
    finally:
        os.unlink(path)
    if r not in ("sat", "unsat"):
        r = "unknown"
    return r, time.time() - t0, err


DOUBLE_CHECK = False


def _work(job):
    idx, text, t_z3, t_cvc5, small = job[:5]
    qf = job[5] if len(job) > 5 else None
    try:
        dt0 = 0.0
        if small is not None:
            # hypothesis subset named by the contract (`uses`): unsat here is a proof (dropping hypotheses is sound);
            # anything else is inconclusive and the full query decides.  Short first attempt (the subset either works at once or not at all) ...
            r, dt, model, why = _check_z3(small, min(3000, t_z3))
            dt0 += dt
            if r == "unsat":
                return idx, "unsat", "z3", dt0, None, ""
        r, dt, model, why = _check_z3(text, t_z3)
        if r == "unknown" and small is not None:
            # ... and two long ones only if the full query could not decide either
            for em in (False, True):
                r1, dt1, model1, why1 = _check_z3(small, max(t_z3 // 2, 2000), ematch_only=em)
                dt0 += dt1
                if r1 == "unsat":
                    return idx, "unsat", "z3", dt0 + dt, None, ""
        if r == "unknown":
            r1, dt1, model1, why1 = _check_z3(text, t_z3, ematch_only=True)
            dt += dt1
            if r1 == "unsat":
                r, model, why = r1, model1, why1
        dt += dt0
        backend = "z3"
        if r == "unsat" and DOUBLE_CHECK:
            # thorough tier: second opinion on every z3 `unsat`; a cvc5 `sat` is a solver disagreement (reported as undecided, never a verdict)
            r2, dt2, err = _check_cvc5(text, min(t_cvc5, 20))
            dt += dt2
            if r2 == "sat":
                return idx, "error", "z3", dt, None, "solver disagreement: z3 unsat, cvc5 sat"
            if r2 == "unsat":
                backend = "z3&cvc5"
        if r == "unknown" and t_cvc5 > 0:
            r2, dt2, err = _check_cvc5(text, t_cvc5)
            dt += dt2
            if r2 == "unsat":
                r, backend = "unsat", "cvc5"
            elif r2 == "sat":
                # cvc5 sat answers on quantified problems are not used as refutations (no model replay): stay undecided
                why = "z3 unknown (%s); cvc5 says sat" % why
            else:
                why = "z3 unknown (%s); cvc5 unknown %s" % (why, err)
        if r == "unknown" and qf is not None:
            # Neither solver decided the full (quantified) query.  A model of its quantifier-free part is NOT a counter-model of the obligation, but it is a
            # concrete candidate input: it is handed to the native replay, and only a failure of the REAL code on it is ever reported.
            r3, dt3, model3, _ = _check_z3(qf, 4000)
            dt += dt3
            if r3 == "sat":
                return idx, "candidate", backend, dt, model3, why
        return idx, r, backend, dt, model, why
    except Exception as e:  # engine problem: undecided, never a verdict
        return idx, "error", "z3", 0.0, None, "%s: %s" % (type(e).__name__, e)


def discharge(obligations, t_z3_ms=20000, t_cvc5_s=30, procs=None, nosplit=False, double_check=False):
    """obligations: list of engine.Obligation.  Returns dict name -> aggregated result."""
    global DOUBLE_CHECK
    DOUBLE_CHECK = double_check
    jobs = []
    meta = []
    for ob in obligations:
        subs = [(ob.hyps, ob.goal)] if nosplit else split_goal(list(ob.hyps), ob.goal)
        nh = len(ob.hyps)
        tags = list(getattr(ob, "tags", None) or [""] * nh)
        uses = getattr(ob, "uses", None)
        for (h, g) in subs:
            small = None
            if uses is not None:
                keep = []
                for i, x in enumerate(h):
                    t = tags[i] if i < nh else "goal-antecedent"
                    if t in ("path", "input", "goal-antecedent") or any(t.startswith(u) or u in t for u in uses) or not _has_quant(x):
                        keep.append(x)
                small = to_smt2(keep, g)
            qf = None
            if not _has_quant(g):
                qfh = [x for x in h if not _has_quant(x)]
                if len(qfh) < len(h):
                    qf = to_smt2(qfh, g)
            jobs.append((len(jobs), to_smt2(h, g), t_z3_ms, t_cvc5_s, small, qf))
            meta.append(ob)
    procs = procs or min(16, max(1, os.cpu_count() or 1))
    results = []
    if jobs:
        if procs > 1 and len(jobs) > 1:
            with mp.Pool(procs) as pool:
                results = pool.map(_work, jobs, chunksize=1)
        else:
            results = [_work(j) for j in jobs]
    agg = {}
    for (idx, r, backend, dt, model, why) in results:
        ob = meta[idx]
        a = agg.setdefault(ob.name, {"name": ob.name, "kind": ob.kind, "lineno": ob.lineno, "instances": 0, "status": "discharged",
                                     "backend": "z3", "time_s": 0.0, "model": None, "reason": "", "solver_output": "", "prop": bool(getattr(ob, "prop", False))})
        a["instances"] += 1
        a["time_s"] = round(a["time_s"] + dt, 4)
        if r == "unsat":
            if backend == "cvc5":
                a["backend"] = "z3+cvc5"
            elif backend == "z3&cvc5":
                a["confirmed_by_cvc5"] = a.get("confirmed_by_cvc5", 0) + 1
        elif r == "sat" and getattr(ob, "overapprox", None):
            # the path used an over-approximation of the program (e.g. unconstrained comprehension elements): a counter-model may be spurious -> undecided
            if a["status"] == "discharged":
                a["status"] = "undecided"
                a["reason"] = "counter-model only under an over-approximation (%s): not a refutation" % "; ".join(ob.overapprox)[:200]
        elif r == "sat":
            if a["status"] != "failed":
                a["status"] = "failed"
                a["model"] = model
                a["solver_output"] = "sat (z3); goal: %s" % str(ob.goal)[:600]
                a["smt2"] = jobs[idx][1] if len(jobs[idx][1]) < 20000 else None
        else:
            if a["status"] == "discharged":
                a["status"] = "undecided"
                a["reason"] = "%s: %s" % ("unknown" if r == "candidate" else r, why)
            if r == "candidate" and a["status"] == "undecided" and not a.get("candidate_model"):
                a["candidate_model"] = model
                a["solver_output"] = "unknown (z3, cvc5); candidate input from a model of the quantifier-free part; goal: %s" % str(ob.goal)[:600]
    return agg
