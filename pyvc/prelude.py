"""Modelled builtins / numpy / math (the "prelude contracts" of DESIGN.md section 3).  Each entry is a stated
assumption about the Python / numpy semantics; everything not listed here is out of subset."""
import ast
from fractions import Fraction

import z3

from . import values as V
from .values import Seq, SetV, DictV, Obj, ObjSeq, Func, Module, RangeV, OutOfSubset, Opaque, OptV, is_z3

BUILTINS = {"len", "range", "list", "tuple", "max", "min", "abs", "sum", "int", "float", "bool", "map", "zip",
            "enumerate", "sorted", "reversed", "isinstance", "set", "round", "all", "any", "dict", "str", "object"}
MODULES = {"np": "np", "numpy": "np", "math": "math", "itertools": "itertools", "time": "time", "sys": "sys", "logging": "logging", "sklearn": "sklearn", "LA": "np.linalg"}

POW2 = z3.Function("pow2", z3.IntSort(), z3.IntSort())
SUMR = z3.Function("SumR", z3.ArraySort(z3.IntSort(), z3.RealSort()), z3.IntSort(), z3.IntSort(), z3.RealSort())
SUMI = z3.Function("SumI", z3.ArraySort(z3.IntSort(), z3.IntSort()), z3.IntSort(), z3.IntSort(), z3.IntSort())


ROUND = z3.Function("round", z3.RealSort(), z3.IntSort())
PRODR = z3.Function("ProdR", z3.ArraySort(z3.IntSort(), z3.RealSort()), z3.IntSort(), z3.IntSort(), z3.RealSort())
PRODI = z3.Function("ProdI", z3.ArraySort(z3.IntSort(), z3.IntSort()), z3.IntSort(), z3.IntSort(), z3.IntSort())


def prod_axioms():
    """unfolding axioms of the ghost Prod over real arrays (recursion on the upper bound)"""
    a = z3.Const("pa", z3.ArraySort(z3.IntSort(), z3.RealSort()))
    lo, hi = z3.Ints("plo phi")
    return [z3.ForAll([a, lo], PRODR(a, lo, lo) == 1, patterns=[PRODR(a, lo, lo)]),
            z3.ForAll([a, lo, hi], z3.Implies(hi > lo, PRODR(a, lo, hi) == PRODR(a, lo, hi - 1) * z3.Select(a, hi - 1)), patterns=[PRODR(a, lo, hi)])]


_CARD = {}


def card_of(dom):
    """ghost cardinality of a set given by its characteristic array (one uninterpreted function per key sort)"""
    srt = dom.sort()
    f = _CARD.get(str(srt))
    if f is None:
        f = _CARD[str(srt)] = z3.Function("card!%d" % len(_CARD), srt, z3.IntSort())
    return f(dom)


SQRTF = z3.Function("sqrt", z3.RealSort(), z3.RealSort())


def sqrt_term(ex, xz):
    """the real square root as an uninterpreted function with the defining instance  sqrt(x) >= 0 and sqrt(x)^2 == x  for this argument"""
    r = SQRTF(xz)
    ex.assume(z3.Implies(xz >= 0, z3.And(r >= 0, r * r == xz)), "def:sqrt")
    return r


def norm_term(ex, items, ordv):
    """numpy.linalg.norm of a vector with concretely many entries: ord 1 = sum of absolute values, ord None/2 = sqrt of the sum of squares, ord inf = largest absolute value"""
    zs = [V.to_z3(V.bool_to_int(x), True) for x in items]
    ab = [z3.If(x >= 0, x, -x) for x in zs]
    if isinstance(ordv, V.Inf):
        m = ab[0]
        for x in ab[1:]:
            m = z3.If(m >= x, m, x)
        return m
    if ordv == 1:
        return z3.simplify(sum(ab[1:], ab[0]))
    if ordv in (None, 2):
        return sqrt_term(ex, sum([x * x for x in zs][1:], zs[0] * zs[0]))
    raise OutOfSubset("norm order %r" % (ordv,))


def sum_axioms():
    """unfolding axioms of the ghost Sum over real arrays (definition by recursion on the upper bound)"""
    a = z3.Const("sa", z3.ArraySort(z3.IntSort(), z3.RealSort()))
    lo, hi = z3.Ints("slo shi")
    return [z3.ForAll([a, lo], SUMR(a, lo, lo) == 0, patterns=[SUMR(a, lo, lo)]),
            z3.ForAll([a, lo, hi], z3.Implies(hi > lo, SUMR(a, lo, hi) == SUMR(a, lo, hi - 1) + z3.Select(a, hi - 1)), patterns=[SUMR(a, lo, hi)])]


def global_name(name, ex):
    if name in BUILTINS:
        return Func("builtin", name)
    if name in MODULES:
        return Module(MODULES[name])
    if name == "product":
        return Func("builtin", "itertools.product")
    if name in ("isclose", "isinf", "sqrt", "floor", "ceil", "log2"):
        return Func("builtin", "math." + name)
    if name in ("True", "False", "None"):
        return {"True": True, "False": False, "None": None}[name]
    if ex.book.has_class(name):
        return Func("class", name)
    if ex.book.has_function(name):
        return Func("repo", name)
    if name in ("List", "Tuple", "Sequence", "Set", "Dict", "Callable", "Union", "Optional"):
        return Module("typing")
    return None


def module_attr(ex, mod, attr, node):
    if mod.name == "np":
        if attr == "inf":
            return V.Inf(1)
        if attr == "pi":
            raise OutOfSubset("np.pi", node)
        if attr in ("float64", "float32", "float_"):
            return Func("builtin", "float")
        if attr in ("int64", "int32", "int_"):
            return Func("builtin", "int")
        if attr == "linalg":
            return Module("np.linalg")
        return Func("builtin", "np." + attr)
    if mod.name == "math":
        if attr == "inf":
            return V.Inf(1)
        return Func("builtin", "math." + attr)
    if mod.name == "itertools":
        return Func("builtin", "itertools." + attr)
    if mod.name == "time":
        return Func("builtin", "time." + attr)
    if mod.name == "np.linalg":
        return Func("builtin", "np.linalg." + attr)
    if mod.name == "sklearn":
        return Module("sklearn." + attr)
    if mod.name.startswith("sklearn."):
        return Func("builtin", mod.name + "." + attr)
    raise OutOfSubset("%s.%s" % (mod.name, attr), node)


def value_attr(ex, o, attr, node):
    if isinstance(o, Seq):
        if attr == "shape":
            return Seq("tuple", [o.len()])
        if attr == "size":
            return o.len()
        if attr == "T":
            return o
    return Func("valuemethod", o, attr)


def pow2(ex, k, node):
    ex.safety("pow2-exponent-nonneg", V.to_z3(k) >= 0, node)
    if isinstance(k, int):
        return 2 ** k
    t = POW2(V.to_z3(k))
    # quantifier-free instances of  pow2(0)=1, pow2(j+1)=2*pow2(j), pow2(j)>=1  (the recursive axiom itself is only added when the
    # sidecar asks for it: quantifiers make refutations come back as `unknown`)
    ex.assume(t >= 1, "def:pow2")
    ex.assume(z3.Implies(V.to_z3(k) == 0, t == 1), "def:pow2")
    ex.assume(z3.Implies(V.to_z3(k) >= 1, z3.And(t == 2 * POW2(V.to_z3(k) - 1), POW2(V.to_z3(k) - 1) >= 1)), "def:pow2")
    return t


def _num(ex, v, node):
    if isinstance(v, Seq) and v.concrete and len(v.items) == 1:
        return v.items[0]
    return v


def _minmax(ex, name, xs, node):
    xs = [V.bool_to_int(x) for x in xs]
    if not xs:
        ex.safety("%s-of-empty" % name, False, node)
        raise OutOfSubset("%s of empty" % name, node)
    if all(not is_z3(x) for x in xs):
        return max(xs) if name == "max" else min(xs)
    real = any(V.is_real(x) for x in xs)
    r = V.to_z3(xs[0], real)
    for x in xs[1:]:
        xz = V.to_z3(x, real)
        r = z3.If(xz > r, xz, r) if name == "max" else z3.If(xz < r, xz, r)
    return r


def call_builtin(ex, name, args, kwargs, node):
    S = ex.S
    if name in ("time.perf_counter", "time.time", "time.time_ns"):
        return S.real("clock")       # an arbitrary real: nothing is assumed about the clock
    if name == "pyvc.call_through":
        # LogUtility.time_func(msg, fn, *args): calls fn(*args) exactly once and returns its result (assumed of Utils.LogUtility)
        return ex.call(args[1], list(args[2:]), {}, node)
    if name == "np.isscalar":
        (x,) = args
        if isinstance(x, OptV):
            x = x.val
        if isinstance(x, Opaque):
            return ISSCALAR(x.term)
        if V.is_num(x):
            return True
        if isinstance(x, (Seq, Obj)):
            return False
        raise OutOfSubset("np.isscalar(%r)" % (x,), node)
    if name in ("tuple", "np.array", "np.asarray", "len") and args and isinstance(args[0], OptV):
        args = [args[0].val] + list(args[1:])
    if name in ("tuple", "np.array", "np.asarray") and args and isinstance(args[0], Opaque):
        return Opaque((TUPLE_OF if name == "tuple" else ARRAY_OF)(args[0].term))
    if name in ("np.array", "np.asarray") and args and isinstance(args[0], Seq) and args[0].concrete and len(args[0].items) == 1 \
            and isinstance(args[0].items[0], (Opaque, OptV)):
        it = args[0].items[0]
        it = it.val if isinstance(it, OptV) else it
        return Opaque(ARRAY_OF(LIST1(it.term)))
    if name == "len" and args and isinstance(args[0], Opaque) and getattr(args[0], "shape", None):
        return args[0].shape[0]
    if name == "len" and args and isinstance(args[0], Opaque):
        return LEN(args[0].term)
    if name == "len" and args and isinstance(args[0], Seq) and args[0].concrete and len(args[0].items) == 1 and isinstance(args[0].items[0], (Opaque, OptV)):
        return 1
    if name == "len":
        (x,) = args
        if isinstance(x, (Seq, ObjSeq, V.TupleSeq)):
            return x.len()
        if isinstance(x, DictV):
            # number of keys: the ghost cardinality of the key set (a non-negative integer; equal key sets have equal cardinality by congruence)
            c = card_of(x.dom)
            ex.assume(c >= 0, "def:card")
            return c
        raise OutOfSubset("len of %r" % (x,), node)
    if name == "np.diag_indices_from":
        m = args[0]
        if isinstance(m, Seq) and m.concrete and all(isinstance(r_, Seq) and r_.concrete and len(r_.items) == len(m.items) for r_ in m.items):
            return V.DiagIndex(len(m.items))
        raise OutOfSubset("np.diag_indices_from of %r" % (m,), node)
    if name == "np.array_equal":
        # np.array_equal(a, b) of two 1-D sequences: same length and the same elements position by position (None is equal to nothing)
        a_, b_ = (args + [None, None])[:2]
        if a_ is None or b_ is None:
            return False
        if isinstance(a_, Seq) and isinstance(b_, Seq):
            sa, sb = a_.to_symbolic(), b_.to_symbolic()
            if sa.arr.sort() != sb.arr.sort():
                raise OutOfSubset("np.array_equal of sequences with different element sorts", node)
            q = z3.Int("ae!%d" % len(ex.trace))
            la, lb = V.to_z3(sa.len()), V.to_z3(sb.len())
            return z3.And(la == lb, z3.ForAll([q], z3.Implies(z3.And(q >= 0, q < la), z3.Select(sa.arr, q) == z3.Select(sb.arr, q))))
        raise OutOfSubset("np.array_equal of %r, %r" % (a_, b_), node)
    if name == "np.concatenate":
        # np.concatenate((a, b, ...)) of 1-D sequences (rows of a 2-D sample array count as elements, axis=0): the concatenation in order
        parts = args[0] if args else None
        ax = kwargs.get("axis", args[1] if len(args) > 1 else 0)
        if isinstance(parts, Seq) and parts.concrete and len(parts.items) >= 1 and all(isinstance(p_, Seq) for p_ in parts.items) and ax == 0:
            out = parts.items[0]
            if len(parts.items) == 1:
                return Seq("array", None, out.to_symbolic().len(), out.to_symbolic().arr)
            for p_ in parts.items[1:]:
                out = ex.seq_concat(out, p_, node)
            out.kind = "array"
            return out
        raise OutOfSubset("np.concatenate of %r" % (parts,), node)
    if name == "range":
        if len(args) == 1:
            return RangeV(0, args[0])
        if len(args) == 2:
            return RangeV(args[0], args[1])
        if len(args) == 3 and isinstance(args[2], int):
            return RangeV(args[0], args[1], args[2])
        raise OutOfSubset("range", node)
    if name in ("list", "tuple", "np.array", "np.asarray", "np.copy"):
        kind = {"list": "list", "tuple": "tuple"}.get(name, "array")
        if not args:
            return Seq(kind, [])
        x = args[0]
        if isinstance(x, Seq) and name == "np.asarray" and x.kind == "array" and "dtype" not in kwargs:
            return x                      # np.asarray of an ndarray is the SAME object (no copy): aliasing is preserved
        if isinstance(x, Seq):
            return x.copy(kind)
        if isinstance(x, RangeV) and all(isinstance(t, int) for t in (x.lo, x.hi, x.step)):
            return Seq(kind, list(range(x.lo, x.hi, x.step)))
        if isinstance(x, list):
            return Seq(kind, list(x))
        if V.is_num(x) and kind == "array":
            return x
        raise OutOfSubset("%s(%r)" % (name, x), node)
    if name in ("max", "min"):
        if len(args) == 1 and isinstance(args[0], Seq) and args[0].concrete:
            return _minmax(ex, name, args[0].items, node)
        if len(args) >= 2:
            return _minmax(ex, name, args, node)
        raise OutOfSubset("%s over symbolic sequence" % name, node)
    if name == "np.square":
        (x,) = args
        return ex.binop(ast.Mult(), x, x, node)
    if name in ("np.abs", "np.absolute") and isinstance(args[0], Seq):
        x = args[0]
        if not x.concrete:
            raise OutOfSubset("np.abs of a symbolic array", node)
        vals = [call_builtin(ex, "abs", [it], {}, node) for it in x.items]
        out = kwargs.get("out")
        if out is not None:
            if not (isinstance(out, Seq) and out.concrete and len(out.items) == len(vals)):
                raise OutOfSubset("np.abs(..., out=...) with a non-matching output array", node)
            out.items[:] = vals          # written in place
            return out
        return Seq("array", vals)
    if name == "abs" and isinstance(args[0], Seq) and args[0].concrete:
        return Seq("array", [call_builtin(ex, "abs", [it], {}, node) for it in args[0].items])
    if name in ("abs", "np.abs", "math.fabs", "np.absolute"):
        (x,) = args
        x = V.bool_to_int(x)
        if not is_z3(x):
            return abs(x)
        return z3.If(x >= 0, x, -x)
    if name == "sum":
        x = args[0]
        if isinstance(x, Seq) and x.concrete:
            r = args[1] if len(args) > 1 else 0
            for it in x.items:
                r = ex.binop(ast.Add(), r, it, node)
            return r
        if isinstance(x, Seq) and len(args) == 1:
            # ghost Sum: an uninterpreted function of (array, lo, hi); unfolding axioms are supplied by sidecar lemmas where needed
            rs = x.arr.sort().range()
            f = SUMR if rs == z3.RealSort() else SUMI
            ex.assumed.append("sum() over a symbolic sequence is the ghost function Sum(arr,0,len) (no unfolding unless the sidecar adds it)")
            return f(x.arr, z3.IntVal(0), V.to_z3(x.len()))
        raise OutOfSubset("sum over symbolic sequence", node)
    if name in ("int",):
        (x,) = args
        if V.is_int(x) or isinstance(x, bool):
            return V.bool_to_int(x)
        if isinstance(x, Fraction) and x.denominator == 1:
            return int(x)
        if is_z3(x) and z3.is_bool(x):
            return V.bool_to_int(x)
        if isinstance(x, Fraction):
            return int(x)             # truncation towards zero, as Python
        if is_z3(x) and z3.is_real(x):
            # int(x) of a real: truncation towards zero (floor for x >= 0, -floor(-x) otherwise)
            return z3.If(x >= 0, z3.ToInt(x), -z3.ToInt(-x))
        raise OutOfSubset("int() of a real", node)
    if name in ("float", "np.float64"):
        (x,) = args
        x = V.bool_to_int(x)
        if isinstance(x, int):
            return Fraction(x)
        if is_z3(x) and z3.is_int(x):
            return z3.ToReal(x)
        return x
    if name == "bool":
        return ex.truth(args[0])
    if name == "map":
        f = args[0]
        seqs = [ex.concrete_items(a, node) if not isinstance(a, Seq) or a.concrete else None for a in args[1:]]
        if any(s is None for s in seqs):
            return vector_map(ex, f, args[1:], node)
        return [ex.call(f, list(t), {}, node) for t in zip(*seqs)]
    if name == "zip":
        if args and all(isinstance(a, Seq) for a in args) and any(not a.concrete for a in args):
            return V.ZipV(args)
        seqs = [ex.concrete_items(a, node) for a in args]
        return [Seq("tuple", list(t)) for t in zip(*seqs)]
    if name == "enumerate":
        items = ex.concrete_items(args[0], node)
        return [Seq("tuple", [i, x]) for i, x in enumerate(items)]
    if name == "reversed":
        return list(reversed(ex.concrete_items(args[0], node)))
    if name == "isinstance":
        # floats are modelled as reals and ints as mathematical integers: the two type tests that the encoding itself decides
        if len(args) == 2 and isinstance(args[1], Func) and args[1].kind == "builtin":
            x, t = V.bool_to_int(args[0]) if not isinstance(args[0], bool) else args[0], args[1].a[0]
            if t == "float" and not isinstance(x, bool) and (V.is_real(x) or isinstance(x, Fraction)):
                return True
            if t == "int" and not isinstance(x, bool) and V.is_int(x):
                return True
        raise OutOfSubset("isinstance", node)
    if name == "set":
        if not args:
            raise OutOfSubset("set() literal without declared key sort", node)
        if isinstance(args[0], V.SetV):
            return V.SetV(args[0].arr)        # set(s) of a set: a copy with the same elements
        raise OutOfSubset("set(iterable)", node)
    if name == "all" or name == "any":
        if isinstance(args[0], Seq) and not args[0].concrete:
            # all / any over a sequence of symbolic length (e.g. a list comprehension of conditions over a symbolic list): a bounded quantifier over the positions
            sq = args[0]
            q = z3.Int("aa!%d" % len(ex.trace))
            el = z3.Select(sq.arr, q)
            holds = el if z3.is_bool(el) else el != 0
            rng_ = z3.And(q >= 0, q < V.to_z3(sq.len()))
            return z3.ForAll([q], z3.Implies(rng_, holds)) if name == "all" else z3.Exists([q], z3.And(rng_, holds))
        items = ex.concrete_items(args[0], node)
        ts = [ex.truth(x) for x in items]
        if name == "all":
            return ex.and_(ts)
        ts2 = [t for t in ts if t is not False]
        if any(t is True for t in ts2):
            return True
        return z3.Or(*ts2) if ts2 else False
    if name in ("math.isclose", "np.isclose"):
        a, b = args[0], args[1]
        if isinstance(a, V.Inf) or isinstance(b, V.Inf):
            return isinstance(a, V.Inf) and isinstance(b, V.Inf) and a.sign == b.sign
        rel = kwargs.get("rel_tol", kwargs.get("rtol", Fraction(1, 10 ** 9) if name == "math.isclose" else Fraction(1, 10 ** 5)))
        abs_ = kwargs.get("abs_tol", kwargs.get("atol", 0 if name == "math.isclose" else Fraction(1, 10 ** 8)))
        x, y, _ = V.coerce_pair(a, b)
        x, y = (z3.ToReal(x) if z3.is_int(x) else x), (z3.ToReal(y) if z3.is_int(y) else y)
        d = z3.If(x - y >= 0, x - y, y - x)
        ax = z3.If(x >= 0, x, -x)
        ay = z3.If(y >= 0, y, -y)
        if name == "math.isclose":
            m = z3.If(ax >= ay, ax, ay)
            bound = V.to_z3(rel, True) * m
            at = V.to_z3(abs_, True)
            return d <= z3.If(bound >= at, bound, at)
        return d <= V.to_z3(abs_, True) + V.to_z3(rel, True) * ay
    if name in ("math.isinf", "np.isinf"):
        return isinstance(args[0], V.Inf)
    if name in ("np.zeros", "np.ones") and isinstance(args[0], Seq) and args[0].concrete and len(args[0].items) == 2 \
            and all(isinstance(x_, int) and not isinstance(x_, bool) and 0 <= x_ <= 8 for x_ in args[0].items) and kwargs.get("dtype") is None:
        # small 2-D array with concrete shape: a list of rows with element-wise content (M[i, j] reads and writes are exact)
        c = Fraction(0 if name == "np.zeros" else 1)
        return Seq("array", [Seq("array", [c for _ in range(args[0].items[1])]) for _ in range(args[0].items[0])])
    if name in ("np.zeros", "np.ones", "np.empty") and isinstance(args[0], Seq) and args[0].concrete and len(args[0].items) >= 2:
        # multi-dimensional array: an opaque python value (no element-wise reasoning); the shape is remembered (len(), lstsq)
        o = Opaque(S.const("ndarray", U))
        o.shape = tuple(args[0].items)
        return o
    if name in ("np.zeros", "np.ones", "np.empty"):
        n = args[0]
        if isinstance(n, Seq) and n.concrete and len(n.items) == 1:
            n = n.items[0]
        if not V.is_int(n):
            raise OutOfSubset("%s with non-scalar shape" % name, node)
        intd = kwargs.get("dtype") is not None and isinstance(kwargs.get("dtype"), Func) and kwargs["dtype"].a[0] == "int"
        if name == "np.empty":
            arr = S.array("empty", z3.IntSort(), z3.IntSort() if intd else z3.RealSort())
        else:
            c = 0 if name == "np.zeros" else 1
            arr = z3.K(z3.IntSort(), z3.IntVal(c) if intd else z3.RealVal(c))
        if isinstance(n, int) and n <= 32 and name != "np.empty":
            c = 0 if name == "np.zeros" else 1
            return Seq("array", [c if intd else Fraction(c) for _ in range(n)])
        return Seq("array", None, n, arr)
    if name == "np.linalg.norm":
        v = args[0]
        if not (isinstance(v, Seq) and v.concrete and v.items):
            raise OutOfSubset("norm of a vector of symbolic length", node)
        ordv = args[1] if len(args) > 1 else kwargs.get("ord")
        if isinstance(ordv, Fraction) and ordv.denominator == 1:
            ordv = int(ordv)
        return norm_term(ex, v.items, ordv)
    if name == "np.linalg.lstsq":
        # least-squares solve: the solution is some real vector with one entry per column of the matrix; nothing else is assumed about it
        A = args[0]
        shape = getattr(A, "shape", None)
        if not (isinstance(A, Opaque) and shape and len(shape) == 2):
            raise OutOfSubset("np.linalg.lstsq of a matrix of unknown shape", node)
        ex.assumed.append("np.linalg.lstsq returns a real vector with one entry per matrix column (its values are unconstrained)")
        sol = Seq("array", None, shape[1], S.array("lstsq", z3.IntSort(), z3.RealSort()))
        ex.lstsq_solution = Seq("array", None, shape[1], sol.arr)      # ghost handle for the sidecar (the program may rebind its variable)
        return Seq("tuple", [sol, Opaque(S.const("lstsq.res", U)), Opaque(S.const("lstsq.rank", U)), Opaque(S.const("lstsq.sv", U))])
    if name == "sklearn.metrics.mean_squared_error":
        m = S.real("mse")
        ex.assume(m > 0, "A-MSE-POS")
        ex.assumed.append("A-MSE-POS: sklearn.metrics.mean_squared_error returns a positive real (a perfect fit, error 0, makes the library divide by zero)")
        return m
    if name == "np.linspace":
        a, b, n = args[0], args[1], args[2]
        arr = S.array("linspace", z3.IntSort(), z3.RealSort())
        i = z3.Int("lsi")
        nz = V.to_z3(n)
        az, bz = V.to_z3(a, True), V.to_z3(b, True)
        if kwargs.get("endpoint", True) is True:
            ex.assume(z3.ForAll([i], z3.Implies(z3.And(i >= 0, i < nz), z3.Select(arr, i) * z3.ToReal(nz - 1) == az * z3.ToReal(nz - 1) + z3.ToReal(i) * (bz - az))))
            ex.assumed.append("np.linspace(a,b,n)[i] == a + i*(b-a)/(n-1) (prelude contract)")
        else:
            raise OutOfSubset("linspace endpoint=False", node)
        return Seq("array", None, n, arr)
    if name in ("math.sqrt", "np.sqrt"):
        (x,) = args
        xz = V.to_z3(V.bool_to_int(x), True)
        ex.safety("sqrt-nonneg", xz >= 0, node)
        return sqrt_term(ex, xz)
    if name in ("math.floor", "math.ceil", "np.floor", "np.ceil"):
        (x,) = args
        if V.is_int(x):
            return x
        xz = V.to_z3(x, True)
        f = z3.ToInt(xz)
        if name.endswith("floor"):
            return f
        return z3.If(z3.ToReal(f) == xz, f, f + 1)
    if name == "math.log2":
        (x,) = args
        if V.is_int(x):
            r = S.int("log2")
            ex.assumed.append("math.log2(n) modelled only through pow2(result)==n for exact powers (uninterpreted otherwise)")
            return z3.ToReal(r)
        raise OutOfSubset("log2 of real", node)
    if name in ("np.prod", "np.sum", "np.inner", "np.dot"):
        return reduce_op(ex, name, args, node)
    if name == "itertools.product":
        seqs = [ex.concrete_items(a, node) for a in args]
        import itertools
        n = 1
        for s in seqs:
            n *= len(s)
        if n > 64:
            raise OutOfSubset("itertools.product too large", node)
        return [Seq("tuple", list(t)) for t in itertools.product(*seqs)]
    if name == "round" and len(args) == 1:
        (x,) = args
        if V.is_int(x):
            return x
        if isinstance(x, Fraction):
            return round(x)
        xz = V.to_z3(x, True)
        r = ROUND(xz)
        ex.assume(z3.And(z3.ToReal(r) >= xz - z3.RealVal("1/2"), z3.ToReal(r) <= xz + z3.RealVal("1/2")), "def:round")
        ex.assumed.append("round(x) is a deterministic integer within 1/2 of x (ties unspecified)")
        return r
    if name == "round":
        raise OutOfSubset("round with ndigits", node)
    if name == "sorted":
        raise OutOfSubset("sorted", node)
    raise OutOfSubset("builtin %s" % name, node)


def reduce_op(ex, name, args, node):
    if name in ("np.prod", "np.sum"):
        x = args[0]
        if isinstance(x, Seq) and x.concrete:
            r = 1 if name == "np.prod" else 0
            for it in x.items:
                r = ex.binop(ast.Mult() if name == "np.prod" else ast.Add(), r, it, node)
            return r
    if name in ("np.inner", "np.dot"):
        a, b = args
        if isinstance(a, Seq) and isinstance(b, Seq) and a.concrete and b.concrete and len(a.items) == len(b.items):
            r = 0
            for x, y in zip(a.items, b.items):
                r = ex.binop(ast.Add(), r, ex.binop(ast.Mult(), x, y, node), node)
            return r
    if name in ("np.prod", "np.sum") and isinstance(args[0], Seq) and not args[0].concrete:
        x = args[0]
        rs = x.arr.sort().range()
        if name == "np.sum":
            return (SUMR if rs == z3.RealSort() else SUMI)(x.arr, z3.IntVal(0), V.to_z3(x.len()))
        if rs == z3.IntSort():
            return PRODI(x.arr, z3.IntVal(0), V.to_z3(x.len()))
    raise OutOfSubset("%s over symbolic sequence (needs a ghost Sum; use a contract)" % name, node)


def vector_map(ex, f, seqs, node):
    """map(lambda x,y: ..., u, v) over symbolic sequences of equal length: pointwise array (lambda must be a
    pure arithmetic expression).  Returned as a list-like Seq; `tuple(map(...))` is the typical use."""
    ss = [s.to_symbolic() if isinstance(s, Seq) else None for s in seqs]
    if any(s is None for s in ss):
        raise OutOfSubset("map over %r" % (seqs,), node)
    n = ss[0].len()
    for s in ss[1:]:
        ex.safety("map-equal-lengths", V.to_z3(s.len()) == V.to_z3(n), node)
    i = z3.Int("mapi")
    vals = [z3.Select(s.arr, i) for s in ss]
    body = ex.call(f, vals, {}, node)
    bz = V.to_z3(body)
    arr = ex.S.array("map", z3.IntSort(), bz.sort())
    ex.assume(z3.ForAll([i], z3.Select(arr, i) == z3.If(z3.And(i >= 0, i < V.to_z3(n)), bz, z3.IntVal(0) if bz.sort() == z3.IntSort() else z3.RealVal(0))))
    return Seq("list", None, n, arr)


def elementwise(ex, op, a, b, node):
    def items(x, n):
        if isinstance(x, Seq):
            return x.items
        return [x] * n
    if isinstance(a, Seq) and isinstance(b, Seq):
        if a.concrete and b.concrete:
            if len(a.items) != len(b.items):
                raise OutOfSubset("broadcast of different lengths", node)
            return Seq("array", [ex.binop(op, x, y, node) for x, y in zip(a.items, b.items)])
    elif isinstance(a, Seq) and a.concrete:
        return Seq("array", [ex.binop(op, x, b, node) for x in a.items])
    elif isinstance(b, Seq) and b.concrete:
        return Seq("array", [ex.binop(op, a, y, node) for y in b.items])
    # symbolic arrays: pointwise definition
    sa = a.to_symbolic() if isinstance(a, Seq) else None
    sb = b.to_symbolic() if isinstance(b, Seq) else None
    n = (sa or sb).len()
    if sa is not None and sb is not None:
        ex.safety("broadcast-equal-lengths", V.to_z3(sa.len()) == V.to_z3(sb.len()), node)
    i = z3.Int("ewi")
    x = z3.Select(sa.arr, i) if sa is not None else a
    y = z3.Select(sb.arr, i) if sb is not None else b
    saved = len(ex.obligations)
    if isinstance(op, ast.Div) and sb is None and V.is_num(b):
        # array / scalar: one safety condition on the scalar (numpy would not raise but produce inf/nan: outside the real-number model)
        ex.safety("div", V.to_z3(V.bool_to_int(b)) != 0, node)
        saved = len(ex.obligations)
        ex.pc.append(V.to_z3(V.bool_to_int(b)) != 0)
        ex.pc_tags.append("path")
        try:
            body = ex.binop(op, x, y, node)
        finally:
            ex.pc.pop()
            ex.pc_tags.pop()
        del ex.obligations[saved:]
    else:
        body = ex.binop(op, x, y, node)
    if len(ex.obligations) != saved:
        raise OutOfSubset("element-wise operation with safety condition (division) on symbolic arrays", node)
    bz = V.to_z3(body)
    arr = ex.S.array("ew", z3.IntSort(), bz.sort())
    ex.assume(z3.ForAll([i], z3.Implies(z3.And(i >= 0, i < V.to_z3(n)), z3.Select(arr, i) == bz)))
    return Seq("array", None, n, arr)


U = z3.DeclareSort("PyVal")       # opaque python values (points, numpy arrays, user results)
ISSCALAR = z3.Function("np.isscalar", U, z3.BoolSort())
ITEM = z3.Function("item", U, z3.IntSort(), U)
TUPLE_OF = z3.Function("tuple", U, U)
ARRAY_OF = z3.Function("np.array", U, U)
LIST1 = z3.Function("list1", U, U)
LEN = z3.Function("len", U, z3.IntSort())


def opaque_item(ex, base, idx, node):
    o = Opaque(ITEM(base.term, V.to_z3(idx)))
    o.root = getattr(base, "root", base)      # the n-d array this row / entry belongs to (a store havocs the whole array)
    return o


def opaque_binop(ex, op, a, b, node):
    raise OutOfSubset("arithmetic on opaque values", node)


def call_value_method(ex, o, name, args, kwargs, node):
    S = ex.S
    if isinstance(o, Seq):
        if name == "append":
            ex.seq_append(o, args[0], node)
            return None
        if name == "extend":
            ex.seq_extend(o, args[0], node)
            return None
        if name == "copy":
            return o.copy()
        if name == "tolist":
            return o.copy("list")
        if name == "index" and o.concrete:
            for i, x in enumerate(o.items):
                if ex.decide(ex.truth(ex.compare(ast.Eq(), x, args[0], node))):
                    return i
            raise OutOfSubset("index() of a missing element (ValueError)", node)
        if name == "pop" and o.concrete and (not args or isinstance(args[0], int)):
            return o.items.pop(*args)
        if name == "insert" and o.concrete and isinstance(args[0], int):
            o.items.insert(args[0], args[1])
            return None
        if name == "sort" and o.concrete and not args and not kwargs and len(o.items) <= 3 and all(V.is_num(x) and not isinstance(x, bool) for x in o.items):
            # in-place ascending sort of a list of at most three numbers: a min/max network (no path split)
            its = [V.to_z3(x, True) if (V.is_real(x) or any(V.is_real(y) for y in o.items)) else V.to_z3(x) for x in o.items]
            mn = lambda a, b: z3.If(a <= b, a, b)   # noqa
            mx = lambda a, b: z3.If(a <= b, b, a)   # noqa
            if len(its) == 2:
                its = [mn(its[0], its[1]), mx(its[0], its[1])]
            elif len(its) == 3:
                a, b, c = its
                lo, hi = mn(mn(a, b), c), mx(mx(a, b), c)
                its = [lo, a + b + c - lo - hi, hi]
            o.items[:] = its
            return None
        if name == "fill":
            if not o.concrete:
                o.arr = z3.K(z3.IntSort(), V.to_z3(args[0], o.arr.sort().range() == z3.RealSort()))
            else:
                o.items = [args[0]] * len(o.items)
            return None
    if isinstance(o, SetV):
        ks = o.arr.sort().domain()
        if name == "add":
            o.arr = z3.Store(o.arr, ex.as_key(args[0], ks), z3.BoolVal(True))
            return None
        if name == "remove":
            k = ex.as_key(args[0], ks)
            ex.safety("remove-present", z3.Select(o.arr, k), node)
            o.arr = z3.Store(o.arr, k, z3.BoolVal(False))
            return None
        if name == "discard":
            o.arr = z3.Store(o.arr, ex.as_key(args[0], ks), z3.BoolVal(False))
            return None
        if name == "copy":
            return o.copy()
    if isinstance(o, ObjSeq) and name == "extend":
        items = ex.concrete_items(args[0], node)
        for it in items:
            call_value_method(ex, o, "append", [it], {}, node)
        return None
    if isinstance(o, ObjSeq) and name == "append":
        x = args[0]
        if not isinstance(x, Obj):
            raise OutOfSubset("append of %r to an object list" % (x,), node)
        n = V.to_z3(o.length)
        for f in o.fields:
            if isinstance(o.fields[f], (list, tuple)):
                sub = x.fields.get(f)
                if not (isinstance(sub, Seq) and sub.concrete and len(sub.items) == len(o.fields[f])):
                    raise OutOfSubset("append: list-valued field %s does not match" % f, node)
                o.fields[f] = [z3.Store(a, n, V.to_z3(V.bool_to_int(v), a.sort().range() == z3.RealSort())) for a, v in zip(o.fields[f], sub.items)]
                continue
            rs = o.fields[f].sort().range()
            val = x.fields.get(f)
            if val is None:
                # field absent or None on the new object (e.g. benefit of a freshly created interval): an arbitrary value of the field's sort
                val = S.const("new.%s" % f, rs)
            if isinstance(val, Seq):
                val = val.to_symbolic().arr
            o.fields[f] = z3.Store(o.fields[f], n, val if is_z3(val) and val.sort() == rs else V.to_z3(V.bool_to_int(val), rs == z3.RealSort()))
        o.length = o.length + 1 if isinstance(o.length, int) else z3.simplify(n + 1)
        return None
    if isinstance(o, DictV) and name == "items":
        from .values import DictItems
        return DictItems(o)
    if isinstance(o, DictV):
        if name == "get":
            k = ex.as_key(args[0], o.dom.sort().domain())
            dflt = args[1] if len(args) > 1 else None
            if dflt is None:
                v = z3.Select(o.val, k)
                return OptV(z3.Not(z3.Select(o.dom, k)), Opaque(v) if v.sort() == U else v)
            return z3.If(z3.Select(o.dom, k), z3.Select(o.val, k), V.to_z3(dflt, o.val.sort().range() == z3.RealSort()))
    raise OutOfSubset("method %s of %r" % (name, o), node)
