"""Value domain of the pyvc symbolic executor.

Concrete Python values (int, bool, Fraction, None, str) are kept concrete as long as possible; symbolic ones are
z3 terms.  Floats are *reals* (assumption A-REAL): a float literal becomes the exact Fraction of its decimal
spelling.  Sequences and objects are mutable boxes with identity (so Python aliasing is modelled), z3 terms are
immutable and shared.
"""
import itertools
from fractions import Fraction

import z3

_fresh = itertools.count()


class OutOfSubset(Exception):
    """The construct is not modelled: the function is not proved (never a violation)."""

    def __init__(self, msg, node=None):
        self.lineno = getattr(node, "lineno", None)
        super().__init__("%s%s" % (msg, " @L%s" % self.lineno if self.lineno else ""))


def fresh_name(base):
    return "%s!%d" % (base, next(_fresh))


def is_z3(v):
    return isinstance(v, z3.ExprRef)


def is_num(v):
    return (isinstance(v, (int, Fraction)) and not isinstance(v, bool)) or isinstance(v, bool) or (is_z3(v) and z3.is_arith(v))


def to_z3(v, want_real=False):
    if is_z3(v):
        if want_real and z3.is_int(v):
            return z3.ToReal(v)
        if z3.is_bool(v) and want_real is not None and False:
            return v
        return v
    if isinstance(v, bool):
        return z3.BoolVal(v)
    if isinstance(v, int):
        return z3.RealVal(v) if want_real else z3.IntVal(v)
    if isinstance(v, Fraction):
        return z3.RealVal(str(v)) if True else None
    if isinstance(v, float):
        return z3.RealVal(str(Fraction(repr(v))))
    if isinstance(v, Opaque):       # an opaque python value is its term of the uninterpreted sort (storing it in a sequence of such values)
        return v.term
    raise OutOfSubset("cannot convert %r to an SMT term" % (v,))


def num_const(v):
    """Python literal -> concrete value of the executor."""
    if isinstance(v, float):
        if v != v or v in (float("inf"), float("-inf")):
            return Inf(1 if v > 0 else -1) if v == v else OutOfSubsetValue("nan")
        f = Fraction(repr(v))
        return f.numerator if f.denominator == 1 and False else f
    return v


class Inf:
    """+-infinity marker (np.inf, math.inf); only comparisons and isinf are modelled."""

    def __init__(self, sign):
        self.sign = sign

    def __repr__(self):
        return "+inf" if self.sign > 0 else "-inf"


class OutOfSubsetValue:
    def __init__(self, why):
        self.why = why


def is_real(v):
    return isinstance(v, Fraction) or (is_z3(v) and z3.is_real(v))


def is_int(v):
    return (isinstance(v, int) and not isinstance(v, bool)) or (is_z3(v) and z3.is_int(v))


def is_bool(v):
    return isinstance(v, bool) or (is_z3(v) and z3.is_bool(v))


def bool_to_int(v):
    if isinstance(v, bool):
        return int(v)
    if is_z3(v) and z3.is_bool(v):
        return z3.If(v, z3.IntVal(1), z3.IntVal(0))
    return v


def coerce_pair(a, b):
    a, b = bool_to_int(a), bool_to_int(b)
    real = is_real(a) or is_real(b)
    return to_z3(a, real), to_z3(b, real), real


def sort_of(v):
    if is_z3(v):
        return v.sort()
    if isinstance(v, bool):
        return z3.BoolSort()
    if isinstance(v, int):
        return z3.IntSort()
    if isinstance(v, Fraction):
        return z3.RealSort()
    raise OutOfSubset("no SMT sort for %r" % (v,))


# ------------------------------------------------------------------------------------------------
# boxes
# ------------------------------------------------------------------------------------------------
class Seq:
    """list / tuple / 1-D ndarray.  Either concrete length (items: python list of values) or symbolic
    (length: z3 Int or int, arr: z3 Array Int->elem).  Canonical form of symbolic sequences: arr[i] == default
    outside [0,length) is NOT assumed automatically; contracts state it where equality matters."""

    def __init__(self, kind, items=None, length=None, arr=None):
        self.kind = kind  # 'list' | 'tuple' | 'array'
        self.items = items
        self.length = length
        self.arr = arr

    @property
    def concrete(self):
        return self.items is not None

    def copy(self, kind=None):
        return Seq(kind or self.kind, None if self.items is None else list(self.items), self.length, self.arr)

    def len(self):
        return len(self.items) if self.concrete else self.length

    def elem_sort(self):
        if self.concrete:
            srt = None
            for it in self.items:
                s = sort_of(it)
                if srt is None or (srt == z3.IntSort() and s == z3.RealSort()):
                    srt = s
            return z3.IntSort() if srt is None else srt
        return self.arr.sort().range()

    def to_symbolic(self):
        """concrete items -> (length, array) (elements must be scalars of one numeric sort)."""
        if not self.concrete:
            return self
        srt = self.elem_sort()
        arr = z3.K(z3.IntSort(), z3.IntVal(0) if srt == z3.IntSort() else (z3.RealVal(0) if srt == z3.RealSort() else z3.BoolVal(False)))
        for i, it in enumerate(self.items):
            arr = z3.Store(arr, i, to_z3(bool_to_int(it) if srt != z3.BoolSort() else it, srt == z3.RealSort()))
        return Seq(self.kind, None, len(self.items), arr)

    def __repr__(self):
        return "Seq(%s,%s)" % (self.kind, self.items if self.concrete else "len=%s" % (self.length,))


class ObjSeq:
    """symbolic-length list of objects of one class in struct-of-arrays form: field name -> Array Int -> T.
    Indexing yields a view object; attribute stores on the view are written back to the arrays."""

    def __init__(self, cls, length, fields):
        self.cls, self.length, self.fields = cls, length, dict(fields)

    def len(self):
        return self.length


class TupleSeq:
    """symbolic-length sequence of fixed-arity tuples of scalars (e.g. [(lo_d, hi_d) for d in range(dim)]) in struct-of-arrays form; read only"""

    def __init__(self, length, arrays):
        self.length, self.arrays = length, list(arrays)

    def len(self):
        return self.length


class ZipV:
    """zip(A, B, ...) with at least one operand of symbolic length: only usable as the iterable of a comprehension"""

    def __init__(self, seqs):
        self.seqs = list(seqs)


class SetV:
    def __init__(self, arr):
        self.arr = arr  # Array Key -> Bool

    def copy(self):
        return SetV(self.arr)


class DictV:
    def __init__(self, dom, val):
        self.dom = dom  # Array Key -> Bool
        self.val = val  # Array Key -> V

    def copy(self):
        return DictV(self.dom, self.val)


class DictItems:
    """d.items() of a symbolic dict (only iterated)"""

    def __init__(self, d):
        self.d = d


class Obj:
    def __init__(self, cls, fields=None, name=None):
        self.cls = cls
        self.fields = dict(fields or {})
        self.name = name or fresh_name(cls)

    def __repr__(self):
        return "<%s %s>" % (self.cls, self.name)


class Opaque:
    """A value of an uninterpreted sort (e.g. numpy result vectors treated as elements of a real vector space)."""

    def __init__(self, term):
        self.term = term


class OptV:
    """Optional value: `isnone` (z3 Bool) and the payload used when it is not None (any executor value)."""

    def __init__(self, isnone, val):
        self.isnone, self.val = isnone, val


class Func:
    """callable value: ('lambda', node, env) | ('bound', obj, name) | ('builtin', name) | ('class', name) | ('repo', qualname)"""

    def __init__(self, kind, *a):
        self.kind = kind
        self.a = a

    def __repr__(self):
        return "Func(%s,%s)" % (self.kind, self.a[-1] if self.a else "")


class Module:
    def __init__(self, name):
        self.name = name


class DiagIndex:
    """np.diag_indices_from(M): the index set of the diagonal of a square 2-D array"""

    def __init__(self, n):
        self.n = n


class RangeV:
    def __init__(self, lo, hi, step=1):
        self.lo, self.hi, self.step = lo, hi, step


def clone(v, memo=None):
    """deep copy of boxes (z3 terms shared) preserving aliasing."""
    if memo is None:
        memo = {}
    if id(v) in memo:
        return memo[id(v)]
    if isinstance(v, Seq):
        n = Seq(v.kind, None, v.length, v.arr)
        memo[id(v)] = n
        if v.items is not None:
            n.items = [clone(x, memo) for x in v.items]
        return n
    if isinstance(v, ObjSeq):
        n = ObjSeq(v.cls, v.length, v.fields)
        memo[id(v)] = n
        return n
    if isinstance(v, SetV):
        n = SetV(v.arr)
        memo[id(v)] = n
        return n
    if isinstance(v, DictV):
        n = DictV(v.dom, v.val)
        memo[id(v)] = n
        return n
    if isinstance(v, Obj):
        n = Obj(v.cls, {}, v.name)
        memo[id(v)] = n
        n.fields = {k: clone(x, memo) for k, x in v.fields.items()}
        if hasattr(v, "origin"):
            n.origin = (clone(v.origin[0], memo), v.origin[1])
        return n
    if isinstance(v, Opaque) and (getattr(v, "shape", None) or hasattr(v, "root")):
        n = Opaque(v.term)          # n-d arrays are mutable boxes (a store replaces the term): snapshot them
        memo[id(v)] = n
        if getattr(v, "shape", None):
            n.shape = v.shape
        if hasattr(v, "root"):
            n.root = clone(v.root, memo)
        return n
    if isinstance(v, dict):
        n = {}
        memo[id(v)] = n
        for k, x in v.items():
            n[k] = clone(x, memo)
        return n
    return v
