"""Sidecar contracts for C19: the evaluation bookkeeping of Classification (sparseSpACE/DEMachineLearning.py).
`Classification._evaluate` is verified for every length of the evaluated set: the summary is the count of positions at which the true label and
the assigned class differ.  The learning / scaling / arg-max pipeline (numpy, sklearn, the density estimation itself) is layer B."""
import z3

from pyvc.book import Contract
from pyvc.engine import Cl
from pyvc.values import Seq, Obj
from pyvc import prelude as P
from contracts.C18 import dataset, GetLength

FILE = "sparseSpACE/DEMachineLearning.py"
I, R = z3.IntSort(), z3.RealSort()


def mismatch_indicator(labels, classes):
    """array lambda k -> 0 if labels[k] == classes[k] else 1 (the element expression of the real comprehension)"""
    k = z3.Int("mk")
    return z3.Lambda([k], z3.If(z3.Select(labels, k) == z3.ToReal(z3.Select(classes, k)), 0, 1))


class Evaluate(Contract):
    file, qualname = FILE, "Classification._evaluate"
    inline = ("DataSet.__getitem__", "__getitem__")

    def inputs(self, S):
        m = S.int("m")
        S.assume(m >= 0)
        return {"testing_data": dataset(S), "calculated_classes": S.seq("classes", m, I, kind="array")}

    def pre(self, S, env):
        return [("non-empty", env["calculated_classes"].len() >= 1)]

    def post_raise(self, S, old, env, exc_name):
        if exc_name != "ValueError":
            return None
        n = old["testing_data"].fields["_data"].items[0].len()
        return [Cl("refused-only-when-the-numbers-of-samples-and-classes-differ", n != old["calculated_classes"].len(), prop=True)]

    def post(self, S, old, env, result):
        ok = isinstance(result, dict) and all(k in result for k in ("Wrong mappings", "Total mappings", "Percentage correct"))
        if not ok:
            return [Cl("returns-the-summary-record", False, prop=True)]
        labels = old["testing_data"].fields["_data"].items[1]
        classes = old["calculated_classes"]
        n = classes.len()
        wrong = P.SUMI(mismatch_indicator(labels.arr, classes.arr), z3.IntVal(0), n)
        from pyvc import values as Vv
        w = Vv.to_z3(result["Wrong mappings"])
        return [Cl("returns-the-summary-record", True, prop=True),
                Cl("evaluated-set-and-classes-have-the-same-length", old["testing_data"].fields["_data"].items[0].len() == n, prop=True),
                Cl("wrong-is-the-number-of-positions-where-class-and-label-differ", w == wrong, prop=True),
                Cl("total-is-the-number-of-classified-samples", Vv.to_z3(result["Total mappings"]) == n, prop=True),
                Cl("percentage-is-one-minus-wrong-over-total", Vv.to_z3(result["Percentage correct"], True) == 1 - z3.ToReal(wrong) / z3.ToReal(n), prop=True)]


CONTRACTS = [GetLength(), Evaluate()]
LEMMAS = []
ASSUMPTIONS = ["labels are floats, classes are ints: `x == y` compares the label with the class converted to a real (numpy semantics)",
               "sum() of the 0/1 list is the ghost function Sum over the pointwise-defined indicator sequence",
               "scaling fixed at learning time, out-of-range removal, arg-max over class densities, history independence: layer B only"]
