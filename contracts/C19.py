"""Sidecar contracts for C19: the evaluation bookkeeping of Classification (sparseSpACE/DEMachineLearning.py).
`Classification._evaluate` is verified for every length of the evaluated set: the summary is the count of positions at which the true label and
the assigned class differ.  The learning / scaling / arg-max pipeline (numpy, sklearn, the density estimation itself) is layer B."""
import z3

from pyvc.book import Contract
from pyvc.engine import Cl
from pyvc.values import Seq, Obj
from pyvc import prelude as P
from contracts.C18 import dataset, GetLength

FILE = "sparseSpACE/DEMachineLearning.py"
I, R = z3.IntSort(), z3.RealSort()


def mismatch_indicator(labels, classes):
    """array lambda k -> 0 if labels[k] == classes[k] else 1 (the element expression of the real comprehension)"""
    k = z3.Int("mk")
    return z3.Lambda([k], z3.If(z3.Select(labels, k) == z3.ToReal(z3.Select(classes, k)), 0, 1))


class Evaluate(Contract):
    file, qualname = FILE, "Classification._evaluate"
    inline = ("DataSet.__getitem__", "__getitem__")

    def inputs(self, S):
        m = S.int("m")
        S.assume(m >= 0)
        return {"testing_data": dataset(S), "calculated_classes": S.seq("classes", m, I, kind="array")}

    def pre(self, S, env):
        return [("non-empty", env["calculated_classes"].len() >= 1)]

    def post_raise(self, S, old, env, exc_name):
        if exc_name != "ValueError":
            return None
        n = old["testing_data"].fields["_data"].items[0].len()
        return [Cl("refused-only-when-the-numbers-of-samples-and-classes-differ", n != old["calculated_classes"].len(), prop=True)]

    def post(self, S, old, env, result):
        ok = isinstance(result, dict) and all(k in result for k in ("Wrong mappings", "Total mappings", "Percentage correct"))
        if not ok:
            return [Cl("returns-the-summary-record", False, prop=True)]
        labels = old["testing_data"].fields["_data"].items[1]
        classes = old["calculated_classes"]
        n = classes.len()
        wrong = P.SUMI(mismatch_indicator(labels.arr, classes.arr), z3.IntVal(0), n)
        from pyvc import values as Vv
        w = Vv.to_z3(result["Wrong mappings"])
        return [Cl("returns-the-summary-record", True, prop=True),
                Cl("evaluated-set-and-classes-have-the-same-length", old["testing_data"].fields["_data"].items[0].len() == n, prop=True),
                Cl("wrong-is-the-number-of-positions-where-class-and-label-differ", w == wrong, prop=True),
                Cl("total-is-the-number-of-classified-samples", Vv.to_z3(result["Total mappings"]) == n, prop=True),
                Cl("percentage-is-one-minus-wrong-over-total", Vv.to_z3(result["Percentage correct"], True) == 1 - z3.ToReal(wrong) / z3.ToReal(n), prop=True)]


CONTRACTS = [GetLength(), Evaluate()]
LEMMAS = []
ASSUMPTIONS = ["labels are floats, classes are ints: `x == y` compares the label with the class converted to a real (numpy semantics)",
               "sum() of the 0/1 list is the ghost function Sum over the pointwise-defined indicator sequence",
               "scaling fixed at learning time, out-of-range removal, arg-max over class densities, history independence: layer B only"]


# --------------------------------------------------------------------------- test_data: bookkeeping of tested samples and their classes
from contracts.C18 import IsEmpty, rows, appended  # noqa: E402
from pyvc.values import Opaque  # noqa: E402


def VV(x):
    return z3.IntVal(x) if isinstance(x, int) else x


def _fresh_ds(S, tag):
    return dataset(S, tag)


class _Step(Contract):
    """abstract steps of Classification.test_data (numpy / density-estimation based): what they promise about shapes is stated, nothing about values"""
    trusted = True
    file = FILE

    def __init__(self, qualname, params, note, result=None, havoc=None, post=None, defaults=None):
        self.qualname, self._params, self.note, self._result, self._havoc, self._post = qualname, params, note, result, havoc, post
        if defaults:
            self.defaults = defaults

    def inputs(self, S):
        d = {"self": Obj(self.qualname.split(".")[0], {})}
        for p in self._params:
            d[p] = None
        return d

    def havoc(self, S, cenv, tag):
        if self._havoc:
            self._havoc(S, cenv, tag)

    def result(self, S, env):
        return self._result(S, env) if self._result else None

    def post(self, S, old, env, result):
        return self._post(S, old, env, result) if self._post else []


def _h_internal_scaling(S, cenv, tag):
    # samples outside the learned range are removed from the checked set in place: some shorter (or equal) set remains
    ds = cenv["data_to_check"]
    n0 = ds.fields["_data"].items[0].len()
    n = S.int(tag + ".kept")
    S.assume(z3.And(n >= 0, n <= n0))
    ds.fields["_data"] = Seq("tuple", [S.seq(tag + ".samples", n, P.U, kind="array"), S.seq(tag + ".labels", n, R, kind="array")])


def _r_split_without_labels(S, env):
    n = env["self"].fields["_data"].items[0].len()
    om, us = _fresh_ds(S, ".omitted"), _fresh_ds(S, ".used")
    S.assume(VV(om.fields["_data"].items[0].len()) + VV(us.fields["_data"].items[0].len()) == VV(n))
    S.ex.ghost["omitted"], S.ex.ghost["used"] = om, us
    return Seq("tuple", [om, us])


def _r_concatenate(S, env):
    res = _fresh_ds(S, ".cat%d" % len(S.ex.ghost.setdefault("cats", [])))
    S.ex.ghost["cats"].append(res)
    return res


def _p_concatenate(S, old, env, result):
    return [("rows-appended-in-order", appended(result, old["self"], old["other_dataset"]))]


def _r_classificate(S, env):
    n = env["data_to_classificate"].fields["_data"].items[0].len()
    if S.ex.decide(VV(n) == 0):
        # no labelled in-range sample left: the real code raises (IndexError from the arg-max over an empty density table) after the unlabelled samples
        # were set aside -- an exceptional exit (observed natively; recorded in DESIGN.md section 9 as an observation, not a property violation)
        from pyvc.engine import RaiseEx
        raise RaiseEx("IndexError", S.ex.fn)
    c = S.seq("new_classes", n, I, kind="array")
    S.ex.ghost["new_classes"] = c
    return c


def _r_evaluate(S, env):
    w = S.int("wrong")
    return {"Wrong mappings": w, "Total mappings": env["calculated_classes"].len(), "Percentage correct": S.real("pct")}


TD_STEPS = [IsEmpty(),
            _Step("DataSet.get_name", [], "name of the set (a string)", result=lambda S, env: "name"),
            _Step("DataSet.set_label", ["label"], "sets the label caption; data untouched"),
            _Step("Classification._internal_scaling", ["data_to_check", "print_removed"], "scales the set like the learning data and removes out-of-range samples IN PLACE (layer B: which ones); returns the same set",
                  havoc=_h_internal_scaling, result=lambda S, env: env["data_to_check"], defaults={"print_removed": False}),
            _Step("DataSet.split_without_labels", [], "splits into (unlabelled, labelled) sets that together hold every sample once (layer B / C18)", result=_r_split_without_labels),
            _Step("DataSet.concatenate", ["other_dataset"], "proved in C18 (Concatenate): rows of the receiver followed by rows of the argument", result=_r_concatenate, post=_p_concatenate),
            _Step("Classification._classificate", ["data_to_classificate"], "one class per sample of the given set (arg-max of the class densities: layer B)", result=_r_classificate)]


def classification(S):
    td = dataset(S, ".testing")
    n0 = td.fields["_data"].items[0].len()
    return Obj("Classification", dict(_performed_classification=True, _omitted_data=dataset(S, ".omitted0"), _scaled_data=dataset(S, ".scaled0"), _testing_data=td,
                                      _calculated_classes_testset=S.seq("classes0", n0, I, kind="array"), _densities_testset=None, _data_range=None,
                                      log_util=Obj("LogUtility", {})))


class TestData(Contract):
    """Classification.test_data: the tested samples and their classes are appended to what was tested before -- earlier classes are not changed, classes and
    tested samples stay aligned, unlabelled samples are set aside, and the returned summary is the evaluation of exactly the newly tested samples"""
    file, qualname = FILE, "Classification.test_data"
    total = False       # refusing an empty / entirely out-of-range set (ValueError) is the documented reaction

    def inputs(self, S):
        return {"self": classification(S), "new_testing_data": dataset(S, ".new"), "print_output": False, "print_removed": False, "print_incorrect_points": False}

    def post(self, S, old, env, result):
        g = S.ex.ghost
        f, f0 = env["self"].fields, old["self"].fields
        used, omitted, newc = g.get("used"), g.get("omitted"), g.get("new_classes")
        cls = f["_calculated_classes_testset"]
        if used is None or omitted is None or newc is None or not isinstance(cls, Seq) or not isinstance(result, dict):
            return [Cl("tests-the-labelled-in-range-samples-and-returns-their-summary", False, prop=True)]
        cls, cls0 = cls.to_symbolic(), f0["_calculated_classes_testset"].to_symbolic()
        n0, nu = VV(cls0.len()), VV(used.fields["_data"].items[0].len())
        i = z3.Int("tdi")
        from pyvc import values as Vv
        return [Cl("tests-the-labelled-in-range-samples-and-returns-their-summary", True, prop=True),
                Cl("classes-of-earlier-data-unchanged", z3.And(VV(cls.len()) == n0 + nu, z3.ForAll([i], z3.Implies(z3.And(i >= 0, i < n0), z3.Select(cls.arr, i) == z3.Select(cls0.arr, i)))), prop=True),
                Cl("new-classes-appended-in-order", z3.ForAll([i], z3.Implies(z3.And(i >= 0, i < nu), z3.Select(cls.arr, n0 + i) == z3.Select(newc.arr, i))), prop=True),
                Cl("tested-samples-appended-and-aligned-with-the-classes", z3.And(appended(f["_testing_data"], f0["_testing_data"], used), VV(rows(f["_testing_data"])[0].len()) == VV(cls.len())), prop=True),
                Cl("unlabelled-samples-set-aside", appended(f["_omitted_data"], f0["_omitted_data"], omitted), prop=True),
                Cl("scaled-data-record-extended", appended(f["_scaled_data"], f0["_scaled_data"], used)),
                Cl("summary-covers-exactly-the-newly-tested-samples", Vv.to_z3(result["Total mappings"]) == nu, prop=True)]

    def post_raise(self, S, old, env, exc_name):
        if exc_name not in ("ValueError", "AttributeError", "IndexError"):
            return None
        f, f0 = env["self"].fields, old["self"].fields
        same = [f["_calculated_classes_testset"].to_symbolic().arr == f0["_calculated_classes_testset"].to_symbolic().arr,
                VV(f["_calculated_classes_testset"].len()) == VV(f0["_calculated_classes_testset"].len())]
        qi = z3.Int("rqi")
        for k in ("_testing_data",) + (() if exc_name == "IndexError" else ("_omitted_data", "_scaled_data")):
            for x, y in zip(rows(f[k]), rows(f0[k])):
                same += [VV(x.len()) == VV(y.len()), z3.ForAll([qi], z3.Implies(z3.And(qi >= 0, qi < VV(y.len())), z3.Select(x.arr, qi) == z3.Select(y.arr, qi)))]
        # (the IndexError exit is the empty-classification observation of DESIGN section 9: the unlabelled samples were already set aside)
        return [Cl("a-refused-request-leaves-the-recorded-classes-and-tested-samples-untouched", z3.And(*same), prop=True)]

    def pre(self, S, env):
        f = env["self"].fields
        return [("classes-aligned-with-tested-samples", VV(f["_calculated_classes_testset"].len()) == VV(rows(f["_testing_data"])[0].len()))]

    @staticmethod
    def model_to_input(model):
        return {"kind": "C19.test_data"}


for _c in CONTRACTS:
    if isinstance(_c, Evaluate):
        _c.result = _r_evaluate.__get__(_c) if False else (lambda S, env: _r_evaluate(S, env))
CONTRACTS += TD_STEPS + [TestData()]
ASSUMPTIONS += ["test_data: scaling / removal of out-of-range samples, the split by missing label, concatenation and the arg-max classification are abstract steps (shapes only); "
                "the printing branch (print_output) is not taken"]


class CallEvaluate(Contract):
    """Classification.__call__: evaluating further data returns one class per remaining sample of the given set and leaves the classes (and tested samples)
    recorded for earlier data untouched; the temporary density rows are removed again"""
    file, qualname = FILE, "Classification.__call__"
    total = False
    inline = ("DataSet.__getitem__", "__getitem__", "DataSet.get_length", "get_length")

    def inputs(self, S):
        c = classification(S)
        nd = S.int("n_dens")
        S.assume(nd >= 0)
        c.fields["_densities_testset"] = S.seq("densities", nd, P.U, kind="list")
        return {"self": c, "data_to_evaluate": dataset(S, ".new"), "print_removed": False}

    def post(self, S, old, env, result):
        f, f0 = env["self"].fields, old["self"].fields
        newc = S.ex.ghost.get("new_classes")
        ok = isinstance(result, Obj) and isinstance(result.fields.get("_data"), Seq) and newc is not None
        if not ok:
            return [Cl("returns-a-data-set-of-the-evaluated-samples-with-their-classes", False, prop=True)]
        rs, rl = rows(result)
        es, _ = rows(env["data_to_evaluate"])
        i = z3.Int("cei")
        cls, cls0 = f["_calculated_classes_testset"].to_symbolic(), f0["_calculated_classes_testset"].to_symbolic()
        return [Cl("returns-a-data-set-of-the-evaluated-samples-with-their-classes", True, prop=True),
                Cl("one-class-per-evaluated-sample-attached-in-order", z3.And(VV(rs.len()) == VV(es.len()), VV(rl.len()) == VV(es.len()),
                   z3.ForAll([i], z3.Implies(z3.And(i >= 0, i < VV(es.len())), z3.And(z3.Select(rs.arr, i) == z3.Select(es.arr, i), z3.Select(rl.arr, i) == z3.ToReal(z3.Select(newc.arr, i)))))), prop=True),
                Cl("classes-of-earlier-data-unchanged", z3.And(VV(cls.len()) == VV(cls0.len()), cls.arr == cls0.arr), prop=True),
                Cl("tested-samples-record-untouched", z3.And(*[x.arr == y.arr for x, y in zip(rows(f["_testing_data"]), rows(f0["_testing_data"]))]), prop=True)]

    def post_raise(self, S, old, env, exc_name):
        if exc_name not in ("ValueError", "AttributeError", "IndexError"):
            return None
        f, f0 = env["self"].fields, old["self"].fields
        same = [f["_calculated_classes_testset"].to_symbolic().arr == f0["_calculated_classes_testset"].to_symbolic().arr,
                VV(f["_calculated_classes_testset"].len()) == VV(f0["_calculated_classes_testset"].len())]
        qi = z3.Int("rqi")
        for k in ("_testing_data",) + (() if exc_name == "IndexError" else ("_omitted_data", "_scaled_data")):
            for x, y in zip(rows(f[k]), rows(f0[k])):
                same += [VV(x.len()) == VV(y.len()), z3.ForAll([qi], z3.Implies(z3.And(qi >= 0, qi < VV(y.len())), z3.Select(x.arr, qi) == z3.Select(y.arr, qi)))]
        # (the IndexError exit is the empty-classification observation of DESIGN section 9: the unlabelled samples were already set aside)
        return [Cl("a-refused-request-leaves-the-recorded-classes-and-tested-samples-untouched", z3.And(*same), prop=True)]

    @staticmethod
    def model_to_input(model):
        return {"kind": "C19.test_data"}


from contracts.C18 import DataSetInit  # noqa: E402
CONTRACTS += [DataSetInit(), CallEvaluate()]


# --------------------------------------------------------------------------- _process_performed_classification: the learned estimators are exactly those of this learning call
# "index k of the density table means class k" (the arg-max is taken over self._classificators in list order) holds only if, after learning, the table holds exactly one
# estimator per class of THIS learning call, in class order -- whatever an earlier (possibly aborted) attempt left in the object.
class ProcessPerformedClassification(Contract):
    file, qualname = FILE, "Classification._process_performed_classification"
    total = False

    def __init__(self, K):
        self.K = K
        self.label = "Classification._process_performed_classification[%d classes]" % K

    def inputs(self, S):
        n0, m0 = S.int("old_estimators"), S.int("old_de_objects")
        S.assume(z3.And(n0 >= 0, m0 >= 0))
        c = classification(S)
        c.fields["_classificators"] = S.seq("classificators0", n0, P.U, kind="list")        # any leftovers of the object's history
        c.fields["_de_objects"] = S.seq("de_objects0", m0, P.U, kind="list")
        c.fields["_performed_classification"] = S.bool("performed0")
        c.fields["_time_used"] = S.real("time_used0")
        ops = Seq("list", [Seq("tuple", [Opaque(S.const("combi%d" % k, P.U)), Opaque(S.const("de%d" % k, P.U))]) for k in range(self.K)])
        return {"self": c, "operation_list": ops, "start_time": S.real("start_time"), "print_metrics": False}

    def pre(self, S, env):
        f = env["self"].fields
        return [("classes-aligned-with-tested-samples", VV(f["_calculated_classes_testset"].len()) == VV(rows(f["_testing_data"])[0].len()))]

    def post(self, S, old, env, result):
        f = env["self"].fields
        ops = old["operation_list"].items
        out = []
        for name, j in (("_classificators", 0), ("_de_objects", 1)):
            v = f.get(name)
            if not isinstance(v, Seq):
                return [Cl("estimator-table-is-a-list", False, prop=True)]
            want = [ops[k].items[j].term for k in range(self.K)]
            if v.concrete:
                okc = len(v.items) == self.K and all(isinstance(x, Opaque) for x in v.items)
                out.append(z3.And(*[x.term == w for x, w in zip(v.items, want)]) if okc else z3.BoolVal(False))
            else:
                out.append(z3.And(VV(v.len()) == self.K, *[z3.Select(v.arr, k) == want[k] for k in range(self.K)]))
        flag = f["_performed_classification"]
        # held-out testing data (if any) are classified right away with the new estimators: the recorded classes are those of this classification, one per sample
        n_test = VV(rows(old["self"].fields["_testing_data"])[0].len())
        newc = S.ex.ghost.get("new_classes")
        cls = f["_calculated_classes_testset"]
        if newc is None:
            tested = n_test == 0
        else:
            tested = z3.And(VV(cls.len()) == n_test, cls.to_symbolic().arr == newc.arr) if isinstance(cls, Seq) else z3.BoolVal(False)
        return [Cl("held-out-testing-data-are-classified-with-the-new-estimators", tested, prop=True),
                Cl("estimator-table-is-a-list", True, prop=True),
                Cl("one-estimator-per-class-of-this-learning-call-in-class-order", out[0], prop=True),
                Cl("density-objects-likewise", out[1]),
                Cl("marked-as-learned", flag if not isinstance(flag, bool) else z3.BoolVal(flag), prop=True)]

    @staticmethod
    def model_to_input(model):
        return {"kind": "C19.learn_twice"}


CONTRACTS += [ProcessPerformedClassification(2), ProcessPerformedClassification(3)]
