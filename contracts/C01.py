"""Sidecar contracts for C01 (sparseSpACE/combiScheme.py).  Nothing in /repo is edited.

Encoding: a level vector (tuple/list of `dim` ints) is an `Array Int Int` in canonical form (0 outside [0,dim));
index sets are `Array (Array Int Int) Bool`.  With canonical representatives Python tuple equality is array
equality, so `tuple(levelvec) in self.old_index_set` is a Select.
"""
import z3

from pyvc.book import Contract, Loop
from pyvc.values import Seq, SetV, Obj
from pyvc import lemmas as L

FILE = "sparseSpACE/combiScheme.py"
I = z3.IntSort()
Vec = z3.ArraySort(I, I)
VSet = z3.ArraySort(Vec, z3.BoolSort())


# --------------------------------------------------------------------------- spec vocabulary
CANON = z3.Function("CANON", Vec, I, z3.BoolSort())
ADM = z3.Function("ADM", VSet, Vec, I, I, z3.BoolSort())


def canon_def(v, dim):
    j = z3.Int("cj")
    return z3.ForAll([j], z3.Implies(z3.Or(j < 0, j >= dim), z3.Select(v, j) == 0), patterns=[z3.Select(v, j)])


def canon(v, dim):
    return CANON(v, dim)


def definitions():
    """definitional axioms of the opaque spec predicates (conservative: each is `P(args) <=> body`)"""
    v, d, O, lm = z3.Const("dv", Vec), z3.Int("dd"), z3.Const("dO", VSet), z3.Int("dl")
    return [z3.ForAll([v, d], CANON(v, d) == canon_def(v, d), patterns=[CANON(v, d)]),
            z3.ForAll([O, v, lm, d], ADM(O, v, lm, d) == admissible_def(v, O, lm, d), patterns=[ADM(O, v, lm, d)])]


def inc(v, i):
    return z3.Store(v, i, z3.Select(v, i) + 1)


def dec(v, i):
    return z3.Store(v, i, z3.Select(v, i) - 1)


def member(v, O, A):
    return z3.Or(z3.Select(O, v), z3.Select(A, v))


def admissible(w, O, lmin, dim):
    return ADM(O, w, lmin, dim)


def admissible_def(w, O, lmin, dim):
    """every backward neighbour of w is old or would fall below lmin  (combiScheme.py:91-95)"""
    j = z3.Int("aj")
    return z3.ForAll([j], z3.Implies(z3.And(j >= 0, j < dim), z3.Or(z3.Select(w, j) - 1 < lmin, z3.Select(O, dec(w, j)))), patterns=[z3.Select(w, j)])


def I1(O, A, lmin, dim):
    v = z3.Const("i1v", Vec)
    i = z3.Int("i1i")
    return z3.ForAll([v], z3.Implies(member(v, O, A), z3.And(canon(v, dim), z3.ForAll([i], z3.Implies(z3.And(i >= 0, i < dim), z3.Select(v, i) >= lmin),
                                                                                       patterns=[z3.Select(v, i)]))),
                     patterns=[z3.Select(O, v), z3.Select(A, v)])


def I2(O, A):
    v = z3.Const("i2v", Vec)
    return z3.ForAll([v], z3.Not(z3.And(z3.Select(O, v), z3.Select(A, v))), patterns=[z3.Select(O, v), z3.Select(A, v)])


def I3(O, A, lmin, dim):
    v = z3.Const("i3v", Vec)
    i = z3.Int("i3i")
    return z3.ForAll([v, i], z3.Implies(z3.And(member(v, O, A), i >= 0, i < dim, z3.Select(v, i) > lmin), z3.Select(O, dec(v, i))),
                     patterns=[z3.MultiPattern(z3.Select(O, v), z3.Select(v, i)), z3.MultiPattern(z3.Select(A, v), z3.Select(v, i))])


def I4(O, A, dim):
    """no active index has a forward neighbour in the index set (derived from I1-I3, see lemma)"""
    v = z3.Const("i4v", Vec)
    i = z3.Int("i4i")
    return z3.ForAll([v, i], z3.Implies(z3.And(z3.Select(A, v), i >= 0, i < dim), z3.Not(member(inc(v, i), O, A))),
                     patterns=[z3.MultiPattern(z3.Select(A, v), z3.Select(v, i))])


def lemma_I4_stmt(O, A, lmin, dim):
    """I1 & I2 & I3  ==>  I4   (for arbitrary sets: proved once as lemma/I4-from-I1-I3, instantiated where needed)"""
    return z3.Implies(z3.And(I1(O, A, lmin, dim), I2(O, A), I3(O, A, lmin, dim)), I4(O, A, dim))


def _lemma_I4():
    O, A, lmin, dim = z3.Const("O", VSet), z3.Const("A", VSet), z3.Int("lmin"), z3.Int("dim")
    return [([dim >= 1, lmin >= 0] + definitions(), lemma_I4_stmt(O, A, lmin, dim))]


def Inv(self):
    O, A = self.fields["old_index_set"].arr, self.fields["active_index_set"].arr
    lmin, dim = self.fields["lmin"], self.fields["dim"]
    return [("I1.entries", I1(O, A, lmin, dim)), ("I2.disjoint", I2(O, A)), ("I3.backward-old", I3(O, A, lmin, dim)),
            ("I4.no-active-has-forward-neighbour", I4(O, A, dim))]


def scheme(S, tag=""):
    dim, lmin, la = S.int("dim"), S.int("lmin"), S.int("lmax_adaptive")
    S.assume(dim >= 1)
    S.assume(lmin >= 0)
    for ax in definitions():
        S.assume(ax)
    return Obj("CombiScheme", dict(dim=dim, lmin=lmin, lmax_adaptive=la, initialized_adaptive=True,
                                   active_index_set=S.set("A", Vec), old_index_set=S.set("O", Vec)))


def levelvec(S, dim, name="levelvec"):
    lv = S.seq(name, dim, I, kind="list")
    S.assume(canon(lv.arr, dim))
    return lv


def fields_unchanged(old, new, names):
    out = []
    for n in names:
        a, b = old.fields[n], new.fields[n]
        a = a.arr if isinstance(a, SetV) else a
        b = b.arr if isinstance(b, SetV) else b
        out.append((("frame." + n), a == b if not isinstance(a, bool) else (a == b)))
    return out


ALL_FIELDS = ["dim", "lmin", "lmax_adaptive", "active_index_set", "old_index_set"]


# --------------------------------------------------------------------------- simple queries
class IsRefinable(Contract):
    file, qualname = FILE, "CombiScheme.is_refinable"

    def inputs(self, S):
        s = scheme(S)
        return {"self": s, "levelvec": levelvec(S, s.fields["dim"])}

    def pre(self, S, env):
        return [("len", z3.BoolVal(True) if env["levelvec"].len() is env["self"].fields["dim"] else env["levelvec"].len() == env["self"].fields["dim"])]

    def result(self, S, env):
        return S.bool("is_refinable")

    def post(self, S, old, env, result):
        s = env["self"]
        return [("result", result == z3.Select(s.fields["active_index_set"].arr, env["levelvec"].to_symbolic().arr))] + fields_unchanged(old["self"], s, ALL_FIELDS)


class InIndexSet(IsRefinable):
    qualname = "CombiScheme.in_index_set"

    def result(self, S, env):
        return S.bool("in_index_set")

    def post(self, S, old, env, result):
        s = env["self"]
        k = env["levelvec"].to_symbolic().arr
        return [("result", result == member(k, s.fields["old_index_set"].arr, s.fields["active_index_set"].arr))] + fields_unchanged(old["self"], s, ALL_FIELDS)


class IsOldIndex(IsRefinable):
    qualname = "CombiScheme.is_old_index"

    def result(self, S, env):
        return S.bool("is_old_index")

    def post(self, S, old, env, result):
        s = env["self"]
        return [("result", result == z3.Select(s.fields["old_index_set"].arr, env["levelvec"].to_symbolic().arr))] + fields_unchanged(old["self"], s, ALL_FIELDS)


class GetIndexSet(Contract):
    file, qualname = FILE, "CombiScheme.get_index_set"

    def inputs(self, S):
        return {"self": scheme(S)}

    def post(self, S, old, env, result):
        s = env["self"]
        v = z3.Const("gv", Vec)
        ok = isinstance(result, SetV)
        return [("is-set", ok),
                ("union", z3.ForAll([v], z3.Select(result.arr, v) == member(v, s.fields["old_index_set"].arr, s.fields["active_index_set"].arr)) if ok else False)] \
            + fields_unchanged(old["self"], s, ALL_FIELDS)


class GetActiveIndices(Contract):
    file, qualname = FILE, "CombiScheme.get_active_indices"

    def inputs(self, S):
        return {"self": scheme(S)}

    def post(self, S, old, env, result):
        s = env["self"]
        ok = isinstance(result, SetV)
        return [("is-set", ok), ("active", result.arr == old["self"].fields["active_index_set"].arr if ok else False)] + fields_unchanged(old["self"], s, ALL_FIELDS)


class HasForwardNeighbour(Contract):
    file, qualname = FILE, "CombiScheme.has_forward_neighbour"

    def inputs(self, S):
        s = scheme(S)
        return {"self": s, "levelvec": levelvec(S, s.fields["dim"])}

    @staticmethod
    def fwd_in(s, lv, j):
        return member(inc(lv, j), s.fields["old_index_set"].arr, s.fields["active_index_set"].arr)

    loops = {0: Loop(inv=lambda S, env, g: [
        ("none-so-far", z3.ForAll([z3.Int("hj")], z3.Implies(z3.And(z3.Int("hj") >= 0, z3.Int("hj") < g["k"]),
                                                             z3.Not(HasForwardNeighbour.fwd_in(env["self"], env["levelvec"].to_symbolic().arr, z3.Int("hj")))))),
        ("levelvec-unchanged", env["levelvec"].to_symbolic().arr == S.ex.old["levelvec"].arr),
    ] + fields_unchanged(S.ex.old["self"], env["self"], ALL_FIELDS))}

    def post(self, S, old, env, result):
        s = env["self"]
        j = z3.Int("pj")
        lv = old["levelvec"].arr
        ex_fwd = z3.Exists([j], z3.And(j >= 0, j < s.fields["dim"], self.fwd_in(old["self"], lv, j)))
        r = result if not isinstance(result, bool) else z3.BoolVal(result)
        return [("result-iff-exists-forward-neighbour", r == ex_fwd)] + fields_unchanged(old["self"], s, ALL_FIELDS)


# --------------------------------------------------------------------------- __refine_scheme
class RefineScheme(Contract):
    file, qualname = FILE, "CombiScheme.__refine_scheme"
    modifies = ("active_index_set", "lmax_adaptive")

    def inputs(self, S):
        s = scheme(S)
        return {"self": s, "d": S.int("d"), "levelvec": levelvec(S, s.fields["dim"])}

    def pre(self, S, env):
        s = env["self"]
        n = env["levelvec"].len()
        return [("d-in-range", z3.And(env["d"] >= 0, env["d"] < s.fields["dim"])),
                ("len", z3.BoolVal(True) if n is s.fields["dim"] else n == s.fields["dim"]),
                ("initialized", s.fields["initialized_adaptive"] is True)]

    def result(self, S, env):
        return S.bool("refined")

    @staticmethod
    def spec(old, env):
        so = old["self"]
        lv = old["levelvec"].to_symbolic().arr
        w = inc(lv, old["d"])
        adm = admissible(w, so.fields["old_index_set"].arr, so.fields["lmin"], so.fields["dim"])
        return w, adm

    def post(self, S, old, env, result):
        s, so = env["self"], old["self"]
        w, adm = self.spec(old, env)
        r = result if not isinstance(result, bool) else z3.BoolVal(result)
        la0 = so.fields["lmax_adaptive"]
        wd = z3.Select(w, old["d"])
        return [("result-iff-admissible", r == adm),
                ("active", s.fields["active_index_set"].arr == z3.If(adm, z3.Store(so.fields["active_index_set"].arr, w, True), so.fields["active_index_set"].arr)),
                ("lmax_adaptive", s.fields["lmax_adaptive"] == z3.If(adm, z3.If(wd > la0, wd, la0), la0)),
                ("caller-levelvec-untouched", env["levelvec"].to_symbolic().arr == old["levelvec"].to_symbolic().arr)] \
            + fields_unchanged(so, s, ["dim", "lmin", "old_index_set"])

    loops = {0: Loop(inv=lambda S, env, g: [
        ("checked-so-far", z3.ForAll([z3.Int("rj")], z3.Implies(z3.And(z3.Int("rj") >= 0, z3.Int("rj") < g["k"]),
                                                                z3.Or(z3.Select(env["levelvec"].arr, z3.Int("rj")) - 1 < env["self"].fields["lmin"],
                                                                      z3.Select(env["self"].fields["old_index_set"].arr, dec(env["levelvec"].arr, z3.Int("rj"))))))),
        ("levelvec-is-forward-neighbour", env["levelvec"].arr == inc(S.ex.old["levelvec"].arr, S.ex.old["d"])),
        ("len", env["levelvec"].len() == env["self"].fields["dim"] if not (env["levelvec"].len() is env["self"].fields["dim"]) else True),
    ] + fields_unchanged(S.ex.old["self"], env["self"], ALL_FIELDS))}


# --------------------------------------------------------------------------- update_adaptive_combi
def adm_dim(so, lv, j):
    """forward neighbour of lv in dimension j is admissible w.r.t. the old set *after* lv was moved to it"""
    O1 = z3.Store(so.fields["old_index_set"].arr, lv, True)
    return admissible(inc(lv, j), O1, so.fields["lmin"], so.fields["dim"])


def active_after(so, lv, k, v):
    """membership of v in the active set after the first k dimensions were tried"""
    j = z3.Int("uj")
    A0 = so.fields["active_index_set"].arr
    return z3.Or(z3.And(z3.Select(A0, v), v != lv),
                 z3.Exists([j], z3.And(j >= 0, j < k, adm_dim(so, lv, j), v == inc(lv, j))))


class UpdateAdaptiveCombi(Contract):
    file, qualname = FILE, "CombiScheme.update_adaptive_combi"
    modifies = ("active_index_set", "old_index_set", "lmax_adaptive")
    min_obligations = 10

    def inputs(self, S):
        s = scheme(S)
        return {"self": s, "levelvec": levelvec(S, s.fields["dim"])}

    def pre(self, S, env):
        s = env["self"]
        return [("initialized", s.fields["initialized_adaptive"] is True)] + Inv(s)

    def post(self, S, old, env, result):
        s, so = env["self"], old["self"]
        lv = old["levelvec"].arr
        dim = so.fields["dim"]
        A0, O0 = so.fields["active_index_set"].arr, so.fields["old_index_set"].arr
        A1, O1 = s.fields["active_index_set"].arr, s.fields["old_index_set"].arr
        was_active = z3.Select(A0, lv)
        v = z3.Const("pv", Vec)
        j = z3.Int("pj")
        t = z3.Int("pt")
        out = []
        if result is None:
            out.append(("nonrefinable-request-changes-nothing", z3.And(z3.Not(was_active), A1 == A0, O1 == O0, s.fields["lmax_adaptive"] == so.fields["lmax_adaptive"])))
        else:
            ok = isinstance(result, Seq)
            out.append(("returns-list", ok))
            if ok:
                r = result.to_symbolic()
                out += [
                    ("refinable", was_active),
                    ("old-set", O1 == z3.Store(O0, lv, True)),
                    ("active-set", z3.ForAll([v], z3.Select(A1, v) == active_after(so, lv, dim, v))),
                    ("returned-dims-admissible", z3.ForAll([t], z3.Implies(z3.And(t >= 0, t < r.len()), z3.And(z3.Select(r.arr, t) >= 0, z3.Select(r.arr, t) < dim, adm_dim(so, lv, z3.Select(r.arr, t)))))),
                    ("returned-dims-ascending", z3.ForAll([t], z3.Implies(z3.And(t >= 0, t + 1 < r.len()), z3.Select(r.arr, t) < z3.Select(r.arr, t + 1)))),
                ]
        uses = {"I1.entries": ["pre#I1", "loop0/inv#active-set", "loop0/inv#old-set"],
                "I2.disjoint": ["pre#I", "loop0/inv#active-set", "loop0/inv#old-set"],
                "I3.backward-old": ["pre#I", "loop0/inv#active-set", "loop0/inv#old-set"],
                "I4.no-active-has-forward-neighbour": ["post#inv.I1", "post#inv.I2", "post#inv.I3"]}
        from pyvc.engine import Cl
        invs = Inv(s)
        for n, e in invs[:3]:
            out.append(Cl("inv." + n, e, keep=True, uses=uses[n], prop=True))
        n, e = invs[3]
        out.append(Cl("inv." + n, e, keep=True, uses=[], by=[("I4-from-I1-I3", lemma_I4_stmt(O1, A1, so.fields["lmin"], dim))], prop=True))
        out += fields_unchanged(so, s, ["dim", "lmin"])
        return out

    @staticmethod
    def loop_inv(S, env, g):
        so = S.ex.old["self"]
        s = env["self"]
        lv = S.ex.old["levelvec"].arr
        k = g["k"]
        v = z3.Const("lv_v", Vec)
        t = z3.Int("lt")
        j = z3.Int("lj")
        r = env["refined_dims"].to_symbolic()
        return [
            ("old-set", s.fields["old_index_set"].arr == z3.Store(so.fields["old_index_set"].arr, lv, True)),
            ("active-set", z3.ForAll([v], z3.Select(s.fields["active_index_set"].arr, v) == active_after(so, lv, k, v))),
            ("dims-admissible", z3.ForAll([t], z3.Implies(z3.And(t >= 0, t < r.len()), z3.And(z3.Select(r.arr, t) >= 0, z3.Select(r.arr, t) < k, adm_dim(so, lv, z3.Select(r.arr, t)))))),
            ("dims-ascending", z3.ForAll([t], z3.Implies(z3.And(t >= 0, t + 1 < r.len()), z3.Select(r.arr, t) < z3.Select(r.arr, t + 1)))),
            ("dims-len", z3.And(r.len() >= 0) if not isinstance(r.len(), int) else True),
            ("was-active", z3.Select(so.fields["active_index_set"].arr, lv)),
            ("levelvec-unchanged", env["levelvec"].to_symbolic().arr == lv),
            ("lmax_adaptive-grows", s.fields["lmax_adaptive"] >= so.fields["lmax_adaptive"]),
        ] + fields_unchanged(so, s, ["dim", "lmin"])

    loops = {0: Loop(inv=lambda S, env, g: UpdateAdaptiveCombi.loop_inv(S, env, g))}


CONTRACTS = [IsRefinable(), InIndexSet(), IsOldIndex(), GetIndexSet(), GetActiveIndices(), HasForwardNeighbour(), RefineScheme(), UpdateAdaptiveCombi()]

from contracts.lean_lemmas import COMBI_IE
LEMMAS = [COMBI_IE, L.SmtLemma("I4-from-I1-I3", _lemma_I4,
                      note="for every pair of sets: entries>=lmin, disjointness and 'backward neighbours are old' imply that no active index has a forward neighbour in the set")]
ASSUMPTIONS = [
    "level vectors stored in the index sets and passed in have length dim (key sort Array Int Int, canonical form outside [0,dim))",
]


# --------------------------------------------------------------------------- get_coefficients_to_index_set (fixed dimension)
import itertools as _it  # noqa: E402
from pyvc.values import ObjSeq, DictV  # noqa: E402
from pyvc.engine import Cl  # noqa: E402

COEFF = z3.Function("COEFF", VSet, Vec, I, I, I)      # COEFF(P, k, lmin, dim) = sum over g in P of T(g, k): the fold that defines the coefficients


def key_of(g_items, s):
    """the tuple g+s as the executor represents it (canonical array)"""
    arr = z3.K(I, z3.IntVal(0))
    for i, (gi, si) in enumerate(zip(g_items, s)):
        arr = z3.Store(arr, i, gi + si)
    return arr


def T(g, k, lmin, dim):
    """contribution of index g to the coefficient of level vector k:  sum over s in stencil(g) of [g+s == k] * sgn(s),
    stencil(g) = prod_i ({0} if g_i <= lmin else {0,-1}), sgn(s) = (-1)^(number of -1 entries)  (the Lean `coeff` summand)"""
    gi = [z3.Select(g, i) for i in range(dim)]
    total = z3.IntVal(0)
    for s in _it.product([0, -1], repeat=dim):
        allowed = z3.And(*[z3.BoolVal(True) if si == 0 else gi[i] > lmin for i, si in enumerate(s)])
        sgn = (-1) ** sum(1 for si in s if si == -1)
        total = total + z3.If(z3.And(allowed, k == key_of(gi, s)), sgn, 0)
    return total


def coeff_axioms(lmin, dim):
    P, g, k = z3.Const("cP", VSet), z3.Const("cg", Vec), z3.Const("ck", Vec)
    empty = z3.K(Vec, z3.BoolVal(False))
    return [z3.ForAll([k], COEFF(empty, k, lmin, dim) == 0, patterns=[COEFF(empty, k, lmin, dim)]),
            z3.ForAll([P, g, k], z3.Implies(z3.Not(z3.Select(P, g)), COEFF(z3.Store(P, g, True), k, lmin, dim) == COEFF(P, k, lmin, dim) + T(g, k, lmin, dim)),
                      patterns=[COEFF(z3.Store(P, g, True), k, lmin, dim)])]


class GetCoefficients(Contract):
    file, qualname = FILE, "CombiScheme.get_coefficients_to_index_set"
    inline = ("get_cross_product", "ComponentGridInfo.__init__")

    def __init__(self, dim):
        self.dim = dim
        self.label = "CombiScheme.get_coefficients_to_index_set[dim=%d]" % dim
        self.local_types = {
            "grid_dict": lambda S: DictV(z3.K(Vec, z3.BoolVal(False)), z3.K(Vec, z3.IntVal(0))),
            "grid_array": lambda S: ObjSeq("ComponentGridInfo", 0, dict(levelvector=z3.K(I, z3.K(I, z3.IntVal(0))), coefficient=z3.K(I, z3.IntVal(0)))),
        }

    def inputs(self, S):
        lmin = S.int("lmin")
        S.assume(lmin >= 0)
        for ax in coeff_axioms(lmin, self.dim):
            S.assume(ax)
        s = Obj("CombiScheme", dict(dim=self.dim, lmin=lmin, initialized_adaptive=True))
        return {"self": s, "index_set": S.set("index_set", Vec)}

    def k2v(self, S, x):
        return Seq("tuple", [z3.Select(x, i) for i in range(self.dim)])

    def inv0(self, S, env, g):
        k = z3.Const("ik", Vec)
        lmin = env["self"].fields["lmin"]
        d = env["grid_dict"]
        ga = env["grid_array"]
        return [("dict-holds-the-fold-over-the-processed-indices",
                 z3.ForAll([k], COEFF(g["processed"].arr, k, lmin, self.dim) == z3.If(z3.Select(d.dom, k), z3.Select(d.val, k), 0),
                           patterns=[z3.Select(d.dom, k), z3.Select(d.val, k), COEFF(g["processed"].arr, k, lmin, self.dim)])),
                ("result-list-still-empty", V_(ga.length) == 0)]

    def inv3(self, S, env, g):
        d = env["grid_dict"]
        ga = env["grid_array"]
        lv, cf = ga.fields["levelvector"], ga.fields["coefficient"]
        Q = g["processed"].arr
        t, u = z3.Ints("it iu")
        n = V_(ga.length)
        k = z3.Const("ik3", Vec)
        lmin = env["self"].fields["lmin"]
        I_ = S.ex.old["index_set"].arr
        return [("entries-are-processed-nonzero-dict-items", z3.ForAll([t], z3.Implies(z3.And(t >= 0, t < n), z3.And(
                    z3.Select(Q, z3.Select(lv, t)), z3.Select(d.dom, z3.Select(lv, t)), z3.Select(cf, t) == z3.Select(d.val, z3.Select(lv, t)), z3.Select(cf, t) != 0)),
                    patterns=[z3.Select(lv, t), z3.Select(cf, t)])),
                ("level-vectors-distinct", z3.ForAll([t, u], z3.Implies(z3.And(t >= 0, t < u, u < n), z3.Select(lv, t) != z3.Select(lv, u)))),
                ("length-nonneg", n >= 0),
                ("dict-is-the-fold-over-the-index-set", z3.ForAll([k], COEFF(I_, k, lmin, self.dim) == z3.If(z3.Select(d.dom, k), z3.Select(d.val, k), 0),
                                                                 patterns=[z3.Select(d.dom, k), z3.Select(d.val, k)]))]

    @property
    def loops(self):
        # loop ordinals in source order: 0 = over index_set, 1 = over dims (unrolled), 2 = over stencil elements (unrolled), 3 = over dict items
        return {0: Loop(inv=lambda S, env, g: self.inv0(S, env, g), key_to_value=lambda S, x: self.k2v(S, x)),
                3: Loop(inv=lambda S, env, g: self.inv3(S, env, g))}

    def post(self, S, old, env, result):
        if not isinstance(result, ObjSeq):
            return [Cl("returns-component-grid-list", False, prop=True)]
        lv, cf = result.fields["levelvector"], result.fields["coefficient"]
        n = V_(result.length)
        t, u = z3.Ints("pt pu")
        lmin = old["self"].fields["lmin"]
        I_ = old["index_set"].arr
        return [Cl("returns-component-grid-list", True, prop=True),
                Cl("coefficients-are-the-inclusion-exclusion-fold-over-the-index-set", z3.ForAll([t], z3.Implies(z3.And(t >= 0, t < n),
                   z3.And(z3.Select(cf, t) == COEFF(I_, z3.Select(lv, t), lmin, self.dim), z3.Select(cf, t) != 0))), prop=True),
                Cl("each-level-vector-returned-once", z3.ForAll([t, u], z3.Implies(z3.And(t >= 0, t < u, u < n), z3.Select(lv, t) != z3.Select(lv, u))), prop=True)]


def V_(x):
    return z3.IntVal(x) if isinstance(x, int) else x


CONTRACTS += [GetCoefficients(1), GetCoefficients(2), GetCoefficients(3)]
ASSUMPTIONS += ["get_coefficients_to_index_set verified for dim in {1,2,3} (stencil loops unrolled; index set arbitrary); COEFF is the fold of the Lean `coeff` summand over the set "
                "(well defined because the sum is commutative; iteration order arbitrary, A-ITER); completeness of the returned list (every non-zero coefficient appears) is layer B"]


# --------------------------------------------------------------------------- init_adaptive_combi_scheme: fresh state irrespective of the object's history
ACTIVE0 = z3.Function("init_active_index_set", I, I, I, VSet)
OLD0 = z3.Function("init_old_index_set", I, I, I, VSet)


class InitActive(Contract):
    file, qualname = FILE, "CombiScheme.init_active_index_set"
    trusted = True
    note = "static enumeration of the standard scheme's top layer (getGrids recursion): a deterministic function of (lmax, lmin, dim); its content is checked exhaustively by layer B"

    def inputs(self, S):
        return {"lmax": S.int("lmax"), "lmin": S.int("lmin"), "dim": S.int("dim")}

    def result(self, S, env):
        return SetV(ACTIVE0(V_(env["lmax"]), V_(env["lmin"]), V_(env["dim"])))


class InitOld(InitActive):
    qualname = "CombiScheme.init_old_index_set"

    def result(self, S, env):
        return SetV(OLD0(V_(env["lmax"]), V_(env["lmin"]), V_(env["dim"])))


class InitAdaptive(Contract):
    file, qualname = FILE, "CombiScheme.init_adaptive_combi_scheme"

    def inputs(self, S):
        # no quantified axioms here: the obligation is quantifier free, so a refutation comes back as a model (sat) and can be replayed
        s = Obj("CombiScheme", dict(dim=S.int("dim"), lmin=S.int("lmin"), lmax_adaptive=S.int("lmax_adaptive"),
                                    active_index_set=S.set("A", Vec), old_index_set=S.set("O", Vec)))
        s.fields["initialized_adaptive"] = S.bool("initialized_adaptive")      # any history: fresh object or used one
        s.fields["lmax"] = S.int("lmax_old")
        return {"self": s, "lmax": S.int("lmax"), "lmin": S.int("lmin_new")}

    def pre(self, S, env):
        # the function's own input validation (three leading asserts)
        return [("valid-level-range", z3.And(env["lmax"] >= env["lmin"], env["lmin"] >= 0))]

    def post(self, S, old, env, result):
        f = env["self"].fields
        lmax, lmin, dim = old["lmax"], old["lmin"], old["self"].fields["dim"]
        ok = isinstance(f["active_index_set"], SetV) and isinstance(f["old_index_set"], SetV)
        if not ok:
            return [Cl("sets", False, prop=True)]
        return [Cl("state-is-the-fresh-standard-scheme-irrespective-of-history",
                   z3.And(f["active_index_set"].arr == ACTIVE0(lmax, lmin, dim), f["old_index_set"].arr == OLD0(lmax, lmin, dim),
                          V_(f["lmax_adaptive"]) == lmax, V_(f["lmin"]) == lmin, V_(f["lmax"]) == lmax,
                          (f["initialized_adaptive"] is True) if isinstance(f["initialized_adaptive"], bool) else f["initialized_adaptive"]), prop=True)]

    @staticmethod
    def model_to_input(model):
        from pyvc import modelparse as mp
        g = lambda k, d: mp.num(model.get(k, str(d)))  # noqa
        return {"kind": "C01.reinit", "dim": g("dim", 2), "lmax": g("lmax", 2), "lmin": g("lmin_new", 1), "lmax_old": g("lmax_old", 2), "lmin_old": g("lmin", 1),
                "initialized": model.get("initialized_adaptive", "False") == "True"}


class InitAdaptiveRefusal(InitAdaptive):
    """the same function WITHOUT the precondition: an invalid level range is refused (AssertionError) and a refused request leaves the object exactly as it
    was — level range, adaptive maximum, both index sets and the initialised flag — so a caller that catches the refusal keeps a valid scheme; a request
    that is accepted had a valid range"""
    label = "CombiScheme.init_adaptive_combi_scheme[any request: refusal leaves the scheme untouched]"
    total = False

    def pre(self, S, env):
        return []

    @staticmethod
    def _same(a, b):
        if isinstance(a, SetV) and isinstance(b, SetV):
            return a.arr == b.arr
        if isinstance(a, bool) and isinstance(b, bool):
            return z3.BoolVal(a == b)
        if isinstance(a, (SetV, Obj)) or isinstance(b, (SetV, Obj)):
            return z3.BoolVal(a is b)
        return V_(a) == V_(b) if not isinstance(a, bool) and not isinstance(b, bool) and not z3.is_bool(a) else (a == b)

    def post_raise(self, S, old, env, exc_name):
        if exc_name != "AssertionError":
            return None
        f, g = env["self"].fields, old["self"].fields
        keys = ("lmin", "lmax", "lmax_adaptive", "active_index_set", "old_index_set", "initialized_adaptive", "dim")
        same = [z3.BoolVal(False) if k not in f else self._same(f[k], g[k]) for k in keys]
        return [Cl("a-refused-request-leaves-the-scheme-untouched", z3.And(*same), prop=True),
                Cl("refused-only-for-an-invalid-level-range", z3.Not(z3.And(old["lmax"] >= old["lmin"], old["lmin"] >= 0)))]

    def post(self, S, old, env, result):
        return InitAdaptive.post(self, S, old, env, result) + [
            Cl("accepted-only-for-a-valid-level-range", z3.And(old["lmax"] >= old["lmin"], old["lmin"] >= 0), prop=True)]

    @staticmethod
    def model_to_input(model):
        d = InitAdaptive.model_to_input(model)
        d["refusal"] = True
        return d


CONTRACTS += [InitActive(), InitOld(), InitAdaptive(), InitAdaptiveRefusal()]


# --------------------------------------------------------------------------- getCombiScheme (adaptive branch): the scheme of exactly the current index set
from pyvc.engine import Cl  # noqa: E402
from pyvc.values import Opaque  # noqa: E402
from pyvc import prelude as P_  # noqa: E402


class _CoefficientsForCallers(Contract):
    """caller-side form of get_coefficients_to_index_set (proved above for dims 1-3): some list of component grids, a function of (index set, the object's lmin, dim)"""
    file, qualname = FILE, "CombiScheme.get_coefficients_to_index_set"
    trusted = True
    note = "proved separately (GetCoefficients, dims 1-3): returns the inclusion-exclusion coefficients of the index set it is given, with the object's own lmin"

    def applies(self, receiver, args):
        return "active_index_set" in receiver.fields

    def inputs(self, S):
        return {"self": scheme(S), "index_set": S.set("index_set", Vec)}

    def result(self, S, env):
        S.ex.ghost.setdefault("coeff_calls", []).append(env["index_set"])
        r = Opaque(S.const("scheme_list", P_.U))
        S.ex.ghost["coeff_result"] = r
        return r


for _c in CONTRACTS:
    if isinstance(_c, GetCoefficients):
        _c.applies = lambda receiver, args: "active_index_set" not in receiver.fields


class GetCombiSchemeAdaptive(Contract):
    """CombiScheme.getCombiScheme on an adaptively initialised object: the returned scheme is the one computed for EXACTLY the current index set (old | active) --
    whatever lmin / lmax arguments are passed --, and asking for it changes nothing"""
    file, qualname = FILE, "CombiScheme.getCombiScheme"
    label = "CombiScheme.getCombiScheme[adaptive]"
    loops = {2: Loop(inv=lambda S, env, g: [])}       # the print loop of the adaptive branch (do_print is False: its body does nothing)

    def inputs(self, S):
        return {"self": scheme(S), "lmin": S.int("lmin_arg"), "lmax": S.int("lmax_arg"), "do_print": False}

    def post(self, S, old, env, result):
        calls = S.ex.ghost.get("coeff_calls", [])
        ok = len(calls) == 1 and isinstance(calls[0], SetV) and result is S.ex.ghost.get("coeff_result")
        if not ok:
            return [Cl("returns-the-coefficients-computed-once-for-the-index-set", False, prop=True)]
        v = z3.Const("gv2", Vec)
        so = old["self"].fields
        return [Cl("returns-the-coefficients-computed-once-for-the-index-set", True, prop=True),
                Cl("computed-for-exactly-old-union-active", z3.ForAll([v], z3.Select(calls[0].arr, v) == member(v, so["old_index_set"].arr, so["active_index_set"].arr)), prop=True)] + \
               [Cl(n, e, prop=True) for n, e in fields_unchanged(old["self"], env["self"], ALL_FIELDS)]

    @staticmethod
    def model_to_input(model):
        return {"kind": "C01.scheme_query"}


CONTRACTS += [_CoefficientsForCallers(), GetCombiSchemeAdaptive()]
