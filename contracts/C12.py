"""Sidecar contracts for C12: Function.__call__ single-point path, cache bookkeeping (sparseSpACE/Function.py).
Points and values are opaque python values; the user's eval is an uninterpreted pure function EVAL (assumption)."""
import z3

from pyvc.book import Contract
from pyvc.engine import Cl
from pyvc.values import Seq, Obj, DictV, Opaque
from pyvc import prelude as P

FILE = "sparseSpACE/Function.py"
U = P.U
EVAL = z3.Function("EVAL", U, U)
OUTLEN = z3.Int("output_length")


def result_of(v):
    """what __call__ returns for a point whose evaluation is v: np.array(v), with a scalar wrapped into a one-element list first"""
    return z3.If(P.ISSCALAR(v), P.ARRAY_OF(P.LIST1(v)), P.ARRAY_OF(v))


def cache_sound(d):
    """class invariant of the cache: every stored value is the evaluation of its key"""
    p = z3.Const("cp", U)
    return z3.ForAll([p], z3.Implies(z3.Select(d.dom, p), z3.Select(d.val, p) == EVAL(p)))


def function_obj(S):
    return Obj("Function", dict(f_dict=S.dict("f_dict", U, U), old_f_dict=S.dict("old_f_dict", U, U), do_cache=S.bool("do_cache"), debug=False))


class Eval(Contract):
    file, qualname = FILE, "Function.eval"
    trusted = True
    note = "abstract method: the user's eval is assumed deterministic and free of side effects (EVAL is an uninterpreted function of the point)"

    def inputs(self, S):
        return {"self": function_obj(S), "coordinates": Opaque(S.const("coordinates", U))}

    def result(self, S, env):
        c = env["coordinates"]
        return Opaque(EVAL(c.term))

    def post(self, S, old, env, result):
        return []


class OutputLength(Contract):
    file, qualname = FILE, "Function.output_length"
    trusted = True
    note = "declared output length of the concrete function class (an Int constant per object)"

    def inputs(self, S):
        return {"self": function_obj(S)}

    def result(self, S, env):
        return OUTLEN

    def post(self, S, old, env, result):
        return []


class CallSingle(Contract):
    file, qualname = FILE, "Function.__call__"
    label = "Function.__call__[single point]"
    total = False   # the function's own `assert len(f_value) == self.output_length()` fires when the USER's eval disagrees with its declared output length

    def inputs(self, S):
        return {"self": function_obj(S), "coordinates": Opaque(S.const("coordinates", U))}

    def pre(self, S, env):
        s = env["self"].fields
        c = env["coordinates"].term
        return [("single-point", z3.And(P.LEN(c) >= 1, P.ISSCALAR(P.ITEM(c, 0)))),
                ("cache-sound", cache_sound(s["f_dict"])), ("old-cache-sound", cache_sound(s["old_f_dict"]))]

    def post(self, S, old, env, result):
        so, s = old["self"].fields, env["self"].fields
        pt = P.TUPLE_OF(old["coordinates"].term)
        ok = isinstance(result, Opaque)
        if not ok:
            return [Cl("returns-array", False, prop=True)]
        q = z3.Const("q", U)
        return [Cl("returns-array", True, prop=True),
                Cl("value-is-the-evaluation-of-the-point-cached-or-not", result.term == result_of(EVAL(pt)), prop=True),
                Cl("shape-is-output-length", z3.If(P.ISSCALAR(EVAL(pt)), 1, P.LEN(EVAL(pt))) == OUTLEN),
                Cl("cache-stays-sound", cache_sound(s["f_dict"]), prop=True),
                Cl("with-caching-the-point-is-counted-once", z3.Implies(so["do_cache"], z3.ForAll([q], z3.Select(s["f_dict"].dom, q) == z3.Or(z3.Select(so["f_dict"].dom, q), q == pt))), prop=True),
                Cl("without-caching-the-counter-is-untouched", z3.Implies(z3.Not(so["do_cache"]), s["f_dict"].dom == so["f_dict"].dom)),
                Cl("caching-flag-untouched", s["do_cache"] == so["do_cache"])]

    @staticmethod
    def model_to_input(model):
        return {"kind": "C12.call_single", "do_cache": model.get("do_cache", "True") == "True"}


class ResetDictionary(Contract):
    file, qualname = FILE, "Function.reset_dictionary"

    def inputs(self, S):
        return {"self": function_obj(S)}

    def post(self, S, old, env, result):
        s = env["self"].fields
        return [Cl("counter-is-zero-after-reset", s["f_dict"] == {} and s["old_f_dict"] == {}, prop=True)]


class DeactivateCaching(Contract):
    file, qualname = FILE, "Function.deactivate_caching"

    def inputs(self, S):
        return {"self": function_obj(S)}

    def post(self, S, old, env, result):
        s, so = env["self"].fields, old["self"].fields
        return [Cl("caching-off", s["do_cache"] is False), Cl("cache-untouched", z3.And(s["f_dict"].dom == so["f_dict"].dom, s["f_dict"].val == so["f_dict"].val))]


CONTRACTS = [Eval(), OutputLength(), CallSingle(), ResetDictionary(), DeactivateCaching()]
LEMMAS = []
ASSUMPTIONS = ["user eval is deterministic and pure (uninterpreted function of the point)", "np.isscalar / tuple / np.array on opaque python values are uninterpreted functions",
               "batch path, vectorised overrides and analytic integrals: layer B (and sympy) only"]
