"""Sidecar contracts for C12: Function.__call__ single-point path, cache bookkeeping (sparseSpACE/Function.py).
Points and values are opaque python values; the user's eval is an uninterpreted pure function EVAL (assumption)."""
import z3

from pyvc.book import Contract
from pyvc.engine import Cl
from pyvc.values import Seq, Obj, DictV, Opaque
from pyvc import prelude as P

FILE = "sparseSpACE/Function.py"
U = P.U
EVAL = z3.Function("EVAL", U, U)
OUTLEN = z3.Int("output_length")


def result_of(v):
    """what __call__ returns for a point whose evaluation is v: np.array(v), with a scalar wrapped into a one-element list first"""
    return z3.If(P.ISSCALAR(v), P.ARRAY_OF(P.LIST1(v)), P.ARRAY_OF(v))


def cache_sound(d):
    """class invariant of the cache: every stored value is the evaluation of its key"""
    p = z3.Const("cp", U)
    return z3.ForAll([p], z3.Implies(z3.Select(d.dom, p), z3.Select(d.val, p) == EVAL(p)))


def function_obj(S):
    return Obj("Function", dict(f_dict=S.dict("f_dict", U, U), old_f_dict=S.dict("old_f_dict", U, U), do_cache=S.bool("do_cache"), debug=False))


class Eval(Contract):
    file, qualname = FILE, "Function.eval"
    trusted = True
    note = "abstract method: the user's eval is assumed deterministic and free of side effects (EVAL is an uninterpreted function of the point)"

    def inputs(self, S):
        return {"self": function_obj(S), "coordinates": Opaque(S.const("coordinates", U))}

    def result(self, S, env):
        c = env["coordinates"]
        if S.ex.decide(S.bool("user_eval_raises")):
            # the user's function may fail for a point (a fault inside the evaluation): the call is aborted with the user's exception
            from pyvc.engine import RaiseEx
            raise RaiseEx("UserEvalError", S.ex.fn)
        return Opaque(EVAL(c.term))

    def post(self, S, old, env, result):
        return []


class OutputLength(Contract):
    file, qualname = FILE, "Function.output_length"
    trusted = True
    note = "declared output length of the concrete function class (an Int constant per object)"

    def inputs(self, S):
        return {"self": function_obj(S)}

    def result(self, S, env):
        return OUTLEN

    def post(self, S, old, env, result):
        return []


class CallSingle(Contract):
    file, qualname = FILE, "Function.__call__"
    label = "Function.__call__[single point]"
    total = False   # the function's own `assert len(f_value) == self.output_length()` fires when the USER's eval disagrees with its declared output length

    def inputs(self, S):
        return {"self": function_obj(S), "coordinates": Opaque(S.const("coordinates", U))}

    def pre(self, S, env):
        s = env["self"].fields
        c = env["coordinates"].term
        return [("single-point", z3.And(P.LEN(c) >= 1, P.ISSCALAR(P.ITEM(c, 0)))),
                ("cache-sound", cache_sound(s["f_dict"])), ("old-cache-sound", cache_sound(s["old_f_dict"]))]

    def post_raise(self, S, old, env, exc_name):
        if exc_name != "UserEvalError":
            return None
        so, s = old["self"].fields, env["self"].fields
        return [Cl("a-failed-evaluation-leaves-cache-and-counter-untouched", z3.And(s["f_dict"].dom == so["f_dict"].dom, s["f_dict"].val == so["f_dict"].val), prop=True),
                Cl("cache-stays-sound-after-a-failed-evaluation", cache_sound(s["f_dict"]), prop=True)]

    def post(self, S, old, env, result):
        so, s = old["self"].fields, env["self"].fields
        pt = P.TUPLE_OF(old["coordinates"].term)
        ok = isinstance(result, Opaque)
        if not ok:
            return [Cl("returns-array", False, prop=True)]
        q = z3.Const("q", U)
        return [Cl("returns-array", True, prop=True),
                Cl("value-is-the-evaluation-of-the-point-cached-or-not", result.term == result_of(EVAL(pt)), prop=True),
                Cl("shape-is-output-length", z3.If(P.ISSCALAR(EVAL(pt)), 1, P.LEN(EVAL(pt))) == OUTLEN),
                Cl("cache-stays-sound", cache_sound(s["f_dict"]), prop=True),
                Cl("with-caching-the-point-is-counted-once", z3.Implies(so["do_cache"], z3.ForAll([q], z3.Select(s["f_dict"].dom, q) == z3.Or(z3.Select(so["f_dict"].dom, q), q == pt))), prop=True),
                Cl("without-caching-the-counter-is-untouched", z3.Implies(z3.Not(so["do_cache"]), s["f_dict"].dom == so["f_dict"].dom)),
                Cl("caching-flag-untouched", s["do_cache"] == so["do_cache"])]

    @staticmethod
    def model_to_input(model):
        return {"kind": "C12.call_single", "do_cache": model.get("do_cache", "True") == "True"}


class CallEmpty(Contract):
    """empty batch: an array with no rows and `output_length` columns, no evaluation, cache and counter untouched"""
    file, qualname = FILE, "Function.__call__"
    label = "Function.__call__[empty batch]"

    def inputs(self, S):
        return {"self": function_obj(S), "coordinates": Opaque(S.const("coordinates", U))}

    def pre(self, S, env):
        return [("empty-batch", P.LEN(env["coordinates"].term) == 0)]

    def post(self, S, old, env, result):
        so, s = old["self"].fields, env["self"].fields
        shape = getattr(result, "shape", None)
        ok = isinstance(result, Opaque) and shape is not None and len(shape) == 2
        if not ok:
            return [Cl("returns-an-array-shaped-by-the-number-of-points-and-the-output-length", False, prop=True)]
        from pyvc import values as Vv
        return [Cl("returns-an-array-shaped-by-the-number-of-points-and-the-output-length", z3.And(Vv.to_z3(shape[0]) == 0, Vv.to_z3(shape[1]) == OUTLEN), prop=True),
                Cl("no-point-is-counted", z3.And(s["f_dict"].dom == so["f_dict"].dom, s["f_dict"].val == so["f_dict"].val), prop=True),
                Cl("caching-flag-untouched", s["do_cache"] == so["do_cache"])]

    @staticmethod
    def model_to_input(model):
        return {"kind": "C12.call_empty"}


class ResetDictionary(Contract):
    file, qualname = FILE, "Function.reset_dictionary"

    def inputs(self, S):
        return {"self": function_obj(S)}

    def post(self, S, old, env, result):
        s = env["self"].fields
        return [Cl("counter-is-zero-after-reset", s["f_dict"] == {} and s["old_f_dict"] == {}, prop=True)]


class DeactivateCaching(Contract):
    file, qualname = FILE, "Function.deactivate_caching"

    def inputs(self, S):
        return {"self": function_obj(S)}

    def post(self, S, old, env, result):
        s, so = env["self"].fields, old["self"].fields
        return [Cl("caching-off", s["do_cache"] is False), Cl("cache-untouched", z3.And(s["f_dict"].dom == so["f_dict"].dom, s["f_dict"].val == so["f_dict"].val))]


CONTRACTS = [Eval(), OutputLength(), CallSingle(), CallEmpty(), ResetDictionary(), DeactivateCaching()]
LEMMAS = []
ASSUMPTIONS = ["user eval is deterministic and pure (uninterpreted function of the point)", "np.isscalar / tuple / np.array on opaque python values are uninterpreted functions",
               "batch path, vectorised overrides and analytic integrals: layer B (and sympy) only"]


# --------------------------------------------------------------------------- analytic integrals of the polynomial test functions against their evaluation
# The statement "the analytic integral over any box equals the integral of the point evaluation" is carried for the polynomial classes by a shared
# spec: each class is a product (or sum) of univariate monomials c*x^k; eval must equal the spec built from mono(c,k,x), the analytic integral must
# equal the same spec built from mono_int(c,k,s,e) = c*(e^(k+1)-s^(k+1))/(k+1) (the integral of the monomial over [s,e]; Fubini for the box).
from pyvc.book import Loop  # noqa: E402
from pyvc import values as Vv  # noqa: E402

I_, R_ = z3.IntSort(), z3.RealSort()


def zpow(x, k):
    r = z3.RealVal(1)
    for _ in range(k):
        r = r * x
    return r


def mono(c, k, x):
    return c * zpow(x, k)


def mono_int(c, k, s, e):
    return c * (zpow(e, k + 1) - zpow(s, k + 1)) / (k + 1)


def _vec(S, name, d):
    return Seq("array", [S.real("%s%d" % (name, i)) for i in range(d)])


def _rv(x):
    return Vv.to_z3(x, True)


def _floats(model, name, d):
    from pyvc import modelparse as mp
    return [mp.tofloat(mp.num(model.get("%s%d" % (name, i), "0"))) or 0.0 for i in range(d)]


class PolyFixed(Contract):
    """product / sum families, loop-free for a fixed dimension (complete for that dimension; the bound on the dimension is stated in the label)"""
    cls, kind, method = None, None, None

    def __init__(self, dim, degree=None):
        self.dim, self.degree = dim, degree
        self.qualname = "%s.%s" % (self.cls, self.method)
        self.label = "%s[dim=%d%s]" % (self.qualname, dim, "" if degree is None else ",degree=%d" % degree)

    def receiver(self, S):
        f = dict(coeffs=_vec(S, "c", self.dim), dim=self.dim)
        if self.degree is not None:
            f["degree"] = self.degree
        return Obj(self.cls, f)

    def inputs(self, S):
        if self.method == "eval":
            return {"self": self.receiver(S), "coordinates": Seq("tuple", [S.real("x%d" % i) for i in range(self.dim)])}
        return {"self": self.receiver(S), "start": _vec(S, "s", self.dim), "end": _vec(S, "e", self.dim)}

    def model_to_input(self, model):
        d = self.dim
        return {"kind": "C12.poly", "cls": self.cls, "method": self.method, "dim": d, "degree": self.degree, "coeffs": _floats(model, "c", d),
                "x": _floats(model, "x", d), "start": _floats(model, "s", d), "end": _floats(model, "e", d)}

    def spec(self, old, one):
        """`one(i)` is the univariate term of dimension i (value or integral); `vol_except(i)` the volume of the other dimensions"""
        raise NotImplementedError

    def post(self, S, old, env, result):
        c = old["self"].fields["coeffs"].items
        k = self.degree if self.degree is not None else 1
        if self.method == "eval":
            x = old["coordinates"].items
            want = self.spec(lambda i: mono(c[i], k, x[i]), lambda i: z3.RealVal(1))
            name = "value-is-the-stated-polynomial"
        else:
            s, e = old["start"].items, old["end"].items

            def vol_except(i):
                v = z3.RealVal(1)
                for j in range(self.dim):
                    if j != i:
                        v = v * (e[j] - s[j])
                return v
            want = self.spec(lambda i: mono_int(c[i], k, s[i], e[i]), vol_except)
            name = "analytic-integral-is-the-integral-of-the-evaluated-polynomial-over-the-box"
        ok = result is not None
        return [Cl(name, _rv(result) == want if ok else False, prop=True)]


class ProductFamily(PolyFixed):
    def spec(self, one, vol_except):
        r = z3.RealVal(1)
        for i in range(self.dim):
            r = r * one(i)
        return r


class SumFamily(PolyFixed):
    def spec(self, one, vol_except):
        r = z3.RealVal(0)
        for i in range(self.dim):
            r = r + one(i) * vol_except(i)
        return r


def _mk(base, cls_, method_):
    return type("%s_%s" % (cls_, method_), (base,), dict(cls=cls_, method=method_, file=FILE))


LinearEval, LinearInt = _mk(ProductFamily, "FunctionLinear", "eval"), _mk(ProductFamily, "FunctionLinear", "getAnalyticSolutionIntegral")
MultiEval, MultiInt = _mk(SumFamily, "FunctionMultilinear", "eval"), _mk(SumFamily, "FunctionMultilinear", "getAnalyticSolutionIntegral")
PolyEval, PolyInt = _mk(ProductFamily, "FunctionPolynomial", "eval"), _mk(ProductFamily, "FunctionPolynomial", "getAnalyticSolutionIntegral")


class ConstantIntegral(Contract):
    """ConstantValue.getAnalyticSolutionIntegral for any dimension: value * volume of the box (ghost product of the extents)"""
    file, qualname = FILE, "ConstantValue.getAnalyticSolutionIntegral"
    label = "ConstantValue.getAnalyticSolutionIntegral[any dimension]"
    VOL = z3.Function("VolPrefix", I_, R_)

    def inputs(self, S):
        dim = S.int("dim")
        S.assume(dim >= 1)
        env = {"self": Obj("ConstantValue", dict(value=S.real("value"))), "start": S.seq("start", dim, R_, kind="array"), "end": S.seq("end", dim, R_, kind="array")}
        k = z3.Int("vk")
        VOL = self.VOL
        S.assume(VOL(0) == 1, "def:VolPrefix")
        S.assume(z3.ForAll([k], z3.Implies(z3.And(k >= 0, k < dim), VOL(k + 1) == VOL(k) * (z3.Select(env["end"].arr, k) - z3.Select(env["start"].arr, k))),
                           patterns=[VOL(k + 1)]), "def:VolPrefix")
        return env

    def pre(self, S, env):
        return [("same-length", env["start"].len() == env["end"].len())]

    def inv(self, S, env, g):
        old = S.ex.old
        return [("partial-volume", _rv(env["integral"]) == self.VOL(g["k"]), "nokeep", ["def:VolPrefix", "loop0/inv#partial-volume"]),
                ("inputs-untouched", z3.And(env["start"].arr == old["start"].arr, env["end"].arr == old["end"].arr, env["dim"] == old["start"].len()))]

    @property
    def loops(self):
        return {0: Loop(inv=lambda S, env, g: self.inv(S, env, g))}

    def post(self, S, old, env, result):
        ok = result is not None
        return [Cl("analytic-integral-is-the-constant-times-the-box-volume", _rv(result) == old["self"].fields["value"] * self.VOL(old["start"].len()) if ok else False, prop=True)]

    @staticmethod
    def model_to_input(model):
        from pyvc import modelparse as mp
        return {"kind": "C12.constant", "value": mp.tofloat(mp.num(model.get("value", "1")))}


class ConstantEval(Contract):
    file, qualname = FILE, "ConstantValue.eval"

    def inputs(self, S):
        return {"self": Obj("ConstantValue", dict(value=S.real("value"))), "coordinates": Opaque(S.const("coordinates", U))}

    def post(self, S, old, env, result):
        return [Cl("value-is-the-constant", _rv(result) == old["self"].fields["value"], prop=True)]


POLY = [ConstantEval(), ConstantIntegral()]
for _d in (1, 2, 3):
    POLY += [LinearEval(_d), LinearInt(_d), MultiEval(_d), MultiInt(_d)]
for _d in (1, 2):
    for _k in (1, 2, 3):
        POLY += [PolyEval(_d, _k), PolyInt(_d, _k)]
CONTRACTS += POLY
ASSUMPTIONS += ["polynomial test functions: the integral of c*x^k over [s,e] is c*(e^(k+1)-s^(k+1))/(k+1) and the integral of a product of univariate factors over a box is the "
                "product of the univariate integrals (calculus facts behind the spec functions mono / mono_int; not proved here)",
                "FunctionLinear / FunctionMultilinear: dimensions 1-3, FunctionPolynomial: dimensions 1-2 and degrees 1-3 (loop-free unrolling, fully symbolic coefficients and box); "
                "ConstantValue: any dimension (ghost product)"]
