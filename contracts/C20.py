"""Sidecar contracts for C20: "every coefficient optimisation variant returns coefficients that sum to one" (sparseSpACE/GridOperation.py, class Regression).
All six Opticom variants end by dividing the raw coefficients by their sum and writing the quotients into the component grids of the scheme.  Proved here
for any number of component grids: after the call the coefficients of the scheme sum to 1 -- whatever the validation errors / the least-squares solution
are -- provided the raw sum is not zero (otherwise the library divides by zero).  The ghost Sum is linear (lemma sum-scale, by induction).
Everything numerical (design matrix, smoothing matrix, normal equations, lstsq itself) is layer B."""
import z3

from pyvc.book import Contract, Loop
from pyvc.engine import Cl
from pyvc.values import Seq, Obj, ObjSeq, Opaque
from pyvc import prelude as P
from pyvc import lemmas as L

FILE = "sparseSpACE/GridOperation.py"
I, R, U = z3.IntSort(), z3.RealSort(), P.U


def regression(S):
    return Obj("Regression", dict(validation_data=Opaque(S.const("validation_data", U)), validation_target_values=Opaque(S.const("validation_target_values", U)),
                                  regularization_opticom=S.real("regularization_opticom")))


def combi(S, cls):
    n = S.int("n")
    S.assume(n >= 1)
    scheme = ObjSeq("ComponentGridInfo", n, dict(coefficient=S.array("coefficient", I, R)))
    return Obj(cls, dict(scheme=scheme))


def sum_scale_stmt(a, b, L_, n):
    """(forall j<n: b[j] == a[j]/L)  ==>  Sum(b,0,n) == Sum(a,0,n)/L      (lemma/sum-scale, by induction on n)"""
    j = z3.Int("ssj")
    return z3.Implies(z3.And(n >= 0, L_ != 0, z3.ForAll([j], z3.Implies(z3.And(j >= 0, j < n), z3.Select(b, j) == z3.Select(a, j) / L_))),
                      P.SUMR(b, 0, n) == P.SUMR(a, 0, n) / L_)


def _sum_scale_lemma():
    a = z3.Const("a", z3.ArraySort(I, R))
    b = z3.Const("b", z3.ArraySort(I, R))
    n = z3.Int("n")
    L_ = z3.Real("L")
    ax = P.sum_axioms()
    j = z3.Int("ssj")
    pointwise = lambda m: z3.ForAll([j], z3.Implies(z3.And(j >= 0, j < m), z3.Select(b, j) == z3.Select(a, j) / L_))  # noqa
    claim = lambda m: P.SUMR(b, 0, m) == P.SUMR(a, 0, m) / L_  # noqa
    return [(ax + [L_ != 0], claim(z3.IntVal(0))),
            (ax + [L_ != 0, n >= 0, z3.Implies(pointwise(n), claim(n)), pointwise(n + 1)], claim(n + 1))]


class Interpolate(Contract):
    trusted = True
    note = "prediction of one component grid at the validation points (numpy; an opaque vector)"

    def __init__(self, qualname, file=FILE):
        self.qualname, self.file = qualname, file

    def inputs(self, S):
        return {"self": Obj("Regression", {})}

    def result(self, S, env):
        return Opaque(S.const("learned_targets", U))


class NormaliseByError(Contract):
    """option 3 (error per grid): coefficient_i / mse_i, normalised"""
    assumed_safety = ("div",)
    assumed_safety_note = "A-NORMALISABLE: the sum of the raw coefficients is not zero -- the library divides by it without a guard"

    def __init__(self, qualname, param, cls):
        self.file, self.qualname, self.param, self.cls = FILE, qualname, param, cls

    def inputs(self, S):
        for ax in P.sum_axioms():
            S.assume(ax, "def:Sum")
        return {"self": regression(S), self.param: combi(S, self.cls)}

    def raw(self, env):
        return env.get("coefficients")

    def inv_write(self, S, env, g):
        """third loop: the first k component grids carry raw_j / length"""
        from pyvc import values as Vv
        sch = env[self.param].fields["scheme"]
        raw = env["coefficients"].to_symbolic()
        Ln = Vv.to_z3(env["length"], True)
        j = z3.Int("wj")
        return [("written-prefix", z3.ForAll([j], z3.Implies(z3.And(j >= 0, j < g["k"]), z3.Select(sch.fields["coefficient"], j) == z3.Select(raw.arr, j) / Ln))),
                ("raw-and-length-untouched", z3.And(raw.arr == g["raw0"], Ln == g["len0"])) if "raw0" in g else ("raw-and-length-untouched", z3.BoolVal(True)),
                ("length-is-the-raw-sum", Ln == P.SUMR(raw.arr, 0, Vv.to_z3(raw.len()))),
                ("length-nonzero-once-something-was-written", z3.Or(g["k"] == 0, Ln != 0) if not isinstance(g["k"], int) else z3.Or(z3.BoolVal(g["k"] == 0), Ln != 0)),
                ("one-raw-entry-per-grid", Vv.to_z3(raw.len()) == Vv.to_z3(sch.length))]

    @property
    def loops(self):
        anything = lambda S, env, g: [("scheme-size-fixed", env[self.param].fields["scheme"].length == S.ex.old[self.param].fields["scheme"].length),   # noqa
                                      ("arrays-sized", z3.And(V_(env["coefficients"].len()) == V_(env[self.param].fields["scheme"].length),
                                                              V_(env["error_vec"].len()) == V_(env[self.param].fields["scheme"].length))),
                                      ("errors-positive-so-far", errs_pos(env, g))]
        return {0: Loop(inv=anything), 1: Loop(inv=lambda S, env, g: anything(S, env, g)[:2] + [("errors-positive", errs_pos(env, None))]),
                2: Loop(inv=lambda S, env, g: self.inv_write(S, env, g) + [("scheme-size-fixed", env[self.param].fields["scheme"].length == S.ex.old[self.param].fields["scheme"].length)])}

    def pre(self, S, env):
        return []

    def post(self, S, old, env, result):
        sch = env[self.param].fields["scheme"]
        n = sch.length
        return [Cl("scheme-size-unchanged", n == old[self.param].fields["scheme"].length),
                Cl("coefficients-sum-to-one", P.SUMR(sch.fields["coefficient"], 0, n) == 1, prop=True, uses=["loop2/inv#"],
                   by=[("sum-scale", sum_scale_stmt(S.ex.env["coefficients"].to_symbolic().arr, sch.fields["coefficient"], V_real(S.ex.env["length"]), n))])]


def V_(x):
    return z3.IntVal(x) if isinstance(x, int) else x


def V_real(x):
    from pyvc import values as Vv
    return Vv.to_z3(x, True)


def errs_pos(env, g):
    e = env["error_vec"].to_symbolic()
    j = z3.Int("ej")
    hi = g["k"] if g is not None else V_(e.len())
    return z3.ForAll([j], z3.Implies(z3.And(j >= 0, j < hi), z3.Select(e.arr, j) > 0))


class NormaliseLstsq(NormaliseByError):
    """option 2 (least squares on the validation set): lstsq solution, normalised.  The matrix of predictions is an opaque 2-D array (its entries
    are not modelled); the solution vector is arbitrary"""

    @property
    def loops(self):
        fixed = lambda S, env, g: [("scheme-size-fixed", env[self.param].fields["scheme"].length == S.ex.old[self.param].fields["scheme"].length)]  # noqa
        return {0: Loop(inv=fixed), 1: Loop(inv=fixed),
                2: Loop(inv=lambda S, env, g: self.inv_write(S, env, g) + fixed(S, env, g))}


class MatrixOpticom(Contract):
    trusted = True
    note = "Garcke's Opticom system: an n x n matrix and an n vector for the n component grids (numpy; entries opaque)"

    def __init__(self, qualname, param):
        self.file, self.qualname, self.param = FILE, qualname, param

    def inputs(self, S):
        return {"self": Obj("Regression", {}), self.param: None}

    def result(self, S, env):
        n = env[self.param].fields["scheme"].length
        m = Opaque(S.const("matrix_opticom", U))
        m.shape = (n, n)
        return Seq("tuple", [m, Opaque(S.const("vector_opticom", U))])


class NormaliseLinearSystem(NormaliseByError):
    """option 1 (Garcke): solution of the Opticom system divided by its sum (vectorised), then written into the scheme"""

    def inv_copy(self, S, env, g):
        sch = env[self.param].fields["scheme"]
        c = env["coefs"].to_symbolic()
        j = z3.Int("cj")
        return [("written-prefix", z3.ForAll([j], z3.Implies(z3.And(j >= 0, j < g["k"]), z3.Select(sch.fields["coefficient"], j) == z3.Select(c.arr, j)))),
                ("scheme-size-fixed", sch.length == S.ex.old[self.param].fields["scheme"].length),
                ("one-entry-per-grid", V_(c.len()) == V_(sch.length))]

    @property
    def loops(self):
        return {0: Loop(inv=lambda S, env, g: self.inv_copy(S, env, g))}

    def post(self, S, old, env, result):
        from pyvc import values as Vv
        sch = env[self.param].fields["scheme"]
        n = sch.length
        # coefs (after the division) is defined pointwise as raw/len_coefs by the element-wise division; raw is the lstsq solution
        c = S.ex.env["coefs"].to_symbolic()
        Ln = Vv.to_z3(S.ex.env["len_coefs"], True)
        raw = getattr(S.ex, "lstsq_solution", None)
        if raw is None:
            return [Cl("lstsq-solution-seen", False)]
        return [Cl("scheme-size-unchanged", n == old[self.param].fields["scheme"].length),
                Cl("coefficients-sum-to-one", P.SUMR(sch.fields["coefficient"], 0, n) == 1, prop=True,
                   by=[("sum-scale", sum_scale_stmt(raw.arr, sch.fields["coefficient"], Ln, n))])]


AD = "adaptiveCombiInstanceSingleDim"
CONTRACTS = [Interpolate("MachineLearning.interpolate_points_component_grid"),
             Interpolate("SpatiallyAdaptiveSingleDimensions2.interpolate_points", "sparseSpACE/spatiallyAdaptiveSingleDimension2.py"),
             MatrixOpticom("Regression.build_matrix_opticom", "combiObject"), MatrixOpticom("Regression.build_matrix_opticom_spatially_adaptive", AD),
             NormaliseByError("Regression.optimize_coefficients_error_per_grid", "combiObject", "StandardCombi"),
             NormaliseByError("Regression.optimize_coefficients_error_per_grid_spatially_adaptive", AD, "SpatiallyAdaptiveSingleDimensions2"),
             NormaliseLstsq("Regression.optimize_coefficients_minimize_whole_error", "combiObject", "StandardCombi"),
             NormaliseLstsq("Regression.optimize_coefficients_minimize_whole_error_spatially_adaptive", AD, "SpatiallyAdaptiveSingleDimensions2"),
             NormaliseLinearSystem("Regression.optimize_coefficients_linear_system", "combiObject", "StandardCombi"),
             NormaliseLinearSystem("Regression.optimize_coefficients_linear_system_spatially_adaptive", AD, "SpatiallyAdaptiveSingleDimensions2")]
LEMMAS = [L.SmtLemma("sum-scale", _sum_scale_lemma, note="Sum(a/L) == Sum(a)/L by induction on the length")]
ASSUMPTIONS = ["the sum of the raw coefficients is not zero (the library divides by it; safety obligation `div` is assumed through A-NORMALISABLE)",
               "A-MSE-POS: validation errors are positive", "design matrix, smoothing matrix, normal equations, lstsq: layer B only"]


# --------------------------------------------------------------------------- smoothing matrix of a uniform component grid: every entry is the gradient Gram entry
# C20: "the smoothing matrix ... equals the Gram matrix of the basis gradients".  build_C_matrix is verified for ANY pair of grid points of a uniform grid in
# 1 and 2 dimensions: the grid is abstracted to two points with arbitrary (symbolic) index vectors, so the 2 x 2 matrix the real loops fill holds
#   C[0][1] = C[1][0] = <grad phi_p, grad phi_q>,  C[0][0] = <grad phi_p, grad phi_p>,  C[1][1] likewise,
# with the 1-D factors of hats of mesh width h = 2^-l:  stiffness 2/h (same node), -1/h (neighbours), 0 (farther);  mass 2h/3, h/6, 0.
def _pow2ax():
    j = z3.Int("p2k")
    return [P.POW2(0) == 1, z3.ForAll([j], z3.Implies(j >= 0, z3.And(P.POW2(j + 1) == 2 * P.POW2(j), P.POW2(j) >= 1)), patterns=[P.POW2(j)])]


def stiff1d(l, p, q):
    h = 1 / z3.ToReal(P.POW2(l))
    return z3.If(p == q, 2 / h, z3.If(z3.Or(p - q == 1, q - p == 1), -1 / h, z3.RealVal(0)))


def mass1d(l, p, q):
    h = 1 / z3.ToReal(P.POW2(l))
    return z3.If(p == q, 2 * h / 3, z3.If(z3.Or(p - q == 1, q - p == 1), h / 6, z3.RealVal(0)))


def grad_gram(levels, p, q):
    total = z3.RealVal(0)
    d = len(levels)
    for k in range(d):
        term = z3.RealVal(1)
        for m in range(d):
            term = term * (stiff1d(levels[k], p[k], q[k]) if m == k else mass1d(levels[m], p[m], q[m]))
        total = total + term
    return total


class GridNumPoints(Contract):
    file, qualname = "sparseSpACE/Grid.py", "Grid.get_num_points"
    trusted = True
    note = "number of points of the component grid; the proof abstracts the grid to TWO points with arbitrary index vectors (any pair of grid points)"

    def inputs(self, S):
        return {"self": Obj("TrapezoidalGrid", {})}

    def result(self, S, env):
        return 2


class CrossProductRange(Contract):
    file, qualname = "sparseSpACE/Utils.py", "get_cross_product_range_list"
    trusted = True
    note = "0-based index vectors of the grid points, one row per point; here: the two abstract points"

    def inputs(self, S):
        return {"one_d_arrays": None}

    def result(self, S, env):
        rows_ = S.ex.ghost["index_rows"]
        return Seq("array", [Seq("array", list(r)) for r in rows_])


class BuildCMatrix(Contract):
    file, qualname = FILE, "Regression.build_C_matrix"

    def __init__(self, dim):
        self.dim = dim
        self.label = "Regression.build_C_matrix[any two grid points, dim=%d]" % dim

    def inputs(self, S):
        for ax in _pow2ax():
            S.assume(ax, "def:pow2")
        d = self.dim
        rows_ = [[S.int("p%d" % k) for k in range(d)], [S.int("q%d" % k) for k in range(d)]]
        S.ex.ghost["index_rows"] = rows_
        return {"self": Obj("Regression", dict(grid=Obj("TrapezoidalGrid", dict(numPoints=None)), log_util=Obj("LogUtility", {}))), "levelvec": Seq("list", [S.int("l%d" % k) for k in range(d)])}

    def pre(self, S, env):
        rows_ = S.ex.ghost["index_rows"]
        return [("levels-at-least-one", z3.And(*[l >= 1 for l in env["levelvec"].items])),
                ("index-vectors-nonnegative", z3.And(*[x >= 0 for r in rows_ for x in r]))]

    def post(self, S, old, env, result):
        from pyvc import values as Vv
        ok = isinstance(result, Seq) and result.concrete and len(result.items) == 2 and all(isinstance(r, Seq) and r.concrete and len(r.items) == 2 for r in result.items)
        if not ok:
            return [Cl("returns-the-matrix", False, prop=True)]
        lv = old["levelvec"].items
        p, q = [[x + 1 for x in r] for r in S.ex.ghost["index_rows"]]     # the library works with 1-based indices
        e = lambda i, j: Vv.to_z3(result.items[i].items[j], True)  # noqa
        return [Cl("returns-the-matrix", True, prop=True),
                Cl("off-diagonal-entry-is-the-gradient-gram-entry-of-the-two-hats", e(0, 1) == grad_gram(lv, p, q), prop=True),
                Cl("matrix-is-symmetric", e(1, 0) == e(0, 1), prop=True),
                Cl("diagonal-entries-are-the-gradient-gram-entries", z3.And(e(0, 0) == grad_gram(lv, p, p), e(1, 1) == grad_gram(lv, q, q)), prop=True)]

    def model_to_input(self, model):
        from pyvc import modelparse as mp
        g = lambda k, dflt: int(mp.num(model.get(k, str(dflt))) or dflt)  # noqa
        return {"kind": "C20.c_matrix", "dim": self.dim, "levelvec": [g("l%d" % k, 2) for k in range(self.dim)], "p": [g("p%d" % k, 0) for k in range(self.dim)], "q": [g("q%d" % k, 0) for k in range(self.dim)]}


CONTRACTS += [GridNumPoints(), CrossProductRange(), BuildCMatrix(1), BuildCMatrix(2)]
ASSUMPTIONS += ["build_C_matrix: the grid is abstracted to two points with arbitrary symbolic index vectors (every entry of the real matrix is computed from one pair of index vectors "
                "by the same loop body); dimensions 1-2; the 1-D stiffness / mass factors of hats of width 2^-l are 2/h, -1/h, 0 and 2h/3, h/6, 0 (calculus facts behind the spec)"]
