"""Sidecar contracts for C20: "every coefficient optimisation variant returns coefficients that sum to one" (sparseSpACE/GridOperation.py, class Regression).
All six Opticom variants end by dividing the raw coefficients by their sum and writing the quotients into the component grids of the scheme.  Proved here
for any number of component grids: after the call the coefficients of the scheme sum to 1 -- whatever the validation errors / the least-squares solution
are -- provided the raw sum is not zero (otherwise the library divides by zero).  The ghost Sum is linear (lemma sum-scale, by induction).
Everything numerical (design matrix, smoothing matrix, normal equations, lstsq itself) is layer B."""
import z3

from pyvc.book import Contract, Loop
from pyvc.engine import Cl
from pyvc.values import Seq, Obj, ObjSeq, Opaque
from pyvc import prelude as P
from pyvc import lemmas as L

FILE = "sparseSpACE/GridOperation.py"
I, R, U = z3.IntSort(), z3.RealSort(), P.U


def regression(S):
    return Obj("Regression", dict(validation_data=Opaque(S.const("validation_data", U)), validation_target_values=Opaque(S.const("validation_target_values", U)),
                                  regularization_opticom=S.real("regularization_opticom")))


def combi(S, cls):
    n = S.int("n")
    S.assume(n >= 1)
    scheme = ObjSeq("ComponentGridInfo", n, dict(coefficient=S.array("coefficient", I, R)))
    return Obj(cls, dict(scheme=scheme))


def sum_scale_stmt(a, b, L_, n):
    """(forall j<n: b[j] == a[j]/L)  ==>  Sum(b,0,n) == Sum(a,0,n)/L      (lemma/sum-scale, by induction on n)"""
    j = z3.Int("ssj")
    return z3.Implies(z3.And(n >= 0, L_ != 0, z3.ForAll([j], z3.Implies(z3.And(j >= 0, j < n), z3.Select(b, j) == z3.Select(a, j) / L_))),
                      P.SUMR(b, 0, n) == P.SUMR(a, 0, n) / L_)


def _sum_scale_lemma():
    a = z3.Const("a", z3.ArraySort(I, R))
    b = z3.Const("b", z3.ArraySort(I, R))
    n = z3.Int("n")
    L_ = z3.Real("L")
    ax = P.sum_axioms()
    j = z3.Int("ssj")
    pointwise = lambda m: z3.ForAll([j], z3.Implies(z3.And(j >= 0, j < m), z3.Select(b, j) == z3.Select(a, j) / L_))  # noqa
    claim = lambda m: P.SUMR(b, 0, m) == P.SUMR(a, 0, m) / L_  # noqa
    return [(ax + [L_ != 0], claim(z3.IntVal(0))),
            (ax + [L_ != 0, n >= 0, z3.Implies(pointwise(n), claim(n)), pointwise(n + 1)], claim(n + 1))]


class Interpolate(Contract):
    trusted = True
    note = "prediction of one component grid at the validation points (numpy; an opaque vector)"

    def __init__(self, qualname, file=FILE):
        self.qualname, self.file = qualname, file

    def inputs(self, S):
        return {"self": Obj("Regression", {})}

    def result(self, S, env):
        return Opaque(S.const("learned_targets", U))


class NormaliseByError(Contract):
    """option 3 (error per grid): coefficient_i / mse_i, normalised"""
    assumed_safety = ("div",)
    assumed_safety_note = "A-NORMALISABLE: the sum of the raw coefficients is not zero -- the library divides by it without a guard"

    def __init__(self, qualname, param, cls):
        self.file, self.qualname, self.param, self.cls = FILE, qualname, param, cls

    def inputs(self, S):
        for ax in P.sum_axioms():
            S.assume(ax, "def:Sum")
        return {"self": regression(S), self.param: combi(S, self.cls)}

    def raw(self, env):
        return env.get("coefficients")

    def inv_write(self, S, env, g):
        """third loop: the first k component grids carry raw_j / length"""
        from pyvc import values as Vv
        sch = env[self.param].fields["scheme"]
        raw = env["coefficients"].to_symbolic()
        Ln = Vv.to_z3(env["length"], True)
        j = z3.Int("wj")
        return [("written-prefix", z3.ForAll([j], z3.Implies(z3.And(j >= 0, j < g["k"]), z3.Select(sch.fields["coefficient"], j) == z3.Select(raw.arr, j) / Ln))),
                ("raw-and-length-untouched", z3.And(raw.arr == g["raw0"], Ln == g["len0"])) if "raw0" in g else ("raw-and-length-untouched", z3.BoolVal(True)),
                ("length-is-the-raw-sum", Ln == P.SUMR(raw.arr, 0, Vv.to_z3(raw.len()))),
                ("length-nonzero-once-something-was-written", z3.Or(g["k"] == 0, Ln != 0) if not isinstance(g["k"], int) else z3.Or(z3.BoolVal(g["k"] == 0), Ln != 0)),
                ("one-raw-entry-per-grid", Vv.to_z3(raw.len()) == Vv.to_z3(sch.length))]

    @property
    def loops(self):
        anything = lambda S, env, g: [("scheme-size-fixed", env[self.param].fields["scheme"].length == S.ex.old[self.param].fields["scheme"].length),   # noqa
                                      ("arrays-sized", z3.And(V_(env["coefficients"].len()) == V_(env[self.param].fields["scheme"].length),
                                                              V_(env["error_vec"].len()) == V_(env[self.param].fields["scheme"].length))),
                                      ("errors-positive-so-far", errs_pos(env, g))]
        return {0: Loop(inv=anything), 1: Loop(inv=lambda S, env, g: anything(S, env, g)[:2] + [("errors-positive", errs_pos(env, None))]),
                2: Loop(inv=lambda S, env, g: self.inv_write(S, env, g) + [("scheme-size-fixed", env[self.param].fields["scheme"].length == S.ex.old[self.param].fields["scheme"].length)])}

    def pre(self, S, env):
        return []

    def post(self, S, old, env, result):
        sch = env[self.param].fields["scheme"]
        n = sch.length
        return [Cl("scheme-size-unchanged", n == old[self.param].fields["scheme"].length),
                Cl("coefficients-sum-to-one", P.SUMR(sch.fields["coefficient"], 0, n) == 1, prop=True, uses=["loop2/inv#"],
                   by=[("sum-scale", sum_scale_stmt(S.ex.env["coefficients"].to_symbolic().arr, sch.fields["coefficient"], V_real(S.ex.env["length"]), n))])]


def V_(x):
    return z3.IntVal(x) if isinstance(x, int) else x


def V_real(x):
    from pyvc import values as Vv
    return Vv.to_z3(x, True)


def errs_pos(env, g):
    e = env["error_vec"].to_symbolic()
    j = z3.Int("ej")
    hi = g["k"] if g is not None else V_(e.len())
    return z3.ForAll([j], z3.Implies(z3.And(j >= 0, j < hi), z3.Select(e.arr, j) > 0))


class NormaliseLstsq(NormaliseByError):
    """option 2 (least squares on the validation set): lstsq solution, normalised.  The matrix of predictions is an opaque 2-D array (its entries
    are not modelled); the solution vector is arbitrary"""

    @property
    def loops(self):
        fixed = lambda S, env, g: [("scheme-size-fixed", env[self.param].fields["scheme"].length == S.ex.old[self.param].fields["scheme"].length)]  # noqa
        return {0: Loop(inv=fixed), 1: Loop(inv=fixed),
                2: Loop(inv=lambda S, env, g: self.inv_write(S, env, g) + fixed(S, env, g))}


class MatrixOpticom(Contract):
    trusted = True
    note = "Garcke's Opticom system: an n x n matrix and an n vector for the n component grids (numpy; entries opaque)"

    def __init__(self, qualname, param):
        self.file, self.qualname, self.param = FILE, qualname, param

    def inputs(self, S):
        return {"self": Obj("Regression", {}), self.param: None}

    def result(self, S, env):
        n = env[self.param].fields["scheme"].length
        m = Opaque(S.const("matrix_opticom", U))
        m.shape = (n, n)
        return Seq("tuple", [m, Opaque(S.const("vector_opticom", U))])


class NormaliseLinearSystem(NormaliseByError):
    """option 1 (Garcke): solution of the Opticom system divided by its sum (vectorised), then written into the scheme"""

    def inv_copy(self, S, env, g):
        sch = env[self.param].fields["scheme"]
        c = env["coefs"].to_symbolic()
        j = z3.Int("cj")
        return [("written-prefix", z3.ForAll([j], z3.Implies(z3.And(j >= 0, j < g["k"]), z3.Select(sch.fields["coefficient"], j) == z3.Select(c.arr, j)))),
                ("scheme-size-fixed", sch.length == S.ex.old[self.param].fields["scheme"].length),
                ("one-entry-per-grid", V_(c.len()) == V_(sch.length))]

    @property
    def loops(self):
        return {0: Loop(inv=lambda S, env, g: self.inv_copy(S, env, g))}

    def post(self, S, old, env, result):
        from pyvc import values as Vv
        sch = env[self.param].fields["scheme"]
        n = sch.length
        # coefs (after the division) is defined pointwise as raw/len_coefs by the element-wise division; raw is the lstsq solution
        c = S.ex.env["coefs"].to_symbolic()
        Ln = Vv.to_z3(S.ex.env["len_coefs"], True)
        raw = getattr(S.ex, "lstsq_solution", None)
        if raw is None:
            return [Cl("lstsq-solution-seen", False)]
        return [Cl("scheme-size-unchanged", n == old[self.param].fields["scheme"].length),
                Cl("coefficients-sum-to-one", P.SUMR(sch.fields["coefficient"], 0, n) == 1, prop=True,
                   by=[("sum-scale", sum_scale_stmt(raw.arr, sch.fields["coefficient"], Ln, n))])]


AD = "adaptiveCombiInstanceSingleDim"
CONTRACTS = [Interpolate("MachineLearning.interpolate_points_component_grid"),
             Interpolate("SpatiallyAdaptiveSingleDimensions2.interpolate_points", "sparseSpACE/spatiallyAdaptiveSingleDimension2.py"),
             MatrixOpticom("Regression.build_matrix_opticom", "combiObject"), MatrixOpticom("Regression.build_matrix_opticom_spatially_adaptive", AD),
             NormaliseByError("Regression.optimize_coefficients_error_per_grid", "combiObject", "StandardCombi"),
             NormaliseByError("Regression.optimize_coefficients_error_per_grid_spatially_adaptive", AD, "SpatiallyAdaptiveSingleDimensions2"),
             NormaliseLstsq("Regression.optimize_coefficients_minimize_whole_error", "combiObject", "StandardCombi"),
             NormaliseLstsq("Regression.optimize_coefficients_minimize_whole_error_spatially_adaptive", AD, "SpatiallyAdaptiveSingleDimensions2"),
             NormaliseLinearSystem("Regression.optimize_coefficients_linear_system", "combiObject", "StandardCombi"),
             NormaliseLinearSystem("Regression.optimize_coefficients_linear_system_spatially_adaptive", AD, "SpatiallyAdaptiveSingleDimensions2")]
LEMMAS = [L.SmtLemma("sum-scale", _sum_scale_lemma, note="Sum(a/L) == Sum(a)/L by induction on the length")]
ASSUMPTIONS = ["the sum of the raw coefficients is not zero (the library divides by it; safety obligation `div` is assumed through A-NORMALISABLE)",
               "A-MSE-POS: validation errors are positive", "design matrix, smoothing matrix, normal equations, lstsq: layer B only"]
