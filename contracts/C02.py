"""Sidecar contracts for C02 (standard combination = sparse-grid interpolant).
P: the 1-D trapezoidal grid contracts (shared with C08: announced count == returned points, coordinates, containment).
L: nestedness of the 1-D point sets (SMT) and the Lean lemmas point_coeff_sum / combi_telescope / coeff_sum_eq:
   for nested 1-D point families and a downward-closed index set, every point of the union of component grids has coefficient sum 1,
   and a nodal component interpolation combined with the inclusion-exclusion coefficients reproduces the function at every such point.
The link between the real StandardCombi / interpn code and these spec-level statements is the bounded layer B."""
import z3

from pyvc import lemmas as L
from contracts import C08
from contracts.lean_lemmas import COMBI_IE


def _nested():
    """x_i at level l equals x_{2i} at level l+1 for the equidistant grid on [s,e] (p = 2^l > 0)"""
    s, e, p = z3.Reals("s e p")
    i = z3.Int("i")
    xi = s + z3.ToReal(i) * (e - s) / p
    x2i = s + z3.ToReal(2 * i) * (e - s) / (2 * p)
    return [([p >= 1, s < e], xi == x2i)]


CONTRACTS = [C08.LevelToNumPoints(), C08.GetPointsAndWeights(), C08.SetCurrentArea(), C08.WeightCompositeTrapezoidal(), C08.Get1dWeight()]
LEMMAS = [COMBI_IE, L.SmtLemma("trapezoidal-points-nested-in-level", _nested)] + list(C08.LEMMAS)
ASSUMPTIONS = C08.ASSUMPTIONS + ["exactness on the hierarchical hat space between grid points and for integration is not formalised (Griebel/Schneider/Zenger 1992): layer B",
                                 "scipy.interpolate.interpn(method='linear') is multilinear interpolation (external)"]
