"""Sidecar contracts for C03 (dimension-wise strategy: selection of 1-D points through the subtraction value)."""
import z3

from pyvc.book import Contract, Loop
from pyvc.engine import Cl
from pyvc.values import Seq, Obj
from pyvc import lemmas as L
from contracts.lean_lemmas import COMBI_IE

FILE = "sparseSpACE/spatiallyAdaptiveSingleDimension2.py"
I = z3.IntSort()


def spec_modify(m, l, max_level, lmin, lmax):
    """spec function of modify_according_to_levelvec (DESIGN App. B)"""
    m1 = z3.If(z3.And(l - m >= max_level, l < lmax), l - max_level + 1, m)
    return z3.If(m1 <= l - lmin, m1, l - lmin)


def _inputs(S, tag=""):
    dim = S.int("dim")
    S.assume(dim >= 1)
    slf = Obj("SpatiallyAdaptiveSingleDimensions2", dict(dim=dim, lmin=S.seq("lmin", dim, I), lmax=S.seq("lmax", dim, I)))
    d = S.int("d")
    return slf, dict(self=slf, subtraction_value=S.int("m" + tag), d=d, max_level=S.int("max_level"), levelvec=S.seq("levelvec" + tag, dim, I))


def _model_to_input(model):
    from pyvc import modelparse as mp
    dim = mp.num(model.get("dim", "1"))
    d = mp.num(model.get("d", "0"))
    inp = {"kind": "C03.modify", "dim": dim, "d": d, "m": mp.num(model.get("m", "0")), "max_level": mp.num(model.get("max_level", "1")),
           "lmin": mp.seq(model, "lmin", dim), "lmax": mp.seq(model, "lmax", dim), "levelvec": mp.seq(model, "levelvec", dim)}
    if "levelvec_b" in model:
        inp["levelvec_b"] = mp.seq(model, "levelvec_b", dim)
    return inp


def _pre(env):
    s = env["self"]
    d = env["d"]
    l = z3.Select(env["levelvec"].arr, d)
    return [("d-in-range", z3.And(d >= 0, d < s.fields["dim"])),
            ("subtraction-nonneg", env["subtraction_value"] >= 0),
            # call sites: component level is between the dimension's minimum and maximum level, max_level >= 1
            ("level-range", z3.And(z3.Select(s.fields["lmin"].arr, d) <= l, l <= z3.Select(s.fields["lmax"].arr, d))),
            ("lmin-at-least-1", z3.Select(s.fields["lmin"].arr, d) >= 1),
            ("max-level", env["max_level"] >= 1)]


class Modify(Contract):
    file, qualname = FILE, "SpatiallyAdaptiveSingleDimensions2.modify_according_to_levelvec"

    def __init__(self, lmin_is_property=False):
        # "never below lmin" keeps the exactness of the initial scheme: a clause of C04's statement, not of C03's (a family of 1-D point sets that
        # starts below lmin is still sorted, nested and level-determined) -> property clause under C04, auxiliary under C03
        self.lmin_is_property = lmin_is_property

    def inputs(self, S):
        return _inputs(S)[1]

    model_to_input = staticmethod(_model_to_input)

    def pre(self, S, env):
        return _pre(env)

    def result(self, S, env):
        return S.int("modified")

    def post(self, S, old, env, result):
        s = old["self"]
        d = old["d"]
        l = z3.Select(old["levelvec"].arr, d)
        lmin, lmax = z3.Select(s.fields["lmin"].arr, d), z3.Select(s.fields["lmax"].arr, d)
        r = result
        return [Cl("never-below-lmin", l - r >= lmin, prop=self.lmin_is_property),           # coarsening never goes below what the initial scheme contained (C04)
                Cl("never-above-level", z3.And(r >= 0, l - r <= l), prop=True),
                Cl("equals-spec", r == spec_modify(old["subtraction_value"], l, old["max_level"], lmin, lmax)),
                Cl("levelvec-untouched", env["levelvec"].arr == old["levelvec"].arr),
                Cl("lmin-lmax-untouched", z3.And(env["self"].fields["lmin"].arr == s.fields["lmin"].arr, env["self"].fields["lmax"].arr == s.fields["lmax"].arr))]


class ModifyMonotone(Contract):
    """relational: two component levels l and l+1 in dimension d, everything else equal
    => the selected level  f(l) = l - result  does not decrease: the 1-D point set grows with the component level"""
    file, qualname = FILE, "SpatiallyAdaptiveSingleDimensions2.modify_according_to_levelvec"
    relational = True
    label = "SpatiallyAdaptiveSingleDimensions2.modify_according_to_levelvec[monotone]"
    model_to_input = staticmethod(_model_to_input)

    def inputs(self, S):
        slf, a = _inputs(S)
        b = dict(a)
        b["levelvec"] = S.seq("levelvec_b", slf.fields["dim"], I)
        S.assume(z3.Select(b["levelvec"].arr, a["d"]) == z3.Select(a["levelvec"].arr, a["d"]) + 1)
        return (a, b)

    def pre(self, S, env):
        a, b = env
        return _pre(a) + [(n + ".b", e) for n, e in _pre(b)]

    def post(self, S, old, env, results):
        a, b = old
        ra, rb = results
        la = z3.Select(a["levelvec"].arr, a["d"])
        lb = z3.Select(b["levelvec"].arr, b["d"])
        return [Cl("selected-level-monotone-in-component-level", la - ra <= lb - rb, prop=True)]


class ModifyReadsOnlyOwnLevel(Contract):
    """relational: two level vectors that agree at index d give the same result (the 1-D set depends on (d, l_d) only)"""
    file, qualname = FILE, "SpatiallyAdaptiveSingleDimensions2.modify_according_to_levelvec"
    relational = True
    label = "SpatiallyAdaptiveSingleDimensions2.modify_according_to_levelvec[reads-own-level]"
    model_to_input = staticmethod(_model_to_input)

    def inputs(self, S):
        slf, a = _inputs(S)
        b = dict(a)
        b["levelvec"] = S.seq("levelvec_b", slf.fields["dim"], I)
        S.assume(z3.Select(b["levelvec"].arr, a["d"]) == z3.Select(a["levelvec"].arr, a["d"]))
        return (a, b)

    def pre(self, S, env):
        a, b = env
        return _pre(a)

    def post(self, S, old, env, results):
        ra, rb = results
        return [Cl("depends-only-on-own-level", ra == rb, prop=True)]


CONTRACTS = [Modify(), ModifyMonotone(), ModifyReadsOnlyOwnLevel()]
LEMMAS = [COMBI_IE]
ASSUMPTIONS = ["get_subtraction_value / get_point_coord_for_each_dim / rebalancing are outside the verified subset (list comprehensions over symbolic ranges, "
               "object graphs): covered by layer B only",
               "preconditions of modify_according_to_levelvec are taken from its call sites (0<=m, lmin[d]<=l<=lmax[d], max_level>=1)"]
