"""Sidecar contracts for C03 (dimension-wise strategy: selection of 1-D points through the subtraction value)."""
import z3

from pyvc.book import Contract, Loop
from pyvc.engine import Cl
from pyvc.values import Seq, Obj
from pyvc import lemmas as L
from contracts.lean_lemmas import COMBI_IE

FILE = "sparseSpACE/spatiallyAdaptiveSingleDimension2.py"
I = z3.IntSort()


def spec_modify(m, l, max_level, lmin, lmax):
    """spec function of modify_according_to_levelvec (DESIGN App. B)"""
    m1 = z3.If(z3.And(l - m >= max_level, l < lmax), l - max_level + 1, m)
    return z3.If(m1 <= l - lmin, m1, l - lmin)


def _inputs(S, tag=""):
    dim = S.int("dim")
    S.assume(dim >= 1)
    slf = Obj("SpatiallyAdaptiveSingleDimensions2", dict(dim=dim, lmin=S.seq("lmin", dim, I), lmax=S.seq("lmax", dim, I)))
    d = S.int("d")
    return slf, dict(self=slf, subtraction_value=S.int("m" + tag), d=d, max_level=S.int("max_level"), levelvec=S.seq("levelvec" + tag, dim, I))


def _model_to_input(model):
    from pyvc import modelparse as mp
    dim = mp.num(model.get("dim", "1"))
    d = mp.num(model.get("d", "0"))
    inp = {"kind": "C03.modify", "dim": dim, "d": d, "m": mp.num(model.get("m", "0")), "max_level": mp.num(model.get("max_level", "1")),
           "lmin": mp.seq(model, "lmin", dim), "lmax": mp.seq(model, "lmax", dim), "levelvec": mp.seq(model, "levelvec", dim)}
    if "levelvec_b" in model:
        inp["levelvec_b"] = mp.seq(model, "levelvec_b", dim)
    return inp


def _pre(env):
    s = env["self"]
    d = env["d"]
    l = z3.Select(env["levelvec"].arr, d)
    return [("d-in-range", z3.And(d >= 0, d < s.fields["dim"])),
            ("subtraction-nonneg", env["subtraction_value"] >= 0),
            # call sites: component level is between the dimension's minimum and maximum level, max_level >= 1
            ("level-range", z3.And(z3.Select(s.fields["lmin"].arr, d) <= l, l <= z3.Select(s.fields["lmax"].arr, d))),
            ("lmin-at-least-1", z3.Select(s.fields["lmin"].arr, d) >= 1),
            ("max-level", env["max_level"] >= 1)]


class Modify(Contract):
    file, qualname = FILE, "SpatiallyAdaptiveSingleDimensions2.modify_according_to_levelvec"

    def __init__(self, lmin_is_property=False):
        # "never below lmin" keeps the exactness of the initial scheme: a clause of C04's statement, not of C03's (a family of 1-D point sets that
        # starts below lmin is still sorted, nested and level-determined) -> property clause under C04, auxiliary under C03
        self.lmin_is_property = lmin_is_property

    def inputs(self, S):
        return _inputs(S)[1]

    model_to_input = staticmethod(_model_to_input)

    def pre(self, S, env):
        return _pre(env)

    def result(self, S, env):
        return S.int("modified")

    def post(self, S, old, env, result):
        s = old["self"]
        d = old["d"]
        l = z3.Select(old["levelvec"].arr, d)
        lmin, lmax = z3.Select(s.fields["lmin"].arr, d), z3.Select(s.fields["lmax"].arr, d)
        r = result
        return [Cl("never-below-lmin", l - r >= lmin, prop=self.lmin_is_property),           # coarsening never goes below what the initial scheme contained (C04)
                Cl("never-above-level", z3.And(r >= 0, l - r <= l), prop=True),
                Cl("equals-spec", r == spec_modify(old["subtraction_value"], l, old["max_level"], lmin, lmax)),
                Cl("levelvec-untouched", env["levelvec"].arr == old["levelvec"].arr),
                Cl("lmin-lmax-untouched", z3.And(env["self"].fields["lmin"].arr == s.fields["lmin"].arr, env["self"].fields["lmax"].arr == s.fields["lmax"].arr))]


class ModifyMonotone(Contract):
    """relational: two component levels l and l+1 in dimension d, everything else equal
    => the selected level  f(l) = l - result  does not decrease: the 1-D point set grows with the component level"""
    file, qualname = FILE, "SpatiallyAdaptiveSingleDimensions2.modify_according_to_levelvec"
    relational = True
    label = "SpatiallyAdaptiveSingleDimensions2.modify_according_to_levelvec[monotone]"
    model_to_input = staticmethod(_model_to_input)

    def inputs(self, S):
        slf, a = _inputs(S)
        b = dict(a)
        b["levelvec"] = S.seq("levelvec_b", slf.fields["dim"], I)
        S.assume(z3.Select(b["levelvec"].arr, a["d"]) == z3.Select(a["levelvec"].arr, a["d"]) + 1)
        return (a, b)

    def pre(self, S, env):
        a, b = env
        return _pre(a) + [(n + ".b", e) for n, e in _pre(b)]

    def post(self, S, old, env, results):
        a, b = old
        ra, rb = results
        la = z3.Select(a["levelvec"].arr, a["d"])
        lb = z3.Select(b["levelvec"].arr, b["d"])
        return [Cl("selected-level-monotone-in-component-level", la - ra <= lb - rb, prop=True)]


class ModifyReadsOnlyOwnLevel(Contract):
    """relational: two level vectors that agree at index d give the same result (the 1-D set depends on (d, l_d) only)"""
    file, qualname = FILE, "SpatiallyAdaptiveSingleDimensions2.modify_according_to_levelvec"
    relational = True
    label = "SpatiallyAdaptiveSingleDimensions2.modify_according_to_levelvec[reads-own-level]"
    model_to_input = staticmethod(_model_to_input)

    def inputs(self, S):
        slf, a = _inputs(S)
        b = dict(a)
        b["levelvec"] = S.seq("levelvec_b", slf.fields["dim"], I)
        S.assume(z3.Select(b["levelvec"].arr, a["d"]) == z3.Select(a["levelvec"].arr, a["d"]))
        return (a, b)

    def pre(self, S, env):
        a, b = env
        return _pre(a)

    def post(self, S, old, env, results):
        ra, rb = results
        return [Cl("depends-only-on-own-level", ra == rb, prop=True)]


CONTRACTS = [Modify(), ModifyMonotone(), ModifyReadsOnlyOwnLevel()]
LEMMAS = [COMBI_IE]
ASSUMPTIONS = ["get_subtraction_value / get_point_coord_for_each_dim / rebalancing are outside the verified subset (list comprehensions over symbolic ranges, "
               "object graphs): covered by layer B only",
               "preconditions of modify_according_to_levelvec are taken from its call sites (0<=m, lmin[d]<=l<=lmax[d], max_level>=1)"]


# --------------------------------------------------------------------------- the 1-D point sets of a component grid: get_point_coord_for_each_dim
from pyvc.values import ObjSeq  # noqa: E402

R = z3.RealSort()
SUBV = z3.Function("SubtractionValue", I, I, I, I)      # (dimension, interval index, component level in that dimension) -> levels to subtract


def zmax(a, b):
    return z3.If(a >= b, a, b)


class GetMaxCoarsening(Contract):
    file, qualname = "sparseSpACE/RefinementContainer.py", "MetaRefinementContainer.get_max_coarsening"
    trusted = True
    note = "largest coarsening level of the dimension (an integer; only handed on to get_subtraction_value)"

    def inputs(self, S):
        return {"self": Obj("MetaRefinementContainer", {}), "d": S.int("d")}

    def result(self, S, env):
        return S.int("max_coarsening")


class GetSubtractionValue(Contract):
    file, qualname = FILE, "SpatiallyAdaptiveSingleDimensions2.get_subtraction_value"
    trusted = True
    note = ("A-SUB: for the refinement structure at hand the subtraction value is a function of (dimension, interval index, component level in that dimension) "
            "-- its dependence on the own level only is what the relational contract of modify_according_to_levelvec proves for its last step; the rest of "
            "get_subtraction_value (object graph walks) is layer B")

    def inputs(self, S):
        return {"self": Obj("SpatiallyAdaptiveSingleDimensions2", {}), "refineObj": None, "refineContainer": None, "i": S.int("i"), "max_coarsenings": None, "d": S.int("d"),
                "levelvec": Seq("list", [S.int("lv0")])}

    def result(self, S, env):
        from pyvc import values as Vv
        lv = env["levelvec"]
        d = env["d"]
        l = lv.items[d] if (lv.concrete and isinstance(d, int)) else z3.Select(lv.to_symbolic().arr, Vv.to_z3(d))
        return SUBV(Vv.to_z3(d), Vv.to_z3(env["i"]), Vv.to_z3(l))


def dim_container(S, c):
    n = S.int("n%d" % c)
    S.assume(n >= 1)
    objs = ObjSeq("RefinementObjectSingleDimension", n, dict(start=S.array("start%d" % c, I, R), end=S.array("end%d" % c, I, R),
                                                             levels=[S.array("l0_%d" % c, I, I), S.array("l1_%d" % c, I, I)],
                                                             coarsening_level=S.array("coarsening%d" % c, I, I)))
    return Obj("RefinementContainer", dict(refinementObjects=objs))


def tiling_pre(cont, tag):
    o = cont.fields["refinementObjects"]
    n = o.length
    st, en = o.fields["start"], o.fields["end"]
    l0, l1 = o.fields["levels"]
    i = z3.Int("ti")
    return [(tag + "intervals-tile-in-ascending-order", z3.ForAll([i], z3.Implies(z3.And(i >= 0, i < n), z3.And(z3.Select(st, i) < z3.Select(en, i),
                                                                                                          z3.Implies(i < n - 1, z3.And(z3.Select(en, i) == z3.Select(st, i + 1),
                                                                                                                                      z3.Select(l1, i) == z3.Select(l0, i + 1))))),
                                                                   patterns=[z3.Select(en, i)])),
            (tag + "end-points-have-level-0", z3.And(z3.Select(l0, 0) == 0, z3.Select(l1, n - 1) == 0))]


def included(o, d, i, l_d):
    """the inclusion test of the real code: the right end of interval i belongs to the 1-D set of component level l_d"""
    l1 = o.fields["levels"][1]
    return z3.Select(l1, i) <= zmax(l_d - SUBV(d, i, l_d), 1)


class PointCoords(Contract):
    """get_point_coord_for_each_dim for a fixed number of dimensions (1, 2), any container sizes: every returned 1-D list is strictly ascending, starts
    at the left end of the first interval and ends at the right end of the last one (the domain end points), and consists exactly of the left domain
    end plus the right ends of the intervals that pass the level test -- so it is determined by (dimension, component level in that dimension) and the
    refinement structure alone.  The children bookkeeping (NodeInfo lists) is sliced away: it does not write the point lists."""
    file, qualname = FILE, "SpatiallyAdaptiveSingleDimensions2.get_point_coord_for_each_dim"
    inline = ("MetaRefinementContainer.get_refinement_container_for_dim", "get_refinement_container_for_dim", "RefinementContainer.get_objects", "get_objects")
    slice_out = ("children_indices", "children_indices_dim")

    def __init__(self, dim):
        self.dim = dim
        self.label = "SpatiallyAdaptiveSingleDimensions2.get_point_coord_for_each_dim[dims=%d]" % dim

    def inputs(self, S):
        conts = [dim_container(S, c) for c in range(self.dim)]
        meta = Obj("MetaRefinementContainer", dict(refinementContainers=Seq("list", conts)))
        slf = Obj("SpatiallyAdaptiveSingleDimensions2", dict(dim=self.dim, refinement=meta, use_local_children=True, force_balanced_refinement_tree=False))
        return {"self": slf, "levelvec": Seq("list", [S.int("level%d" % c) for c in range(self.dim)])}

    def pre(self, S, env):
        out = []
        for c, cont in enumerate(env["self"].fields["refinement"].fields["refinementContainers"].items):
            out += tiling_pre(cont, "dim%d." % c)
        return out

    def facts(self, o, d, l_d, P_, Lv, k):
        """invariant of the selection loop after k intervals (P_, Lv: the point and level lists as symbolic sequences)"""
        from pyvc import values as Vv
        st, en = o.fields["start"], o.fields["end"]
        l1 = o.fields["levels"][1]
        n = Vv.to_z3(P_.len())
        p, i = z3.Int("pp"), z3.Int("ii")
        lastb = z3.If(k == 0, z3.Select(st, 0), z3.Select(en, k - 1))
        return [("list-sizes", z3.And(n >= 1, n <= k + 1, Vv.to_z3(Lv.len()) == n)),
                ("starts-at-the-left-domain-end", z3.And(z3.Select(P_.arr, 0) == z3.Select(st, 0), z3.Select(Lv.arr, 0) == z3.Select(o.fields["levels"][0], 0))),
                ("strictly-ascending", z3.ForAll([p], z3.Implies(z3.And(p >= 0, p < n - 1), z3.Select(P_.arr, p) < z3.Select(P_.arr, p + 1)), patterns=[z3.Select(P_.arr, p)])),
                ("last-point-not-beyond-the-processed-intervals", z3.Select(P_.arr, n - 1) <= lastb),
                ("every-point-is-the-right-end-of-an-interval-passing-the-level-test",
                 z3.ForAll([p], z3.Implies(z3.And(p >= 1, p < n), z3.Exists([i], z3.And(i >= 0, i < k, z3.Select(P_.arr, p) == z3.Select(en, i), included(o, d, i, l_d),
                                                                                       z3.Select(Lv.arr, p) == z3.Select(l1, i)))), patterns=[z3.Select(P_.arr, p)])),
                Cl("every-interval-passing-the-level-test-contributes-its-right-end",
                   z3.ForAll([i], z3.Implies(z3.And(i >= 0, i < k, included(o, d, i, l_d)), z3.Exists([p], z3.And(p >= 1, p < n, z3.Select(P_.arr, p) == z3.Select(en, i)))),
                             patterns=[z3.Select(en, i)]),
                   uses=["loop2/inv#every-interval", "loop2/inv#list-sizes", "loop2/inv#structure-untouched"]),
                ("last-processed-interval-if-included-is-the-last-point", z3.Implies(z3.And(k >= 1, included(o, d, k - 1, l_d)), z3.Select(P_.arr, n - 1) == z3.Select(en, k - 1)))]

    def inv(self, S, env, g):
        from pyvc import values as Vv
        old = S.ex.old
        d = env["d"]
        cont = old["self"].fields["refinement"].fields["refinementContainers"].items[d]
        o = cont.fields["refinementObjects"]
        l_d = old["levelvec"].items[d]
        P_, Lv = env["points_dim"].to_symbolic(), env["points_level_dim"].to_symbolic()
        cur = env["self"].fields["refinement"].fields["refinementContainers"].items[d].fields["refinementObjects"]
        same = [("structure-untouched", z3.And(cur.fields["start"] == o.fields["start"], cur.fields["end"] == o.fields["end"], cur.fields["levels"][1] == o.fields["levels"][1],
                                               Vv.to_z3(cur.length) == Vv.to_z3(o.length)))]
        return self.facts(o, d, l_d, P_, Lv, g["k"]) + same

    @property
    def loops(self):
        return {2: Loop(inv=lambda S, env, g: self.inv(S, env, g))}

    def post(self, S, old, env, result):
        from pyvc import values as Vv
        ok = isinstance(result, Seq) and result.concrete and len(result.items) == 3 and all(isinstance(result.items[q], Seq) and result.items[q].concrete
                                                                                         and len(result.items[q].items) == self.dim for q in (0, 1))
        if not ok:
            return [Cl("returns-point-and-level-lists-per-dimension", False)]
        out = [Cl("returns-point-and-level-lists-per-dimension", True)]
        for d in range(self.dim):
            o = old["self"].fields["refinement"].fields["refinementContainers"].items[d].fields["refinementObjects"]
            P_, Lv = result.items[0].items[d].to_symbolic(), result.items[1].items[d].to_symbolic()
            n = Vv.to_z3(P_.len())
            f = dict(((it.name, it.expr) if isinstance(it, Cl) else (it[0], it[1])) for it in self.facts(o, d, old["levelvec"].items[d], P_, Lv, o.length))
            out += [Cl("dim%d.strictly-ascending" % d, f["strictly-ascending"], prop=True),
                    Cl("dim%d.contains-both-domain-end-points" % d, z3.And(z3.Select(P_.arr, 0) == z3.Select(o.fields["start"], 0),
                                                                         z3.Select(P_.arr, n - 1) == z3.Select(o.fields["end"], o.length - 1)), prop=True),
                    Cl("dim%d.points-are-exactly-the-interval-ends-passing-the-level-test-of-this-dimension" % d,
                       z3.And(f["every-point-is-the-right-end-of-an-interval-passing-the-level-test"], f["every-interval-passing-the-level-test-contributes-its-right-end"]), prop=True),
                    Cl("dim%d.one-level-per-point-and-the-left-end-carries-its-level" % d, z3.And(Vv.to_z3(Lv.len()) == n, f["starts-at-the-left-domain-end"]))]
        return out


CONTRACTS += [GetMaxCoarsening(), GetSubtractionValue(), PointCoords(1), PointCoords(2)]
ASSUMPTIONS += ["get_point_coord_for_each_dim: dims 1 and 2 (outer loops unrolled), use_local_children True, force_balanced_refinement_tree False; the NodeInfo / children "
                "bookkeeping is sliced away mechanically (statements that only feed children_indices*); A-SUB for the subtraction value; the refinement containers satisfy "
                "the C06 structure invariant (ascending tiling, shared end-point levels, level 0 at the domain ends)"]


def _nested_sets_lemma():
    """two component levels l < l' in dimension d: if the level test is monotone in the component level (what the relational contract of
    modify_according_to_levelvec provides for the selected level l - subtraction), every point of the 1-D set of level l is a point of the set of level l'
    -- stated over the characterisation proved for get_point_coord_for_each_dim (left domain end + right ends of the intervals passing the level test)"""
    A1, A2 = z3.Const("PA", z3.ArraySort(I, R)), z3.Const("PB", z3.ArraySort(I, R))
    na, nb, n = z3.Ints("na nb n")
    en = z3.Const("en", z3.ArraySort(I, R))
    st0 = z3.Real("st0")
    incA = z3.Function("includedA", I, z3.BoolSort())      # level test at level l
    incB = z3.Function("includedB", I, z3.BoolSort())      # level test at level l'
    p, q, i = z3.Ints("p q i")

    def charact(A, m, inc):
        return [m >= 1, z3.Select(A, 0) == st0,
                z3.ForAll([p], z3.Implies(z3.And(p >= 1, p < m), z3.Exists([i], z3.And(i >= 0, i < n, z3.Select(A, p) == z3.Select(en, i), inc(i))))),
                z3.ForAll([i], z3.Implies(z3.And(i >= 0, i < n, inc(i)), z3.Exists([p], z3.And(p >= 1, p < m, z3.Select(A, p) == z3.Select(en, i)))))]
    mono = z3.ForAll([i], z3.Implies(incA(i), incB(i)))
    goal = z3.ForAll([p], z3.Implies(z3.And(p >= 0, p < na), z3.Exists([q], z3.And(q >= 0, q < nb, z3.Select(A2, q) == z3.Select(A1, p)))))
    return [(charact(A1, na, incA) + charact(A2, nb, incB) + [mono], goal)]


LEMMAS += [L.SmtLemma("one-dimensional-point-sets-grow-with-the-level", _nested_sets_lemma,
                      note="consequence of the characterisation of get_point_coord_for_each_dim and a level test that is monotone in the component level")]


# --------------------------------------------------------------------------- get_subtraction_value, versions 2 and 3 (loop-free): relational contracts
MAXLEVEL = z3.Function("MaxLevelAround", I, I, I)        # (dimension, interval index) -> highest level in the neighbourhood the library scans (get_max_level)
Vec2 = z3.ArraySort(I, I)


class GetMaxLevel(Contract):
    file, qualname = FILE, "SpatiallyAdaptiveSingleDimensions2.get_max_level"
    trusted = True
    note = "highest point level around interval i of dimension d (scan of the neighbouring intervals, cached): a function of the refinement structure, (d, i) -> level >= 1"

    def applies(self, receiver, args):
        return "version" in receiver.fields

    def inputs(self, S):
        return {"self": Obj("SpatiallyAdaptiveSingleDimensions2", {}), "refine_container": None, "refine_obj": None, "i": S.int("i"), "d": S.int("d")}

    def result(self, S, env):
        from pyvc import values as Vv
        r = MAXLEVEL(Vv.to_z3(env["d"]), Vv.to_z3(env["i"]))
        S.assume(r >= 1)
        return r


def _sub_inputs(S, version, tag=""):
    dim = S.int("dim")
    S.assume(dim >= 1)
    slf = Obj("SpatiallyAdaptiveSingleDimensions2", dict(dim=dim, version=version, lmin=S.seq("lmin", dim, I), lmax=S.seq("lmax", dim, I),
                                                         max_level_dict=S.dict("max_level_dict", Vec2, I), subtraction_value_cache=S.dict("sv_cache", Vec2, I)))
    return slf, dict(self=slf, refineObj=None, refineContainer=None, i=S.int("i"), max_coarsenings=S.seq("max_coarsenings", dim, I), d=S.int("d"), levelvec=S.seq("levelvec" + tag, dim, I))


def _sub_pre(env):
    s, d = env["self"], env["d"]
    l = z3.Select(env["levelvec"].arr, d)
    return [("d-in-range", z3.And(d >= 0, d < s.fields["dim"])), ("interval-index", env["i"] >= 0),
            ("level-range", z3.And(z3.Select(s.fields["lmin"].arr, d) <= l, l <= z3.Select(s.fields["lmax"].arr, d))),
            ("lmin-at-least-1", z3.Select(s.fields["lmin"].arr, d) >= 1)]


def _sub_model_to_input(version):
    def conv(model):
        from pyvc import modelparse as mp
        dim = mp.num(model.get("dim", "1")) or 1
        return {"kind": "C03.subtraction", "version": version, "dim": dim, "d": mp.num(model.get("d", "0")) or 0, "lmin": mp.seq(model, "lmin", dim), "lmax": mp.seq(model, "lmax", dim)}
    return conv


class SubtractionMonotone(Contract):
    """relational: the same interval seen from two component grids whose levels in dimension d are l and l+1 -- the level down to which points are kept,
    max(l - subtraction value, 1), does not decrease: the 1-D point set grows with the component level (versions 2 and 3)"""
    file, qualname = FILE, "SpatiallyAdaptiveSingleDimensions2.get_subtraction_value"
    relational = True

    def __init__(self, version):
        self.version = version
        self.label = "SpatiallyAdaptiveSingleDimensions2.get_subtraction_value[version %d, monotone]" % version
        self.model_to_input = _sub_model_to_input(version)

    def inputs(self, S):
        slf, a = _sub_inputs(S, self.version)
        b = dict(a)
        b["levelvec"] = S.seq("levelvec_b", slf.fields["dim"], I)
        S.assume(z3.Select(b["levelvec"].arr, a["d"]) == z3.Select(a["levelvec"].arr, a["d"]) + 1)
        return (a, b)

    def pre(self, S, env):
        a, b = env
        return _sub_pre(a) + [(n + ".b", e) for n, e in _sub_pre(b)]

    def post(self, S, old, env, results):
        from pyvc import values as Vv
        a, b = old
        ra, rb = [Vv.to_z3(r) for r in results]
        la, lb = z3.Select(a["levelvec"].arr, a["d"]), z3.Select(b["levelvec"].arr, b["d"])
        keep = lambda l, r: z3.If(l - r >= 1, l - r, 1)  # noqa
        return [Cl("kept-level-monotone-in-component-level", keep(la, ra) <= keep(lb, rb), prop=True)]


class SubtractionReadsOwnLevel(SubtractionMonotone):
    """relational: two component grids with the same level in dimension d get the same subtraction value (the 1-D set depends on (d, l_d) only)"""

    def __init__(self, version):
        self.version = version
        self.label = "SpatiallyAdaptiveSingleDimensions2.get_subtraction_value[version %d, reads-own-level]" % version
        self.model_to_input = _sub_model_to_input(version)

    def inputs(self, S):
        slf, a = _sub_inputs(S, self.version)
        b = dict(a)
        b["levelvec"] = S.seq("levelvec_b", slf.fields["dim"], I)
        S.assume(z3.Select(b["levelvec"].arr, a["d"]) == z3.Select(a["levelvec"].arr, a["d"]))
        return (a, b)

    def pre(self, S, env):
        return _sub_pre(env[0])

    def post(self, S, old, env, results):
        from pyvc import values as Vv
        ra, rb = [Vv.to_z3(r) for r in results]
        return [Cl("depends-only-on-own-level", ra == rb, prop=True)]


CONTRACTS += [GetMaxLevel(), SubtractionMonotone(2), SubtractionReadsOwnLevel(2), SubtractionMonotone(3), SubtractionReadsOwnLevel(3)]


# --------------------------------------------------------------------------- a refinement step that is refused leaves the 1-D structure as it was
# C03 speaks about the component grids after EVERY refinement step of a history; a history may contain a step that the library refuses (an interval of two
# adjacent floating-point numbers cannot be split: RefinementObjectSingleDimension.refine asserts start < mid < end) and that the caller catches before going
# on.  The 1-D point sets keep containing the domain end points only if the refused step leaves the container untouched (C06 contract, verified here too).
from contracts import C06  # noqa: E402

CONTRACTS += [C06.ObjRefineForCallers(), C06.ContainerRefineRefusal()]
