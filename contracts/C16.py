"""Sidecar contracts for C16: analytic Gram (R-matrix) entries of the hat basis (sparseSpACE/GridOperation.py); any dimension via a product ghost (below).
Loop-free for a fixed dimension: verified for dim in {1,2} with fully symbolic coordinates (bound on dim stated)."""
import z3

from pyvc.book import Contract
from pyvc.engine import Cl
from pyvc.values import Seq, Obj

FILE = "sparseSpACE/GridOperation.py"


def zabs(x):
    return z3.If(x >= 0, x, -x)


def gram1d(pi, ai, ci, pj, aj, cj):
    """exact integral of the product of the two piecewise-linear hat functions with peaks pi, pj and supports [ai,ci], [aj,cj]
    for nodes of one grid: either the same node or neighbouring nodes (computed by hand from the definition of the hats)"""
    return z3.If(pi == pj, (pi - ai) / 3 + (ci - pi) / 3, zabs(pi - pj) / 6)


class RValue(Contract):
    file, qualname = FILE, "DensityEstimation.calculate_R_value_analytically"

    def __init__(self, dim):
        self.dim = dim
        self.label = "DensityEstimation.calculate_R_value_analytically[dim=%d]" % dim

    def model_to_input(self, model):
        from pyvc import modelparse as mp
        g = lambda k: mp.tofloat(mp.num(model.get(k, "0")))  # noqa
        d = self.dim
        return {"kind": "C16.rvalue", "dim": d, "point_i": [g("pi%d" % k) for k in range(d)], "point_j": [g("pj%d" % k) for k in range(d)],
                "domain_i": [[g("di_lo%d" % k), g("di_hi%d" % k)] for k in range(d)], "domain_j": [[g("dj_lo%d" % k), g("dj_hi%d" % k)] for k in range(d)]}

    def inputs(self, S):
        d = self.dim
        pt = lambda n: Seq("list", [S.real("%s%d" % (n, k)) for k in range(d)])  # noqa
        dom = lambda n: Seq("list", [Seq("tuple", [S.real("%s_lo%d" % (n, k)), S.real("%s_hi%d" % (n, k))]) for k in range(d)])  # noqa
        return {"self": Obj("DensityEstimation", dict(dim=d)), "point_i": pt("pi"), "domain_i": dom("di"), "point_j": pt("pj"), "domain_j": dom("dj")}

    @staticmethod
    def parts(env, k):
        pi, pj = env["point_i"].items[k], env["point_j"].items[k]
        ai, ci = env["domain_i"].items[k].items
        aj, cj = env["domain_j"].items[k].items
        return pi, ai, ci, pj, aj, cj

    def pre(self, S, env):
        out = []
        for k in range(self.dim):
            pi, ai, ci, pj, aj, cj = self.parts(env, k)
            out.append(("hat-%d-wellformed" % k, z3.And(ai <= pi, pi <= ci, ai < ci, aj <= pj, pj <= cj, aj < cj)))
            # nodes of one 1-D grid: the same node (same support) or neighbours (each is an end of the other's support) or farther apart
            same = z3.And(pi == pj, ai == aj, ci == cj)
            right = z3.And(pj == ci, pi == aj, pi < pj)
            left = z3.And(pj == ai, pi == cj, pj < pi)
            far = z3.Or(pj < ai, pj > ci)
            out.append(("grid-nodes-%d" % k, z3.Or(same, right, left, far)))
        return out

    def post(self, S, old, env, result):
        adjacent = []
        prod = None
        for k in range(self.dim):
            pi, ai, ci, pj, aj, cj = self.parts(old, k)
            adjacent.append(z3.And(ai <= pj, pj <= ci))
            g = gram1d(pi, ai, ci, pj, aj, cj)
            prod = g if prod is None else prod * g
        r = result if not isinstance(result, (int,)) else z3.RealVal(result)
        from pyvc import values as V
        r = V.to_z3(result, True)
        return [Cl("entry-is-the-L2-product-of-the-two-hats", r == z3.If(z3.And(*adjacent), prod, z3.RealVal(0)), prop=True)]


def _gram_lemma():
    """layer L: gram1d is the integral of the product of the hats (piecewise polynomial antiderivatives, checked symbolically):
    same node:  int_a^p ((x-a)/(p-a))^2 + int_p^c ((c-x)/(c-p))^2 = (p-a)/3 + (c-p)/3 ;   neighbours p<q: int_p^q ((q-x)/(q-p))((x-p)/(q-p)) = (q-p)/6.
    Stated through the antiderivatives F1(x)=(x-a)^3/(3(p-a)^2), F2(x)=-(c-x)^3/(3(c-p)^2), F3(x)=(-(x^3)/3+(p+q)x^2/2-pqx)/(q-p)^2."""
    a, p, c, q = z3.Reals("a p c q")
    F1 = lambda x: (x - a) ** 3 / (3 * (p - a) * (p - a))  # noqa
    F2 = lambda x: -((c - x) ** 3) / (3 * (c - p) * (c - p))  # noqa
    F3 = lambda x: (-(x ** 3) / 3 + (p + q) * x * x / 2 - p * q * x) / ((q - p) * (q - p))  # noqa
    return [([a < p], F1(p) - F1(a) == (p - a) / 3), ([p < c], F2(c) - F2(p) == (c - p) / 3), ([p < q], F3(q) - F3(p) == (q - p) / 6)]


from pyvc import lemmas as L  # noqa: E402

CONTRACTS = [RValue(1)]
LEMMAS = [L.SmtLemma("gram1d-is-the-integral-of-hat-products", _gram_lemma,
                     note="antiderivatives of the piecewise polynomials evaluated at the interval ends (derivative check of the antiderivatives is by hand/sympy, not SMT)")]
ASSUMPTIONS = ["dimension fixed to 1 and 2 (loop-free unrolling); coordinates fully symbolic reals (A-REAL)",
               "the two hats belong to nodes of one 1-D grid per dimension (same node / neighbours / farther apart)",
               "matrix assembly, right-hand side, vectorised hats, solve/normalise: layer B only"]


# --------------------------------------------------------------------------- any dimension: loop invariant over the product of the 1-D Gram factors
from pyvc.book import Loop  # noqa: E402
from pyvc import prelude as P  # noqa: E402
from pyvc.values import TupleSeq  # noqa: E402

I_, R_ = z3.IntSort(), z3.RealSort()
PF = z3.Function("GramPrefix", I_, R_)       # product of the first k one-dimensional Gram factors (ghost, defined by recursion below)


class RValueAnyDim(Contract):
    file, qualname = FILE, "DensityEstimation.calculate_R_value_analytically"
    label = "DensityEstimation.calculate_R_value_analytically[any dimension]"

    def inputs(self, S):
        dim = S.int("dim")
        S.assume(dim >= 1)
        arr = lambda n: S.array(n, I_, R_)  # noqa
        env = {"self": Obj("DensityEstimation", dict(dim=dim)),
               "point_i": S.seq("point_i", dim, R_), "point_j": S.seq("point_j", dim, R_),
               "domain_i": TupleSeq(dim, [arr("di_lo"), arr("di_hi")]), "domain_j": TupleSeq(dim, [arr("dj_lo"), arr("dj_hi")])}
        k = z3.Int("pk")
        S.assume(PF(0) == 1, "def:GramPrefix")
        S.assume(z3.ForAll([k], z3.Implies(z3.And(k >= 0, k < dim), PF(k + 1) == PF(k) * self.factor(env, k)), patterns=[PF(k + 1)]), "def:GramPrefix")
        return env

    @staticmethod
    def parts(env, k):
        pi, pj = z3.Select(env["point_i"].arr, k), z3.Select(env["point_j"].arr, k)
        ai, ci = [z3.Select(a, k) for a in env["domain_i"].arrays]
        aj, cj = [z3.Select(a, k) for a in env["domain_j"].arrays]
        return pi, ai, ci, pj, aj, cj

    def factor(self, env, k):
        return gram1d(*self.parts(env, k))

    def pre(self, S, env):
        k = z3.Int("gk")
        pi, ai, ci, pj, aj, cj = self.parts(env, k)
        wf = z3.And(ai <= pi, pi <= ci, ai < ci, aj <= pj, pj <= cj, aj < cj)
        same = z3.And(pi == pj, ai == aj, ci == cj)
        right = z3.And(pj == ci, pi == aj, pi < pj)
        left = z3.And(pj == ai, pi == cj, pj < pi)
        far = z3.Or(pj < ai, pj > ci)
        dim = env["self"].fields["dim"]
        return [("hats-wellformed-and-grid-nodes", z3.ForAll([k], z3.Implies(z3.And(k >= 0, k < dim), z3.And(wf, z3.Or(same, right, left, far))), patterns=[z3.Select(env["point_i"].arr, k)]))]

    def inv(self, S, env, g):
        old = S.ex.old
        from pyvc import values as Vv
        k = g["k"]
        j = z3.Int("aj")
        pi, ai, ci, pj, aj, cj = self.parts(old, j)
        return [("partial-product", Vv.to_z3(env["res"], True) == PF(k), "nokeep", ["def:GramPrefix", "loop0/inv#partial-product", "pre#hats"]),
                ("adjacent-in-every-dimension", z3.ForAll([j], z3.Implies(z3.And(j >= 0, j < old["self"].fields["dim"]), z3.And(ai <= pj, pj <= ci)), patterns=[z3.Select(old["point_j"].arr, j)])),
                ("inputs-untouched", z3.And(env["point_i"].arr == old["point_i"].arr, env["point_j"].arr == old["point_j"].arr))]

    @property
    def loops(self):
        return {0: Loop(inv=lambda S, env, g: self.inv(S, env, g))}

    def post(self, S, old, env, result):
        from pyvc import values as Vv
        dim = old["self"].fields["dim"]
        j = z3.Int("pj_")
        pi, ai, ci, pj, aj, cj = self.parts(old, j)
        adjacent = z3.ForAll([j], z3.Implies(z3.And(j >= 0, j < dim), z3.And(ai <= pj, pj <= ci)))
        return [Cl("entry-is-the-product-of-the-1-D-Gram-factors-or-zero-if-not-adjacent", Vv.to_z3(result, True) == z3.If(adjacent, PF(dim), z3.RealVal(0)), prop=True)]


CONTRACTS += [RValueAnyDim()]
ASSUMPTIONS += ["any-dimension contract: GramPrefix(k) is the product of the first k one-dimensional Gram factors (ghost recursion); the 1-D factor identity is the same as in the fixed-dimension contracts"]


# --------------------------------------------------------------------------- scalar hat evaluations (any dimension) and the adjacency test
HP = z3.Function("HatPrefix", I_, R_)        # product of the first k one-dimensional hat values (ghost recursion)


def zmax0(e):
    return z3.If(e >= 0, e, z3.RealVal(0))


def hat1d(p, lo, hi, x):
    """1-D non-symmetric hat with peak p on [lo, hi]: 1 at p, linear to 0 at lo and hi, 0 outside (the reference all vectorised variants are
    compared with by layer B)"""
    return z3.If(x >= p, zmax0(1 - (x - p) / (hi - p)), zmax0(1 - (p - x) / (p - lo)))


class HatNonSymmetric(Contract):
    file, qualname = FILE, "DensityEstimation.hat_function_non_symmetric"
    label = "DensityEstimation.hat_function_non_symmetric[standard basis, any dimension]"

    def inputs(self, S):
        dim = S.int("dim")
        S.assume(dim >= 1)
        env = {"self": Obj("DensityEstimation", dict(dim=dim, grid=Obj("GlobalTrapezoidalGrid", dict(modified_basis=False)))),
               "point": S.seq("point", dim, R_), "x": S.seq("x", dim, R_),
               "domain": TupleSeq(dim, [S.array("d_lo", I_, R_), S.array("d_hi", I_, R_)])}
        k = z3.Int("hk")
        S.assume(HP(0) == 1, "def:HatPrefix")
        S.assume(z3.ForAll([k], z3.Implies(z3.And(k >= 0, k < dim), HP(k + 1) == HP(k) * self.factor(env, k)), patterns=[HP(k + 1)]), "def:HatPrefix")
        return env

    @staticmethod
    def factor(env, k):
        return hat1d(z3.Select(env["point"].arr, k), z3.Select(env["domain"].arrays[0], k), z3.Select(env["domain"].arrays[1], k), z3.Select(env["x"].arr, k))

    def pre(self, S, env):
        k = z3.Int("hq")
        p, lo, hi = z3.Select(env["point"].arr, k), z3.Select(env["domain"].arrays[0], k), z3.Select(env["domain"].arrays[1], k)
        return [("peak-strictly-inside-its-support", z3.ForAll([k], z3.Implies(z3.And(k >= 0, k < env["self"].fields["dim"]), z3.And(lo < p, p < hi)),
                                                               patterns=[z3.Select(env["point"].arr, k)]))]

    def inv(self, S, env, g):
        from pyvc import values as Vv
        old = S.ex.old
        return [("partial-product", Vv.to_z3(env["result"], True) == HP(g["k"]), "nokeep", ["def:HatPrefix", "loop0/inv#partial-product", "pre#peak"]),
                ("inputs-untouched", z3.And(env["point"].arr == old["point"].arr, env["x"].arr == old["x"].arr))]

    @property
    def loops(self):
        return {0: Loop(inv=lambda S, env, g: self.inv(S, env, g))}

    def post(self, S, old, env, result):
        from pyvc import values as Vv
        return [Cl("value-is-the-product-of-the-1-D-hats", Vv.to_z3(result, True) == HP(old["self"].fields["dim"]), prop=True)]


class CheckAdjacency(Contract):
    file, qualname = FILE, "DensityEstimation.check_adjacency"

    def inputs(self, S):
        n = S.int("n")
        S.assume(n >= 0)
        return {"self": Obj("DensityEstimation", {}), "ivec": S.seq("ivec", n, I_), "jvec": S.seq("jvec", n, I_)}

    def pre(self, S, env):
        return [("same-length", env["ivec"].len() == env["jvec"].len())]

    def inv(self, S, env, g):
        j = z3.Int("cj")
        old = S.ex.old
        d = z3.Select(old["ivec"].arr, j) - z3.Select(old["jvec"].arr, j)
        return [("adjacent-so-far", z3.ForAll([j], z3.Implies(z3.And(j >= 0, j < g["k"]), z3.And(d <= 1, d >= -1)))),
                ("inputs-untouched", z3.And(env["ivec"].arr == old["ivec"].arr, env["jvec"].arr == old["jvec"].arr))]

    @property
    def loops(self):
        return {0: Loop(inv=lambda S, env, g: self.inv(S, env, g))}

    def post(self, S, old, env, result):
        j = z3.Int("pj2")
        d = z3.Select(old["ivec"].arr, j) - z3.Select(old["jvec"].arr, j)
        adjacent = z3.ForAll([j], z3.Implies(z3.And(j >= 0, j < old["ivec"].len()), z3.And(d <= 1, d >= -1)))
        r = result if not isinstance(result, bool) else z3.BoolVal(result)
        # auxiliary: no code path of the library calls check_adjacency (the matrix assembly uses its own test), so no change to it can break C16
        return [Cl("true-exactly-when-the-indices-differ-by-at-most-one-in-every-dimension", r == adjacent)]


UP = z3.Function("UniformHatPrefix", I_, R_)


class HatUniform(Contract):
    """nodal hat of a uniform component grid: value == product over the dimensions of max(1 - |2^l_d x_d - i_d|, 0)"""
    file, qualname = FILE, "DensityEstimation.hat_function"
    label = "DensityEstimation.hat_function[uniform grid, any dimension]"

    def inputs(self, S):
        dim = S.int("dim")
        S.assume(dim >= 1)
        env = {"self": Obj("DensityEstimation", dict(dim=dim)), "ivec": S.seq("ivec", dim, I_), "lvec": S.seq("lvec", dim, I_), "x": S.seq("x", dim, R_)}
        k = z3.Int("uk")
        S.assume(UP(0) == 1, "def:UniformHatPrefix")
        S.assume(z3.ForAll([k], z3.Implies(z3.And(k >= 0, k < dim), UP(k + 1) == UP(k) * self.factor(env, k)), patterns=[UP(k + 1)]), "def:UniformHatPrefix")
        return env

    @staticmethod
    def factor(env, k):
        t = z3.ToReal(P.POW2(z3.Select(env["lvec"].arr, k))) * z3.Select(env["x"].arr, k) - z3.ToReal(z3.Select(env["ivec"].arr, k))
        return zmax0(1 - z3.If(t >= 0, t, -t))

    def pre(self, S, env):
        k = z3.Int("uq")
        return [("levels-nonneg", z3.ForAll([k], z3.Implies(z3.And(k >= 0, k < env["self"].fields["dim"]), z3.Select(env["lvec"].arr, k) >= 0), patterns=[z3.Select(env["lvec"].arr, k)]))]

    def inv(self, S, env, g):
        from pyvc import values as Vv
        old = S.ex.old
        return [("partial-product", Vv.to_z3(env["result"], True) == UP(g["k"]), "nokeep", ["def:UniformHatPrefix", "loop0/inv#partial-product", "pre#levels"]),
                ("inputs-untouched", z3.And(env["ivec"].arr == old["ivec"].arr, env["lvec"].arr == old["lvec"].arr, env["x"].arr == old["x"].arr))]

    @property
    def loops(self):
        return {0: Loop(inv=lambda S, env, g: self.inv(S, env, g))}

    def post(self, S, old, env, result):
        from pyvc import values as Vv
        # auxiliary: only weighted_basis_function (not called by the library itself) evaluates this scalar form; the solver paths use the vectorised hats
        return [Cl("value-is-the-product-of-the-1-D-uniform-hats", Vv.to_z3(result, True) == UP(old["self"].fields["dim"]))]


CONTRACTS += [HatNonSymmetric(), HatUniform(), CheckAdjacency()]
ASSUMPTIONS += ["hat_function_non_symmetric: standard basis (grid.modified_basis False); HatPrefix(k) is the product of the first k one-dimensional hat values (ghost recursion)"]


# --------------------------------------------------------------------------- mass-lumped system matrix of a uniform component grid (dims 1-3)
class BuildRMassLumped(Contract):
    """DensityEstimation.build_R_matrix with mass lumping: the single diagonal value is the Gram diagonal of the uniform hat basis, the product over the
    dimensions of the integral of the squared 1-D hat of mesh width h_k = 2^-l_k, i.e. 2 h_k / 3"""
    file, qualname = FILE, "DensityEstimation.build_R_matrix"

    def __init__(self, dim):
        self.dim = dim
        self.label = "DensityEstimation.build_R_matrix[mass lumping, dim=%d]" % dim

    def inputs(self, S):
        for ax in _pow2_axioms():
            S.assume(ax, "def:pow2")
        return {"self": Obj("DensityEstimation", dict(masslumping=True, dim=self.dim)), "levelvec": Seq("list", [S.int("l%d" % k) for k in range(self.dim)])}

    def pre(self, S, env):
        return [("levels-at-least-one", z3.And(*[l >= 1 for l in env["levelvec"].items]))]

    def post(self, S, old, env, result):
        from pyvc import values as Vv
        want = z3.RealVal(1)
        for l in old["levelvec"].items:
            h = 1 / z3.ToReal(P.POW2(l))
            want = want * (2 * h / 3)
        return [Cl("mass-lumped-value-is-the-gram-diagonal", Vv.to_z3(result, True) == want, prop=True)]

    def model_to_input(self, model):
        from pyvc import modelparse as mp
        return {"kind": "C16.masslumped", "levelvec": [int(mp.num(model.get("l%d" % k, "1")) or 1) for k in range(self.dim)]}


def _pow2_axioms():
    j = z3.Int("p2j")
    return [P.POW2(0) == 1, z3.ForAll([j], z3.Implies(j >= 0, z3.And(P.POW2(j + 1) == 2 * P.POW2(j), P.POW2(j) >= 1)), patterns=[P.POW2(j)])]


CONTRACTS += [BuildRMassLumped(1), BuildRMassLumped(2), BuildRMassLumped(3)]


# --------------------------------------------------------------------------- system matrix of a uniform component grid: Gram matrix of the hats + lambda on the diagonal
# As for the smoothing matrix of C20 the grid is abstracted to TWO points with arbitrary index vectors (every entry of the real matrix is computed from one pair
# of index vectors by the same loop body): the 2 x 2 matrix the real loops fill holds the Gram entries of the two hats, lambda added on the diagonal.
def mass1d(l, p, q):
    h = 1 / z3.ToReal(P.POW2(l))
    return z3.If(p == q, 2 * h / 3, z3.If(z3.Or(p - q == 1, q - p == 1), h / 6, z3.RealVal(0)))


def gram_uniform(levels, p, q):
    r = z3.RealVal(1)
    for k in range(len(levels)):
        r = r * mass1d(levels[k], p[k], q[k])
    return r


class _TwoPoints(Contract):
    trusted = True

    def __init__(self, file, qualname, params, note, result):
        self.file, self.qualname, self._params, self.note, self._result = file, qualname, params, note, result

    def inputs(self, S):
        d = {"self": Obj("TrapezoidalGrid", {})} if "." in self.qualname else {}
        for p_ in self._params:
            d[p_] = None
        return d

    def result(self, S, env):
        return self._result(S, env)


class BuildRMatrix(Contract):
    file, qualname = FILE, "DensityEstimation.build_R_matrix"

    def __init__(self, dim):
        self.dim = dim
        self.label = "DensityEstimation.build_R_matrix[any two grid points, dim=%d]" % dim

    def inputs(self, S):
        for ax in _pow2_axioms():
            S.assume(ax, "def:pow2")
        d = self.dim
        S.ex.ghost["index_rows"] = [[S.int("p%d" % k) for k in range(d)], [S.int("q%d" % k) for k in range(d)]]
        return {"self": Obj("DensityEstimation", dict(masslumping=False, dim=d, lambd=S.real("lambd"), debug=False, grid=Obj("TrapezoidalGrid", dict(numPoints=None)),
                                                      log_util=Obj("LogUtility", {}))), "levelvec": Seq("list", [S.int("l%d" % k) for k in range(d)])}

    def pre(self, S, env):
        rows_ = S.ex.ghost["index_rows"]
        return [("levels-at-least-one", z3.And(*[l >= 1 for l in env["levelvec"].items])),
                ("index-vectors-nonnegative", z3.And(*[x >= 0 for r in rows_ for x in r])),
                ("two-different-grid-points", z3.Or(*[a != b for a, b in zip(*rows_)]))]

    def post(self, S, old, env, result):
        from pyvc import values as Vv
        ok = isinstance(result, Seq) and result.concrete and len(result.items) == 2 and all(isinstance(r, Seq) and r.concrete and len(r.items) == 2 for r in result.items)
        if not ok:
            return [Cl("returns-the-matrix", False, prop=True)]
        lv = old["levelvec"].items
        p, q = [[x + 1 for x in r] for r in S.ex.ghost["index_rows"]]
        lam = old["self"].fields["lambd"]
        e = lambda i, j: Vv.to_z3(result.items[i].items[j], True)  # noqa
        return [Cl("returns-the-matrix", True, prop=True),
                Cl("off-diagonal-entry-is-the-gram-entry-of-the-two-hats", e(0, 1) == gram_uniform(lv, p, q), prop=True),
                Cl("matrix-is-symmetric", e(1, 0) == e(0, 1), prop=True),
                Cl("diagonal-entries-are-the-gram-diagonal-plus-lambda", z3.And(e(0, 0) == gram_uniform(lv, p, p) + lam, e(1, 1) == gram_uniform(lv, q, q) + lam), prop=True)]

    def model_to_input(self, model):
        from pyvc import modelparse as mp
        g = lambda k, dflt: int(mp.num(model.get(k, str(dflt))) or dflt)  # noqa
        return {"kind": "C16.r_matrix", "dim": self.dim, "levelvec": [g("l%d" % k, 2) for k in range(self.dim)]}


CONTRACTS += [_TwoPoints("sparseSpACE/Grid.py", "Grid.get_num_points", [], "number of grid points; the proof abstracts the grid to TWO points with arbitrary index vectors", lambda S, env: 2),
              _TwoPoints("sparseSpACE/Utils.py", "get_cross_product_range_list", ["one_d_arrays"], "0-based index vectors of the grid points; here the two abstract points",
                         lambda S, env: Seq("array", [Seq("array", list(r)) for r in S.ex.ghost["index_rows"]])),
              BuildRMatrix(1), BuildRMatrix(2)]
ASSUMPTIONS += ["build_R_matrix (without mass lumping): the grid is abstracted to two different points with arbitrary symbolic index vectors; dimensions 1-2; the 1-D mass factors of "
                "hats of width h = 2^-l are 2h/3 (same node), h/6 (neighbours), 0 (farther)"]
