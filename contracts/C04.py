"""Sidecar contracts for C04 (refinement never loses initial exactness): proved SUPPORT only -- no contract within reach decides
'integrates every function of the initial sparse-grid space exactly' (approximation-theoretic fact through numpy quadrature/interpn).
P: coarsening of a component level never goes below lmin (C03 contract); global trapezoidal weights are the exact integrals of the
(modified) hat functions for every grid (C09 contracts + lemmas: piecewise-linear interpolant integrated exactly, linear functions exact).
The deciding part is the bounded layer B."""
from contracts import C03, C09

CONTRACTS = [C03.Modify(lmin_is_property=True), C09.ComputeWeights(), C09.ComputeWeightsModified(), C09.ComputeWeightsModified3(), C09.ComputeWeightsModified4()]
LEMMAS = list(C09.LEMMAS)
ASSUMPTIONS = C03.ASSUMPTIONS + C09.ASSUMPTIONS
