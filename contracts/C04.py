"""Sidecar contracts for C04 (refinement never loses initial exactness): proved SUPPORT only -- no contract within reach decides
'integrates every function of the initial sparse-grid space exactly' (approximation-theoretic fact through numpy quadrature/interpn).
P: coarsening of a component level never goes below lmin (C03 contract); global trapezoidal weights are the exact integrals of the
(modified) hat functions for every grid (C09 contracts + lemmas: piecewise-linear interpolant integrated exactly, linear functions exact).
The deciding part is the bounded layer B."""
from contracts import C03, C08, C09

# extend-split / cell strategies integrate every area with the LOCAL trapezoidal grid with boundary points: its 1-D rule integrates 1 and x exactly for
# every level and sub-box (C08 contracts + induction lemmas); tensor products of exact 1-D rules are exact on multilinear functions (not mechanised)
CONTRACTS = [C03.Modify(lmin_is_property=True), C09.ComputeWeights(), C09.ComputeWeightsModified(), C09.ComputeWeightsModified3(), C09.ComputeWeightsModified4(),
             C08.LevelToNumPoints(), C08.GetPointsAndWeights(), C08.SetCurrentArea(), C08.WeightCompositeTrapezoidal(), C08.Get1dWeight()]
LEMMAS = list(C09.LEMMAS) + list(C08.LEMMAS)
ASSUMPTIONS = C03.ASSUMPTIONS + C09.ASSUMPTIONS + C08.ASSUMPTIONS + ["tensor products of 1-D rules that are exact for 1 and x are exact for multilinear functions (textbook; not mechanised)"]
