"""Sidecar contracts for C14 (stop / continue / save / restore).  What a contract can say: the driver loop is re-entrant --
continue_adaptive_refinement started with ANY existing history (arbitrary earlier evaluations E0, refinements R0, history arrays)
re-evaluates before deciding, appends exactly one history entry per evaluation and stops at the first evaluation meeting a rule
(the C13 contract is stated for an arbitrary initial history, so it is the re-entry contract).  That the re-evaluation re-establishes
the accumulated result (C05) for every strategy, and dill persistence, are layer B / assumptions."""
from contracts import C13

CONTRACTS = list(C13.CONTRACTS)
LEMMAS = list(C13.LEMMAS)
ASSUMPTIONS = C13.ASSUMPTIONS + ["dill round-trips the object graph (external)", "equality of the final refinement structure with an uninterrupted run: layer B only"]
