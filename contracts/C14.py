"""Sidecar contracts for C14 (stop / continue / save / restore).  What a contract can say: the driver loop is re-entrant --
continue_adaptive_refinement started with ANY existing history (arbitrary earlier evaluations E0, refinements R0, history arrays)
re-evaluates before deciding, appends exactly one history entry per evaluation and stops at the first evaluation meeting a rule
(the C13 contract is stated for an arbitrary initial history, so it is the re-entry contract).  That the re-evaluation re-establishes
the accumulated result (C05) for every strategy, and dill persistence, are layer B / assumptions."""
from contracts import C13

CONTRACTS = list(C13.CONTRACTS)
LEMMAS = list(C13.LEMMAS)
ASSUMPTIONS = C13.ASSUMPTIONS + ["dill round-trips the object graph (external)", "equality of the final refinement structure with an uninterrupted run: layer B only"]

# --------------------------------------------------------------------------- what a resumed run selects for refinement
# A resumed (or restored) run re-evaluates the existing refinement structure before it refines; quantities that are accumulated per object may come out
# scaled by a common factor (the dimension-wise strategy re-adds the surplus volumes), the margin-based threshold margin * largest benefit scales with them.
# The selection kernel compares `benefit >= tolerance` and nothing else (C06 contract GetNextObject, verified here for any container size), and that
# comparison is invariant under a common positive scaling (lemma below) -- so an interrupted run selects the same intervals as an uninterrupted one.
import z3  # noqa: E402
from contracts import C06  # noqa: E402
from pyvc import lemmas as L  # noqa: E402


def _scale_invariance():
    b, t, c = z3.Reals("b t c")
    return [([c > 0], (b >= t) == (c * b >= c * t))]


CONTRACTS += [C06.GetNextObject()]
LEMMAS += [L.SmtLemma("threshold-comparison-invariant-under-common-positive-scaling", _scale_invariance,
                      note="benefit >= tolerance  <=>  c*benefit >= c*tolerance for c > 0: an exact comparison does not depend on the common scale of the accumulated benefits")]
ASSUMPTIONS += ["selection after a resume: RefinementContainer.get_next_object_for_refinement is the exact comparison benefit >= tolerance (C06 contract), which is scale invariant"]
