"""Sidecar contracts for C17: the matrix-entry cache of the dimension-wise density estimation (sparseSpACE/GridOperation.py).
build_R_matrix_dimension_wise (reuse_old_values) looks every entry up under the key str(get_domain_overlap_width(...)) and only computes
calculate_R_value_analytically on a miss.  Proved here (dimension 1 and 2, symbolic coordinates):
  * get_domain_overlap_width returns (ascending overlap widths, ascending node distances) for adjacent hats and all zeros otherwise  (real code);
  * lemma: for hats of grid nodes, equal keys imply equal Gram entries (the value contract of calculate_R_value_analytically is C16's) --
    so a cache hit returns, in exact arithmetic, the value a recomputation would give.
Right-hand-side reuse, data bins, the 200-point threshold and the hand-over between iterations: layer B only (relational over configurations)."""
import z3

from pyvc.book import Contract
from pyvc.engine import Cl
from pyvc.values import Seq, Obj
from pyvc import lemmas as L
from contracts.C16 import gram1d

FILE = "sparseSpACE/GridOperation.py"
R = z3.RealSort()


def zabs(e):
    return z3.If(e >= 0, e, -e)


def zmin(a, b):
    return z3.If(a <= b, a, b)


def zmax(a, b):
    return z3.If(a <= b, b, a)


def sort2(xs):
    return xs if len(xs) == 1 else [zmin(xs[0], xs[1]), zmax(xs[0], xs[1])]


def key_of(pi, di, pj, dj):
    """the cache key as a pair of lists of terms; di, dj: lists of (lo, hi)"""
    dim = len(pi)
    adjacent = z3.And(*[z3.And(di[d][0] <= pj[d], di[d][1] >= pj[d]) for d in range(dim)])
    widths = [zabs(zmin(di[d][1], dj[d][1]) - zmax(di[d][0], dj[d][0])) for d in range(dim)]
    dists = [zabs(pi[d] - pj[d]) for d in range(dim)]
    zero = z3.RealVal(0)
    return adjacent, [z3.If(adjacent, w, zero) for w in sort2(widths)], [z3.If(adjacent, x, zero) for x in sort2(dists)]


class OverlapWidth(Contract):
    file, qualname = FILE, "DensityEstimation.get_domain_overlap_width"

    def __init__(self, dim):
        self.dim = dim
        self.label = "DensityEstimation.get_domain_overlap_width[dim=%d]" % dim

    def inputs(self, S):
        dim = self.dim
        mk = lambda n: Seq("list", [S.real("%s%d" % (n, d)) for d in range(dim)])  # noqa
        dom = lambda n: Seq("list", [Seq("tuple", [S.real("%s_lo%d" % (n, d)), S.real("%s_hi%d" % (n, d))]) for d in range(dim)])  # noqa
        return {"self": Obj("DensityEstimation", dict(dim=dim)), "point_i": mk("pi"), "domain_i": dom("di"), "point_j": mk("pj"), "domain_j": dom("dj")}

    def post(self, S, old, env, result):
        ok = isinstance(result, Seq) and result.concrete and len(result.items) == 2 and all(isinstance(x, Seq) and x.concrete and len(x.items) == self.dim for x in result.items)
        if not ok:
            return [Cl("returns-pair-of-lists", False)]
        from pyvc import values as Vv
        g = lambda seq: [Vv.to_z3(x, True) for x in seq.items]  # noqa
        pi, pj = g(old["point_i"]), g(old["point_j"])
        di = [tuple(g(t)) for t in old["domain_i"].items]
        dj = [tuple(g(t)) for t in old["domain_j"].items]
        _, w, x = key_of(pi, di, pj, dj)
        rw, rx = g(result.items[0]), g(result.items[1])
        return [Cl("returns-pair-of-lists", True),
                Cl("key-is-sorted-overlap-widths-and-sorted-distances-zero-when-not-adjacent", z3.And(*[a == b for a, b in zip(rw + rx, w + x)]), prop=True)]


# --------------------------------------------------------------------------- lemma: the key determines the Gram entry (grid-node hats)
def node_config(tag, dim):
    """two hats of nodes of one 1-D grid per dimension: same node / right neighbour / left neighbour / farther apart"""
    pi = [z3.Real("%s.pi%d" % (tag, d)) for d in range(dim)]
    pj = [z3.Real("%s.pj%d" % (tag, d)) for d in range(dim)]
    di = [(z3.Real("%s.ai%d" % (tag, d)), z3.Real("%s.ci%d" % (tag, d))) for d in range(dim)]
    dj = [(z3.Real("%s.aj%d" % (tag, d)), z3.Real("%s.cj%d" % (tag, d))) for d in range(dim)]
    cases = []
    for d in range(dim):
        (ai, ci), (aj, cj) = di[d], dj[d]
        wf = z3.And(ai < pi[d], pi[d] < ci, aj < pj[d], pj[d] < cj)
        same = z3.And(pi[d] == pj[d], ai == aj, ci == cj)
        right = z3.And(pj[d] == ci, pi[d] == aj, pi[d] < pj[d])
        left = z3.And(pj[d] == ai, pi[d] == cj, pj[d] < pi[d])
        far = z3.Or(pj[d] < ai, pj[d] > ci)
        cases.append((wf, [same, right, left, far]))
    return pi, di, pj, dj, cases


def entry(pi, di, pj, dj):
    adjacent = z3.And(*[z3.And(di[d][0] <= pj[d], di[d][1] >= pj[d]) for d in range(len(pi))])
    prod = z3.RealVal(1)
    for d in range(len(pi)):
        prod = prod * gram1d(pi[d], di[d][0], di[d][1], pj[d], dj[d][0], dj[d][1])
    return z3.If(adjacent, prod, z3.RealVal(0))


def _key_lemma(dim):
    def build():
        import itertools
        A = node_config("A", dim)
        B = node_config("B", dim)
        goals = []
        _, wA, xA = key_of(A[0], A[1], A[2], A[3])
        _, wB, xB = key_of(B[0], B[1], B[2], B[3])
        same_key = z3.And(*[a == b for a, b in zip(wA + xA, wB + xB)])
        claim = entry(A[0], A[1], A[2], A[3]) == entry(B[0], B[1], B[2], B[3])
        for ca in itertools.product(range(4), repeat=dim):
            for cb in itertools.product(range(4), repeat=dim):
                hyp = [A[4][d][0] for d in range(dim)] + [B[4][d][0] for d in range(dim)] + \
                      [A[4][d][1][ca[d]] for d in range(dim)] + [B[4][d][1][cb[d]] for d in range(dim)] + [same_key]
                goals.append((hyp, claim))
        return goals
    return build


CONTRACTS = [OverlapWidth(1), OverlapWidth(2)]
LEMMAS = [L.SmtLemma("cache-key-determines-the-gram-entry[dim=1]", _key_lemma(1),
                     note="hats of nodes of one grid per dimension; 16 structural cases"),
          L.SmtLemma("cache-key-determines-the-gram-entry[dim=2]", _key_lemma(2),
                     note="hats of nodes of one grid per dimension; 256 structural cases, nonlinear real arithmetic")]
ASSUMPTIONS = ["dimension fixed to 1 and 2 (loop-free unrolling; list.sort of two numbers as a min/max network)",
               "the key is compared as a tuple of reals (the code compares str() of the float lists: equal strings <=> equal floats)",
               "the cached value was produced by calculate_R_value_analytically (C16 contract: product of the 1-D Gram factors, 0 when not adjacent)",
               "right-hand-side reuse, data bins, size threshold, hand-over between iterations: layer B only"]
