"""Sidecar contracts for C06: refinement objects / containers of the dimension-wise strategy."""
import z3

from pyvc.book import Contract, Loop
from pyvc.engine import Cl
from pyvc.values import Seq, Obj

I, R = z3.IntSort(), z3.RealSort()


def V(x):
    return z3.IntVal(x) if isinstance(x, int) else x


def zmax(a, b):
    return z3.If(a >= b, a, b)


def interval(S, name="self"):
    start, end = S.real(name + ".start"), S.real(name + ".end")
    l0, l1 = S.int(name + ".l0"), S.int(name + ".l1")
    c = S.int(name + ".coarsening_level")
    a, b = S.real("a"), S.real("b")
    grid = Obj("GlobalTrapezoidalGrid", dict(boundary=True))
    return Obj("RefinementObjectSingleDimension", dict(
        start=start, end=end, this_dim=S.int("this_dim"), dim=S.int("dim"), coarsening_level=c, evaluations=0, value=S.real(name + ".value"),
        volume=None, levels=Seq("list", [l0, l1]), error=S.real(name + ".error"), benefit=None, a=a, b=b, chebyshev=False, grid=grid))


def wf(o):
    """well-formed interval of the refinement structure (the part of the C06 invariant that concerns one object)"""
    f = o.fields
    l0, l1 = f["levels"].items
    return [("start<end", f["start"] < f["end"]), ("levels>=0", z3.And(l0 >= 0, l1 >= 0)), ("coarsening>=0", f["coarsening_level"] >= 0),
            ("inside-domain", z3.And(f["a"] <= f["start"], f["end"] <= f["b"]))]


class Refine(Contract):
    file, qualname = "sparseSpACE/RefinementObject.py", "RefinementObjectSingleDimension.refine"
    inline = ("RefinementObjectSingleDimension.__init__", "GlobalGrid.get_mid_point", "GlobalTrapezoidalGrid.get_mid_point", "get_mid_point")
    must_hold_asserts = True       # C06: a well-formed interval can always be split (start < mid < end), no exception

    def applies(self, receiver, args):
        return not hasattr(receiver, "origin")      # elements of object lists use the caller-side form (ObjRefineForCallers)

    def inputs(self, S):
        return {"self": interval(S)}

    def pre(self, S, env):
        return wf(env["self"])

    def post(self, S, old, env, result):
        so = old["self"].fields
        s = env["self"].fields
        ok = isinstance(result, Seq) and result.concrete and len(result.items) == 3 and isinstance(result.items[0], Seq) \
            and result.items[0].concrete and len(result.items[0].items) == 2 and all(isinstance(x, Obj) for x in result.items[0].items)
        if not ok:
            return [Cl("returns-two-children", False, prop=True)]
        c0, c1 = [x.fields for x in result.items[0].items]
        l0, l1 = so["levels"].items
        m = zmax(l0, l1)
        shapes = all(isinstance(c["levels"], Seq) and c["levels"].concrete and len(c["levels"].items) == 2 for c in (c0, c1))
        if not shapes:
            return [Cl("children-have-two-levels", False, prop=True)]
        return [Cl("returns-two-children", True, prop=True),
                Cl("children-tile-the-parent", z3.And(c0["start"] == so["start"], c0["end"] == c1["start"], c1["end"] == so["end"]), prop=True),
                Cl("split-point-strictly-inside", z3.And(so["start"] < c0["end"], c0["end"] < so["end"]), prop=True),
                Cl("split-at-midpoint", c0["end"] == (so["start"] + so["end"]) / 2),
                Cl("shared-point-has-level-max+1", z3.And(c0["levels"].items[1] == m + 1, c1["levels"].items[0] == m + 1), prop=True),
                Cl("outer-levels-inherited", z3.And(c0["levels"].items[0] == l0, c1["levels"].items[1] == l1), prop=True),
                # auxiliary: the children's coarsening is provisional -- refinement_postprocessing recomputes every interval's coarsening from lmax and
                # the end-point levels (update_coarsening_values, contract below) before the structure is observable again
                Cl("children-coarsening", z3.And(c0["coarsening_level"] == zmax(so["coarsening_level"] - 1, 0), c1["coarsening_level"] == c0["coarsening_level"])),
                Cl("children-coarsening-nonneg", c0["coarsening_level"] >= 0),
                Cl("children-same-dimension", z3.And(c0["this_dim"] == so["this_dim"], c1["this_dim"] == so["this_dim"], c0["dim"] == so["dim"], c1["dim"] == so["dim"])),
                Cl("children-distinct-level-lists", c0["levels"] is not c1["levels"] and c0["levels"] is not env["self"].fields["levels"] and c1["levels"] is not env["self"].fields["levels"]),
                Cl("no-scheme-extension-requested", result.items[1] is None and result.items[2] is None),
                Cl("receiver-unchanged", z3.And(s["start"] == so["start"], s["end"] == so["end"], s["coarsening_level"] == so["coarsening_level"],
                                                s["levels"].items[0] == l0, s["levels"].items[1] == l1))]

    @staticmethod
    def model_to_input(model):
        from pyvc import modelparse as mp
        g = lambda k, d=0: mp.tofloat(mp.num(model.get(k, str(d))))  # noqa
        return {"kind": "C06.refine", "start": g("self.start"), "end": g("self.end"), "l0": g("self.l0"), "l1": g("self.l1"),
                "coarsening": g("self.coarsening_level"), "a": g("a"), "b": g("b")}


class Update(Contract):
    file, qualname = "sparseSpACE/RefinementObject.py", "RefinementObjectSingleDimension.update"
    modifies = ("coarsening_level",)

    def inputs(self, S):
        return {"self": interval(S), "update_info": S.int("update_info")}

    def pre(self, S, env):
        # call sites (update_coarsening_values / MetaRefinementContainer.update_objects) pass the number of levels by which lmax was raised
        return wf(env["self"]) + [("update-nonneg", env["update_info"] >= 0)]

    def post(self, S, old, env, result):
        return [Cl("coarsening-increased", env["self"].fields["coarsening_level"] == old["self"].fields["coarsening_level"] + old["update_info"]),
                Cl("coarsening-nonneg", env["self"].fields["coarsening_level"] >= 0, prop=True),
                Cl("interval-unchanged", z3.And(env["self"].fields["start"] == old["self"].fields["start"], env["self"].fields["end"] == old["self"].fields["end"]))]


CONTRACTS = [Refine(), Update()]
LEMMAS = []
ASSUMPTIONS = ["grid.get_mid_point is the unweighted midpoint (GlobalGrid.get_mid_point inlined from the real source); the weighted midpoint of UQ grids is C15",
               "rebalancing, container sorting and the tiling of whole containers: layer B only"]


# --------------------------------------------------------------------------- RefinementContainer (struct-of-arrays object list)
from pyvc.values import ObjSeq  # noqa: E402

RC_FILE = "sparseSpACE/RefinementContainer.py"


def container(S):
    n = S.int("n")
    S.assume(n >= 0)
    objs = ObjSeq("RefinementObjectSingleDimension", n, dict(benefit=S.array("benefit", I, R), error=S.array("error", I, R),
                                                             evaluations=S.array("evaluations", I, I), coarsening_level=S.array("coarsening", I, I)))
    return Obj("RefinementContainer", dict(refinementObjects=objs, dim=S.int("cdim"), startNewObjects=S.int("startNewObjects"),
                                           searchPosition=S.int("searchPosition")))


def container_wf(c):
    f = c.fields
    n = f["refinementObjects"].length
    return [("cursor-in-range", z3.And(f["searchPosition"] >= 0)),
            ("new-objects-marker", z3.And(f["startNewObjects"] >= 0, f["startNewObjects"] <= n))]


class GetNextObject(Contract):
    """margin-based selection kernel: first object at or after the cursor, below the frozen end, whose benefit reaches the tolerance"""
    file, qualname = RC_FILE, "RefinementContainer.get_next_object_for_refinement"
    inline = ("RefinementContainer.size", "size")
    modifies = ("searchPosition",)

    def inputs(self, S):
        return {"self": container(S), "tolerance": S.real("tolerance")}

    @staticmethod
    def model_to_input(model):
        from pyvc import modelparse as mp
        n = mp.num(model.get("n", "1")) or 0
        if n > 90:
            return None
        return {"kind": "C06.next_object", "benefit": [mp.tofloat(v) for v in mp.seq(model, "benefit", n)],
                "startNewObjects": mp.num(model.get("startNewObjects", "0")) or 0, "searchPosition": mp.num(model.get("searchPosition", "0")) or 0,
                "tolerance": mp.tofloat(mp.num(model.get("tolerance", "0")) or 0)}

    def pre(self, S, env):
        return container_wf(env["self"])

    def result(self, S, env):
        # for callers: two result shapes (found / not found); the executor forks on a fresh boolean
        from pyvc.engine import _view
        if S.ex.decide(S.bool("found")):
            idx = S.int("found.index")
            return Seq("tuple", [True, idx, _view(env["self"].fields["refinementObjects"], idx)])
        return Seq("tuple", [False, None, None])

    @staticmethod
    def end_of(c):
        f = c.fields
        return z3.If(f["startNewObjects"] == 0, f["refinementObjects"].length, f["startNewObjects"])

    def post(self, S, old, env, result):
        so, s = old["self"].fields, env["self"].fields
        ok = isinstance(result, Seq) and result.concrete and len(result.items) == 3
        if not ok:
            return [Cl("returns-triple", False, prop=True)]
        found, idx, obj = result.items
        ben = so["refinementObjects"].fields["benefit"]
        tol = old["tolerance"]
        end = self.end_of(old["self"])
        sp0 = so["searchPosition"]
        j = z3.Int("gj")
        below = lambda hi: z3.ForAll([j], z3.Implies(z3.And(j >= sp0, j < hi), z3.Select(ben, j) < tol))  # noqa
        if found is True:
            return [Cl("returns-triple", True, prop=True),
                    Cl("selected-reaches-tolerance", z3.Select(ben, idx) >= tol, prop=True),
                    Cl("selected-in-window", z3.And(idx >= sp0, idx < end), prop=True),
                    Cl("nothing-skipped", below(idx), prop=True),
                    Cl("cursor-advanced-past-selection", s["searchPosition"] == idx + 1, prop=True),
                    Cl("returns-the-object", isinstance(obj, Obj) and hasattr(obj, "origin") and obj.origin[1].eq(V(idx)) if hasattr(obj, "origin") else False)]
        if found is False:
            return [Cl("returns-triple", True, prop=True),
                    Cl("none-left-reaches-tolerance", below(end), prop=True),
                    Cl("cursor-unchanged", s["searchPosition"] == sp0),
                    Cl("returns-none", idx is None and obj is None)]
        return [Cl("returns-triple", False, prop=True)]

    loops = {0: Loop(inv=lambda S, env, g: [
        ("none-so-far", z3.ForAll([z3.Int("lj")], z3.Implies(z3.And(z3.Int("lj") >= S.ex.old["self"].fields["searchPosition"], z3.Int("lj") < g["k"]),
                                                             z3.Select(env["self"].fields["refinementObjects"].fields["benefit"], z3.Int("lj")) < env["tolerance"]))),
        ("objects-unchanged", env["self"].fields["refinementObjects"].fields["benefit"] == S.ex.old["self"].fields["refinementObjects"].fields["benefit"]),
        ("cursor-unchanged", env["self"].fields["searchPosition"] == S.ex.old["self"].fields["searchPosition"]),
        ("end", V(env["end"]) == GetNextObject.end_of(S.ex.old["self"])),
    ])}


class SetBenefit(Contract):
    """C13: benefits are never negative (error >= 0, evaluations >= 0); C06: benefit = error per evaluation"""
    file, qualname = RC_FILE, "RefinementContainer.set_benefit"

    def inputs(self, S):
        return {"self": container(S), "object_id": S.int("object_id")}

    def pre(self, S, env):
        f = env["self"].fields["refinementObjects"]
        i = env["object_id"]
        return [("index", z3.And(i >= 0, i < f.length)), ("error-nonneg", z3.Select(f.fields["error"], i) >= 0),
                ("evaluations-nonneg", z3.Select(f.fields["evaluations"], i) >= 0)]

    def post(self, S, old, env, result):
        fo = old["self"].fields["refinementObjects"].fields
        f = env["self"].fields["refinementObjects"].fields
        i = old["object_id"]
        e, n = z3.Select(fo["error"], i), z3.Select(fo["evaluations"], i)
        j = z3.Int("sj")
        return [Cl("benefit-nonnegative", z3.Select(f["benefit"], i) >= 0, prop=True),
                Cl("benefit-is-error-per-evaluation", z3.Select(f["benefit"], i) == z3.If(n != 0, e / z3.ToReal(n), e)),
                Cl("other-objects-untouched", z3.ForAll([j], z3.Implies(j != i, z3.Select(f["benefit"], j) == z3.Select(fo["benefit"], j)))),
                Cl("errors-untouched", f["error"] == fo["error"])]


CONTRACTS += [GetNextObject(), SetBenefit()]


# --------------------------------------------------------------------------- coarsening-level update (spatiallyAdaptiveSingleDimension2.py)
SD_FILE = "sparseSpACE/spatiallyAdaptiveSingleDimension2.py"


class UpdateCoarseningValues(Contract):
    """C06: afterwards every interval's coarsening level == lmax[d] - highest end-point level; the return value is by how much the
    deepest level exceeds lmax[d] (0 if it does not) -- the caller raises lmax[d] by it, which makes all coarsening levels >= 0"""
    file, qualname = SD_FILE, "SpatiallyAdaptiveSingleDimensions2.update_coarsening_values"
    inline = ("RefinementContainer.get_objects", "get_objects")

    def inputs(self, S):
        n, dim = S.int("n"), S.int("dim")
        S.assume(n >= 1)
        S.assume(dim >= 1)
        objs = ObjSeq("RefinementObjectSingleDimension", n, dict(coarsening_level=S.array("coarsening", I, I), levels=[S.array("l0", I, I), S.array("l1", I, I)]))
        cont = Obj("RefinementContainer", dict(refinementObjects=objs))
        return {"self": Obj("SpatiallyAdaptiveSingleDimensions2", dict(dim=dim, lmax=S.seq("lmax", dim, I))), "refinement_container_d": cont, "d": S.int("d")}

    def pre(self, S, env):
        return [("d-in-range", z3.And(env["d"] >= 0, env["d"] < env["self"].fields["dim"]))]

    @staticmethod
    def deepest(objs, j):
        l0, l1 = objs.fields["levels"]
        return zmax(z3.Select(l0, j), z3.Select(l1, j))

    def inv(self, S, env, g):
        o = env["refinement_container_d"].fields["refinementObjects"]
        oo = S.ex.old["refinement_container_d"].fields["refinementObjects"]
        lm = z3.Select(S.ex.old["self"].fields["lmax"].arr, S.ex.old["d"])
        k, j = g["k"], z3.Int("uj")
        u = env["update_dimension"]
        u = V(u)
        c = o.fields["coarsening_level"]
        return [("done-prefix", z3.ForAll([j], z3.Implies(z3.And(j >= 0, j < k), z3.Select(c, j) == lm - self.deepest(oo, j)))),
                ("minimum-so-far", z3.And(u <= 0, z3.ForAll([j], z3.Implies(z3.And(j >= 0, j < k), u <= z3.Select(c, j))))),
                ("minimum-attained", z3.Or(u == 0, z3.Exists([j], z3.And(j >= 0, j < k, u == z3.Select(c, j))))),
                ("lmax-untouched", env["self"].fields["lmax"].arr == S.ex.old["self"].fields["lmax"].arr)]

    @property
    def loops(self):
        return {0: Loop(inv=lambda S, env, g: self.inv(S, env, g))}

    def post(self, S, old, env, result):
        o = env["refinement_container_d"].fields["refinementObjects"]
        oo = old["refinement_container_d"].fields["refinementObjects"]
        lm = z3.Select(old["self"].fields["lmax"].arr, old["d"])
        n = oo.length
        j = z3.Int("pj")
        c = o.fields["coarsening_level"]
        r = V(result)
        return [Cl("coarsening-equals-lmax-minus-deepest-end-level", z3.ForAll([j], z3.Implies(z3.And(j >= 0, j < n), z3.Select(c, j) == lm - self.deepest(oo, j))), prop=True),
                Cl("returned-raise-makes-every-coarsening-nonnegative", z3.And(r >= 0, z3.ForAll([j], z3.Implies(z3.And(j >= 0, j < n), z3.Select(c, j) + r >= 0))), prop=True),
                Cl("returned-raise-is-minimal", z3.Or(r == 0, z3.Exists([j], z3.And(j >= 0, j < n, z3.Select(c, j) + r == 0)))),
                Cl("lmax-untouched", env["self"].fields["lmax"].arr == old["self"].fields["lmax"].arr)]


CONTRACTS += [UpdateCoarseningValues()]


# --------------------------------------------------------------------------- MetaRefinementContainer: lexicographic cursor over the dimensions
class MetaGetNextObject(Contract):
    """selection over all dimensions (fixed number of dimensions, any container sizes): the next selected interval is the first one in
    lexicographic (dimension, position) order at/after the cursor whose benefit reaches the tolerance; nothing is skipped"""
    file, qualname = RC_FILE, "MetaRefinementContainer.get_next_object_for_refinement"

    def __init__(self, ndim):
        self.ndim = ndim
        self.label = "MetaRefinementContainer.get_next_object_for_refinement[dims=%d]" % ndim

    def inputs(self, S):
        conts = []
        for c in range(self.ndim):
            n = S.int("n%d" % c)
            S.assume(n >= 0)
            objs = ObjSeq("RefinementObjectSingleDimension", n, dict(benefit=S.array("benefit%d" % c, I, R), error=S.array("error%d" % c, I, R),
                                                                     evaluations=S.array("evaluations%d" % c, I, I), coarsening_level=S.array("coarsening%d" % c, I, I)))
            conts.append(Obj("RefinementContainer", dict(refinementObjects=objs, dim=1, startNewObjects=S.int("startNewObjects%d" % c),
                                                         searchPosition=S.int("searchPosition%d" % c))))
        return {"self": Obj("MetaRefinementContainer", dict(refinementContainers=Seq("list", conts), curContainer=S.int("curContainer"))), "tolerance": S.real("tolerance")}

    def pre(self, S, env):
        f = env["self"].fields
        out = [("cursor-in-range", z3.And(f["curContainer"] >= 0, f["curContainer"] <= self.ndim))]
        for c, cont in enumerate(f["refinementContainers"].items):
            out += [("c%d.%s" % (c, n), e) for n, e in container_wf(cont)]
        return out

    @staticmethod
    def none_from_cursor(cont_old, tol):
        f = cont_old.fields
        j = z3.Int("mj")
        end = GetNextObject.end_of(cont_old)
        return z3.ForAll([j], z3.Implies(z3.And(j >= f["searchPosition"], j < end), z3.Select(f["refinementObjects"].fields["benefit"], j) < tol))

    def inv(self, S, env, g):
        so = S.ex.old["self"].fields
        f = env["self"].fields
        cur0, cur = so["curContainer"], f["curContainer"]
        tol = env["tolerance"]
        out = [("cursor", z3.And(cur >= cur0, cur < self.ndim)), ("not-found-yet", (env["foundObj"] is False) if isinstance(env["foundObj"], bool) else z3.Not(env["foundObj"])), ("tolerance-unchanged", tol == S.ex.old["tolerance"])]
        for c in range(self.ndim):
            co, cn = so["refinementContainers"].items[c], f["refinementContainers"].items[c]
            out.append(("skipped-dimension-%d-has-no-candidate" % c, z3.Implies(z3.And(cur0 <= c, c < cur), self.none_from_cursor(co, tol))))
            out.append(("dimension-%d-untouched" % c, z3.And(cn.fields["searchPosition"] == co.fields["searchPosition"],
                                                           cn.fields["startNewObjects"] == co.fields["startNewObjects"],
                                                           cn.fields["refinementObjects"].fields["benefit"] == co.fields["refinementObjects"].fields["benefit"])))
        return out

    @property
    def loops(self):
        # the variant makes the cursor advance part of the proof (a step that does not move to the next dimension would loop forever)
        return {0: Loop(inv=lambda S, env, g: self.inv(S, env, g), variant=lambda S, env, g: self.ndim - env["self"].fields["curContainer"])}

    def post(self, S, old, env, result):
        so, f = old["self"].fields, env["self"].fields
        tol = old["tolerance"]
        cur0 = so["curContainer"]
        ok = isinstance(result, Seq) and result.concrete and len(result.items) == 3
        if not ok:
            return [Cl("returns-triple", False, prop=True)]
        found, pos, obj = result.items
        out = [Cl("returns-triple", True, prop=True)]
        if found is True:
            okpos = isinstance(pos, Seq) and pos.concrete and len(pos.items) == 2
            if not okpos:
                return [Cl("position-is-a-pair", False, prop=True)]
            cpos, ipos = pos.items
            cpos_z = V(cpos)
            sel = []
            for c in range(self.ndim):
                co = so["refinementContainers"].items[c]
                cn = f["refinementContainers"].items[c]
                ben = co.fields["refinementObjects"].fields["benefit"]
                j = z3.Int("pj")
                sel.append(z3.Implies(cpos_z == c, z3.And(
                    z3.Select(ben, ipos) >= tol, ipos >= co.fields["searchPosition"], ipos < GetNextObject.end_of(co),
                    z3.ForAll([j], z3.Implies(z3.And(j >= co.fields["searchPosition"], j < ipos), z3.Select(ben, j) < tol)),
                    cn.fields["searchPosition"] == ipos + 1)))
                sel.append(z3.Implies(z3.And(cur0 <= c, c < cpos_z), self.none_from_cursor(co, tol)))
            others = [z3.Implies(cpos_z != c, f["refinementContainers"].items[c].fields["searchPosition"] == so["refinementContainers"].items[c].fields["searchPosition"])
                      for c in range(self.ndim)]
            out += [Cl("selected-dimension-at-or-after-cursor", z3.And(cpos_z >= cur0, cpos_z < self.ndim, f["curContainer"] == cpos_z), prop=True),
                    Cl("selected-reaches-tolerance-and-nothing-is-skipped", z3.And(*sel), prop=True),
                    Cl("cursors-of-the-other-dimensions-untouched", z3.And(*others))]
        elif found is False:
            none = [z3.Implies(cur0 <= c, self.none_from_cursor(so["refinementContainers"].items[c], tol)) for c in range(self.ndim)]
            out += [Cl("no-candidate-left-in-any-dimension", z3.And(*none), prop=True),
                    Cl("cursor-exhausted", f["curContainer"] == self.ndim),
                    Cl("cursors-of-all-dimensions-untouched", z3.And(*[f["refinementContainers"].items[c].fields["searchPosition"] == so["refinementContainers"].items[c].fields["searchPosition"]
                                                                        for c in range(self.ndim)]))]
        else:
            out = [Cl("returns-triple", False, prop=True)]
        return out


CONTRACTS += [MetaGetNextObject(1), MetaGetNextObject(2), MetaGetNextObject(3)]


# --------------------------------------------------------------------------- RefinementContainer.refine (one interval is split)
def full_container(S, tag=""):
    n = S.int("n" + tag)
    S.assume(n >= 1)
    fields = dict(benefit=S.array("benefit" + tag, I, R), error=S.array("error" + tag, I, R), evaluations=S.array("evaluations" + tag, I, I),
                  coarsening_level=S.array("coarsening" + tag, I, I), start=S.array("start" + tag, I, R), end=S.array("end" + tag, I, R),
                  levels=[S.array("l0" + tag, I, I), S.array("l1" + tag, I, I)])
    objs = ObjSeq("RefinementObjectSingleDimension", n, fields)
    pop_n = S.int("pop.len" + tag)
    S.assume(pop_n >= 0)
    return Obj("RefinementContainer", dict(refinementObjects=objs, dim=1, startNewObjects=S.int("startNewObjects" + tag), searchPosition=S.int("searchPosition" + tag),
                                           popArray=Seq("list", None, pop_n, S.array("popArray" + tag, I, I)), value=S.real("cvalue" + tag),
                                           evaluationstotal=S.int("cevals" + tag)))


class ObjRefineForCallers(Contract):
    """caller-side view of RefinementObjectSingleDimension.refine on an element of an object list: the proved postcondition of `Refine`
    (two children tiling the interval, shared level max+1, coarsening max(c-1,0)) -- same clauses, stated on the element view"""
    file, qualname = "sparseSpACE/RefinementObject.py", "RefinementObjectSingleDimension.refine"
    trusted = True
    note = "proved separately as RefinementObjectSingleDimension.refine (contract `Refine`); this is its caller-side form for list elements"

    def applies(self, receiver, args):
        return hasattr(receiver, "origin")

    def inputs(self, S):
        return {"self": interval(S)}

    def result(self, S, env):
        s = env["self"].fields
        if getattr(S.ex.contract, "callee_may_refuse", False) and S.ex.decide(S.bool("split_refused")):
            # in floating point an interval of two adjacent numbers cannot be split: the real function then refuses (assert start < mid < end) and, being a
            # pure constructor of children, leaves the receiver untouched (contract `Refine`: receiver-unchanged)
            from pyvc.engine import RaiseEx
            raise RaiseEx("AssertionError", S.ex.fn)
        kids = []
        for k in range(2):
            kids.append(Obj("RefinementObjectSingleDimension", dict(start=S.real("child%d.start" % k), end=S.real("child%d.end" % k),
                                                                     levels=Seq("list", [S.int("child%d.l0" % k), S.int("child%d.l1" % k)]),
                                                                     coarsening_level=S.int("child%d.coarsening" % k), evaluations=0, error=z3.RealVal(0), benefit=None)))
        return Seq("tuple", [Seq("list", kids), None, None])

    def post(self, S, old, env, result):
        s = old["self"].fields
        c0, c1 = [k.fields for k in result.items[0].items]
        l0, l1 = s["levels"].items
        m = zmax(l0, l1)
        return [("children", z3.And(c0["start"] == s["start"], c0["end"] == c1["start"], c1["end"] == s["end"], s["start"] < c0["end"], c0["end"] < s["end"],
                                    c0["levels"].items[0] == l0, c0["levels"].items[1] == m + 1, c1["levels"].items[0] == m + 1, c1["levels"].items[1] == l1,
                                    c0["coarsening_level"] == zmax(s["coarsening_level"] - 1, 0), c1["coarsening_level"] == c0["coarsening_level"]))]


class ContainerRefine(Contract):
    file, qualname = RC_FILE, "RefinementContainer.refine"
    inline = ("RefinementContainer.prepare_remove", "prepare_remove", "RefinementContainer.add", "add")
    modifies = ("refinementObjects", "popArray", "startNewObjects")

    def inputs(self, S):
        return {"self": full_container(S), "object_id": S.int("object_id")}

    def pre(self, S, env):
        f = env["self"].fields
        i = env["object_id"]
        n = f["refinementObjects"].length
        return [("index", z3.And(i >= 0, i < n)), ("marker", z3.And(f["startNewObjects"] >= 0, f["startNewObjects"] <= n))]

    def result(self, S, env):
        return Seq("tuple", [None, Opaque_list(S)])

    def post(self, S, old, env, result):
        fo, f = old["self"].fields, env["self"].fields
        oo, o = fo["refinementObjects"], f["refinementObjects"]
        n = oo.length
        i = old["object_id"]
        j = z3.Int("cj")
        po, pn = fo["popArray"].to_symbolic(), f["popArray"].to_symbolic()
        pre_kept = []
        for fld in ("benefit", "start", "end"):
            pre_kept.append(z3.ForAll([j], z3.Implies(z3.And(j >= 0, j < n), z3.Select(o.fields[fld], j) == z3.Select(oo.fields[fld], j))))
        coarsening_kept = z3.ForAll([j], z3.Implies(z3.And(j >= 0, j < n), z3.Select(o.fields["coarsening_level"], j) == z3.Select(oo.fields["coarsening_level"], j)))
        l0o, l1o = oo.fields["levels"]
        l0n, l1n = o.fields["levels"]
        m = zmax(z3.Select(l0o, i), z3.Select(l1o, i))
        return [Cl("two-children-appended", V(o.length) == n + 2, prop=True),
                Cl("existing-objects-untouched", z3.And(*pre_kept), prop=True),
                Cl("existing-provisional-coarsening-untouched", coarsening_kept),
                Cl("children-tile-the-refined-interval", z3.And(z3.Select(o.fields["start"], n) == z3.Select(oo.fields["start"], i),
                                                                z3.Select(o.fields["end"], n) == z3.Select(o.fields["start"], n + 1),
                                                                z3.Select(o.fields["end"], n + 1) == z3.Select(oo.fields["end"], i),
                                                                z3.Select(o.fields["start"], n) < z3.Select(o.fields["end"], n),
                                                                z3.Select(o.fields["start"], n + 1) < z3.Select(o.fields["end"], n + 1)), prop=True),
                Cl("children-levels", z3.And(z3.Select(l0n, n) == z3.Select(l0o, i), z3.Select(l1n, n) == m + 1, z3.Select(l0n, n + 1) == m + 1,
                                             z3.Select(l1n, n + 1) == z3.Select(l1o, i)), prop=True),
                Cl("refined-object-scheduled-for-removal", z3.And(V(pn.len()) == V(po.len()) + 1, pn.arr == z3.Store(po.arr, V(po.len()), i)), prop=True),
                Cl("new-object-marker", f["startNewObjects"] == z3.If(fo["startNewObjects"] == 0, n, fo["startNewObjects"])),
                Cl("cursor-untouched", f["searchPosition"] == fo["searchPosition"])]


def Opaque_list(S):
    from pyvc.values import Opaque
    from pyvc import prelude as P
    return Opaque(S.const("new_objects", P.U))


class ContainerRefineRefusal(ContainerRefine):
    """the same function when the interval's own refine() refuses (an interval that cannot be split in floating point raises AssertionError): the container
    must be exactly as before -- no interval scheduled for removal, no object added or changed -- so that a caller who catches the refusal and goes on
    refining still has a tiling of [a,b]"""
    callee_may_refuse = True
    total = False

    def __init__(self):
        self.label = "RefinementContainer.refine[the interval refuses to be split]"

    def post_raise(self, S, old, env, exc_name):
        if exc_name != "AssertionError":
            return None
        fo, f = old["self"].fields, env["self"].fields
        oo, o = fo["refinementObjects"], f["refinementObjects"]
        po, pn = fo["popArray"].to_symbolic(), f["popArray"].to_symbolic()
        same = [V(o.length) == V(oo.length)]
        for fld in ("benefit", "start", "end", "coarsening_level", "error", "evaluations"):
            same.append(o.fields[fld] == oo.fields[fld])
        same += [a_ == b_ for a_, b_ in zip(o.fields["levels"], oo.fields["levels"])]
        return [Cl("nothing-is-scheduled-for-removal", z3.And(V(pn.len()) == V(po.len()), pn.arr == po.arr), prop=True),
                Cl("objects-untouched", z3.And(*same), prop=True),
                Cl("cursor-untouched", f["searchPosition"] == fo["searchPosition"])]

    @staticmethod
    def model_to_input(model):
        return {"kind": "C06.refine_refused"}


CONTRACTS += [ObjRefineForCallers(), ContainerRefine(), ContainerRefineRefusal()]


# --------------------------------------------------------------------------- the refinement step: SpatiallyAdaptivBase.refine (dimension-wise strategy)
from pyvc import lemmas as L  # noqa: E402

IA = z3.ArraySort(I, I)
INPOP = z3.Function("InList", IA, I, I, z3.BoolSort())      # InList(p, n, j): j occurs among p[0..n)


def inpop_axioms():
    p = z3.Const("ip", IA)
    n, v, j, m = z3.Ints("in iv ij im")
    return [z3.ForAll([p, j], z3.Not(INPOP(p, 0, j)), patterns=[INPOP(p, 0, j)]),
            z3.ForAll([p, n, v, j, m], z3.Implies(z3.And(n >= 0, m == n + 1), INPOP(z3.Store(p, n, v), m, j) == z3.Or(INPOP(p, n, j), j == v)),
                      patterns=[INPOP(z3.Store(p, n, v), m, j)])]


def _inpop_lemma():
    """the two axioms used for InList hold for its definition  InList(p,n,j) := exists t. 0<=t<n and p[t]==j"""
    p = z3.Const("p", IA)
    n, v, j, t = z3.Ints("n v j t")
    D = lambda arr, m: z3.Exists([t], z3.And(t >= 0, t < m, z3.Select(arr, t) == j))  # noqa
    return [([], z3.Not(D(p, z3.IntVal(0)))),
            ([n >= 0, D(z3.Store(p, n, v), n + 1)], z3.Or(D(p, n), j == v)),
            ([n >= 0, D(p, n)], D(z3.Store(p, n, v), n + 1)),
            ([n >= 0, j == v], D(z3.Store(p, n, v), n + 1))]


def qualifies(cont_old, j, tol):
    return z3.Select(cont_old.fields["refinementObjects"].fields["benefit"], j) >= tol


def selection_done(cont_now, cont_0, n0, progress, tol, tag):
    """pop list of one container == ascending list of the qualifying pre-existing indices below `progress`"""
    pa = cont_now.fields["popArray"].to_symbolic()
    plen = V(pa.len())
    j, t = z3.Int("sj" + tag), z3.Int("st" + tag)
    return [("exactly-the-qualifying-indices" + tag, z3.ForAll([j], INPOP(pa.arr, plen, j) == z3.And(j >= 0, j < progress, qualifies(cont_0, j, tol)),
                                                                patterns=[INPOP(pa.arr, plen, j)])),
            ("each-once-ascending" + tag, z3.ForAll([t], z3.Implies(z3.And(t >= 0, t < plen), z3.And(z3.Select(pa.arr, t) >= 0, z3.Select(pa.arr, t) < progress,
                                                                                                    z3.Implies(t + 1 < plen, z3.Select(pa.arr, t) < z3.Select(pa.arr, t + 1)))))),
            ("pop-length" + tag, plen >= 0)]


class MetaGetNextForCallers:
    """mixin: caller-side frame and result shapes of MetaRefinementContainer.get_next_object_for_refinement"""

    def havoc(self, S, cenv, tag):
        m = cenv["self"]
        m.fields["curContainer"] = S.int(tag + ".curContainer")
        for c, cont in enumerate(m.fields["refinementContainers"].items):
            cont.fields["searchPosition"] = S.int("%s.searchPosition%d" % (tag, c))

    def result(self, S, env):
        if S.ex.decide(S.bool("meta.found")):
            return Seq("tuple", [True, Seq("tuple", [S.int("meta.found.dim"), S.int("meta.found.index")]), None])
        return Seq("tuple", [False, None, None])


for _c in CONTRACTS:
    if isinstance(_c, MetaGetNextObject):
        _c.havoc = MetaGetNextForCallers.havoc.__get__(_c)
        _c.result = MetaGetNextForCallers.result.__get__(_c)
        _c.applies = (lambda nd: (lambda receiver, args: len(receiver.fields["refinementContainers"].items) == nd))(_c.ndim)


class MetaRefine(Contract):
    file, qualname = RC_FILE, "MetaRefinementContainer.refine"

    def __init__(self, ndim):
        self.ndim = ndim
        self.label = "MetaRefinementContainer.refine[dims=%d]" % ndim

    def applies(self, receiver, args):
        return len(receiver.fields["refinementContainers"].items) == self.ndim

    def inputs(self, S):
        conts = [full_container(S, str(c)) for c in range(self.ndim)]
        return {"self": Obj("MetaRefinementContainer", dict(refinementContainers=Seq("list", conts), curContainer=S.int("curContainer"))),
                "position": Seq("tuple", [S.int("pos.dim"), S.int("pos.index")])}

    def pre(self, S, env):
        cpos, ipos = env["position"].items
        out = [("dimension-in-range", z3.And(V(cpos) >= 0, V(cpos) < self.ndim))]
        for c, cont in enumerate(env["self"].fields["refinementContainers"].items):
            f = cont.fields
            n = f["refinementObjects"].length
            out.append(("index-in-range-%d" % c, z3.Implies(V(cpos) == c, z3.And(V(ipos) >= 0, V(ipos) < n))))
            out.append(("marker-%d" % c, z3.And(f["startNewObjects"] >= 0, f["startNewObjects"] <= n)))
        return out

    def havoc(self, S, cenv, tag):
        for c, cont in enumerate(cenv["self"].fields["refinementContainers"].items):
            for fld in ("refinementObjects", "popArray", "startNewObjects"):
                cont.fields[fld] = S.like(cont.fields[fld], "%s.c%d.%s" % (tag, c, fld))

    def result(self, S, env):
        return Seq("tuple", [None, Opaque_list(S)])

    @staticmethod
    def summary(co, cn, ipos):
        """effect of RefinementContainer.refine(ipos) on one container, as far as the selection argument needs it"""
        oo, o = co.fields["refinementObjects"], cn.fields["refinementObjects"]
        n = V(oo.length)
        po, pn = co.fields["popArray"].to_symbolic(), cn.fields["popArray"].to_symbolic()
        j = z3.Int("mrj")
        return z3.And(V(o.length) == n + 2,
                      z3.ForAll([j], z3.Implies(z3.And(j >= 0, j < n), z3.Select(o.fields["benefit"], j) == z3.Select(oo.fields["benefit"], j))),
                      V(pn.len()) == V(po.len()) + 1, pn.arr == z3.Store(po.arr, V(po.len()), ipos),
                      cn.fields["startNewObjects"] == z3.If(co.fields["startNewObjects"] == 0, n, co.fields["startNewObjects"]),
                      cn.fields["searchPosition"] == co.fields["searchPosition"])

    @staticmethod
    def untouched(co, cn):
        oo, o = co.fields["refinementObjects"], cn.fields["refinementObjects"]
        return z3.And(V(o.length) == V(oo.length), o.fields["benefit"] == oo.fields["benefit"],
                      V(cn.fields["popArray"].to_symbolic().len()) == V(co.fields["popArray"].to_symbolic().len()),
                      cn.fields["popArray"].to_symbolic().arr == co.fields["popArray"].to_symbolic().arr,
                      cn.fields["startNewObjects"] == co.fields["startNewObjects"], cn.fields["searchPosition"] == co.fields["searchPosition"])

    def post(self, S, old, env, result):
        cpos, ipos = old["position"].items
        out = []
        for c in range(self.ndim):
            co, cn = old["self"].fields["refinementContainers"].items[c], env["self"].fields["refinementContainers"].items[c]
            out.append(Cl("selected-dimension-%d-gets-the-split" % c, z3.Implies(V(cpos) == c, self.summary(co, cn, V(ipos)))))
            out.append(Cl("other-dimension-%d-untouched" % c, z3.Implies(V(cpos) != c, self.untouched(co, cn))))
        out.append(Cl("cursor-untouched", env["self"].fields["curContainer"] == old["self"].fields["curContainer"]))
        return out


class RefinementPostprocessing(Contract):
    """the point at which the refinement step hands over to removal / sorting / rebalancing.  Its PRECONDITION is the C06 selection clause: for
    every dimension the list of intervals scheduled for removal (== the intervals that were split) is exactly the ascending list of the
    pre-existing intervals whose benefit reaches margin * largest benefit."""
    file, qualname = SD_FILE, "SpatiallyAdaptiveSingleDimensions2.refinement_postprocessing"
    trusted = True
    note = "body (apply_remove(sort), rebalance, coarsening update, new scheme) is covered by the other C06 contracts and by layer B; here only its precondition matters"

    def inputs(self, S):
        return {"self": Obj("SpatiallyAdaptiveSingleDimensions2", {})}

    def pre(self, S, env):
        s = env["self"]
        g = s.fields.get("ghost_entry")
        if g is None:
            return []
        tol = g["tol"]
        out = []
        for c, cont in enumerate(s.fields["refinement"].fields["refinementContainers"].items):
            for nm, e in selection_done(cont, g["conts"][c], g["n0"][c], g["n0"][c], tol, "[dim %d]" % c):
                out.append(Cl("split-set-is-" + nm, e, prop=True))
        return out


class BaseRefine(Contract):
    file, qualname = "sparseSpACE/spatiallyAdaptiveBase.py", "SpatiallyAdaptivBase.refine"
    inline = ("SpatiallyAdaptivBase.prepare_refinement", "prepare_refinement", "MetaRefinementContainer.clear_new_objects", "clear_new_objects",
              "RefinementContainer.clear_new_objects", "SpatiallyAdaptiveSingleDimensions2.do_refinement", "do_refinement")

    def __init__(self, ndim):
        self.ndim = ndim
        self.label = "SpatiallyAdaptivBase.refine[dimension-wise, dims=%d]" % ndim

    def inputs(self, S):
        for ax in inpop_axioms():
            S.assume(ax)
        conts = [full_container(S, str(c)) for c in range(self.ndim)]
        meta = Obj("MetaRefinementContainer", dict(refinementContainers=Seq("list", conts), curContainer=0))
        margin, bmax = S.real("margin"), S.real("benefit_max")
        s = Obj("SpatiallyAdaptiveSingleDimensions2", dict(refinement=meta, margin=margin, benefit_max=bmax, refinements=S.int("refinements"),
                                                           recalculate_frequently=False, log_util=Obj("LogUtility", {})))
        # ghost snapshot of the entry state for the precondition of refinement_postprocessing
        from pyvc import values as Vv
        s.fields["ghost_entry"] = {"tol": bmax * margin, "conts": [Vv.clone(c) for c in conts], "n0": [c.fields["refinementObjects"].length for c in conts]}
        return {"self": s}

    def pre(self, S, env):
        out = []
        for c, cont in enumerate(env["self"].fields["refinement"].fields["refinementContainers"].items):
            f = cont.fields
            out += [("fresh-step-%d" % c, z3.And(f["searchPosition"] == 0, V(f["popArray"].to_symbolic().len()) == 0, f["refinementObjects"].length >= 1))]
        return out

    def inv(self, S, env, g):
        s = env["self"]
        ge = s.fields["ghost_entry"]
        tol = ge["tol"]
        meta = s.fields["refinement"]
        cur = meta.fields["curContainer"]
        out = [("cursor-range", z3.And(V(cur) >= 0, V(cur) <= self.ndim)),
               ("not-quitting", (env["quit_refinement"] is False) if isinstance(env["quit_refinement"], bool) else z3.Not(env["quit_refinement"])),
               ("tolerance-fixed", z3.And(s.fields["benefit_max"] * env["margin"] == tol, s.fields["margin"] == env["margin"]))]
        for c, cont in enumerate(meta.fields["refinementContainers"].items):
            f = cont.fields
            c0, n0 = ge["conts"][c], ge["n0"][c]
            o = f["refinementObjects"]
            j = z3.Int("bj%d" % c)
            progress = z3.If(V(cur) > c, n0, z3.If(V(cur) == c, f["searchPosition"], 0))
            out += [("window-frozen-%d" % c, z3.And(f["startNewObjects"] == n0, V(o.length) >= n0, f["searchPosition"] >= 0, f["searchPosition"] <= n0,
                                                    z3.Implies(V(cur) < c, f["searchPosition"] == 0))),
                    ("benefits-of-existing-intervals-unchanged-%d" % c, z3.ForAll([j], z3.Implies(z3.And(j >= 0, j < n0),
                     z3.Select(o.fields["benefit"], j) == z3.Select(c0.fields["refinementObjects"].fields["benefit"], j))))]
            out += [(nm + "-%d" % c, e) for nm, e in selection_done(cont, c0, n0, progress, tol, "[dim %d]" % c)]
        return out

    @property
    def loops(self):
        return {0: Loop(inv=lambda S, env, g: self.inv(S, env, g))}

    def post(self, S, old, env, result):
        return [Cl("returns-none", result is None)]


CONTRACTS += [MetaRefine(1), MetaRefine(2), RefinementPostprocessing(), BaseRefine(1), BaseRefine(2)]
LEMMAS += [L.SmtLemma("InList-axioms-hold-for-the-existential-definition", _inpop_lemma)]


# --------------------------------------------------------------------------- the "largest benefit" the margin refers to
class GetMaxBenefit(Contract):
    """RefinementContainer.get_max_benefit (any container size): the result is an upper bound of every benefit, never negative, and is 0 or attained"""
    file, qualname = RC_FILE, "RefinementContainer.get_max_benefit"

    def inputs(self, S):
        return {"self": container(S)}

    def result(self, S, env):
        return S.real("max_benefit")

    @staticmethod
    def is_max(r, ben, n, tag):
        j = z3.Int("mb" + tag)
        return z3.And(r >= 0, z3.ForAll([j], z3.Implies(z3.And(j >= 0, j < n), z3.Select(ben, j) <= r)),
                      z3.Or(r == 0, z3.Exists([j], z3.And(j >= 0, j < n, z3.Select(ben, j) == r))))

    def inv(self, S, env, g):
        from pyvc import values as Vv
        ben = S.ex.old["self"].fields["refinementObjects"].fields["benefit"]
        return [("maximum-so-far", self.is_max(Vv.to_z3(env["max_benefit"], True), ben, g["k"], "i")),
                ("benefits-untouched", env["self"].fields["refinementObjects"].fields["benefit"] == ben)]

    @property
    def loops(self):
        return {0: Loop(inv=lambda S, env, g: self.inv(S, env, g))}

    def post(self, S, old, env, result):
        from pyvc import values as Vv
        o = old["self"].fields["refinementObjects"]
        return [Cl("largest-benefit-of-the-container-or-zero", self.is_max(Vv.to_z3(result, True), o.fields["benefit"], o.length, "p"), prop=True),
                Cl("benefits-untouched", env["self"].fields["refinementObjects"].fields["benefit"] == o.fields["benefit"])]


class MetaGetMaxBenefit(Contract):
    """MetaRefinementContainer.get_max_benefit (fixed number of dimensions, any container sizes): the largest benefit over all dimensions (0 if none is positive)"""
    file, qualname = RC_FILE, "MetaRefinementContainer.get_max_benefit"

    def __init__(self, ndim):
        self.ndim = ndim
        self.label = "MetaRefinementContainer.get_max_benefit[dims=%d]" % ndim

    def inputs(self, S):
        conts = []
        for c in range(self.ndim):
            n = S.int("n%d" % c)
            S.assume(n >= 0)
            objs = ObjSeq("RefinementObjectSingleDimension", n, dict(benefit=S.array("benefit%d" % c, I, R)))
            conts.append(Obj("RefinementContainer", dict(refinementObjects=objs, dim=1, startNewObjects=S.int("startNewObjects%d" % c), searchPosition=S.int("searchPosition%d" % c))))
        return {"self": Obj("MetaRefinementContainer", dict(refinementContainers=Seq("list", conts)))}

    def applies(self, receiver, args):
        return len(receiver.fields["refinementContainers"].items) == self.ndim

    def result(self, S, env):
        return S.real("meta.max_benefit")

    def pre(self, S, env):
        out = []
        for c, cont in enumerate(env["self"].fields["refinementContainers"].items):
            out += [("c%d.%s" % (c, n), e) for n, e in container_wf(cont)]
        return out

    def post(self, S, old, env, result):
        from pyvc import values as Vv
        r = Vv.to_z3(result, True)
        conts = old["self"].fields["refinementContainers"].items
        j = z3.Int("mj2")
        upper = [z3.ForAll([j], z3.Implies(z3.And(j >= 0, j < c.fields["refinementObjects"].length), z3.Select(c.fields["refinementObjects"].fields["benefit"], j) <= r)) for c in conts]
        attained = [z3.Exists([j], z3.And(j >= 0, j < c.fields["refinementObjects"].length, z3.Select(c.fields["refinementObjects"].fields["benefit"], j) == r)) for c in conts]
        return [Cl("largest-benefit-over-all-dimensions-or-zero", z3.And(r >= 0, z3.And(*upper), z3.Or(r == 0, *attained)), prop=True)]


CONTRACTS += [GetMaxBenefit(), MetaGetMaxBenefit(1), MetaGetMaxBenefit(2), MetaGetMaxBenefit(3)]


# --------------------------------------------------------------------------- evaluate_operation: benefit_max IS the largest benefit after the evaluation
BASE_FILE = "sparseSpACE/spatiallyAdaptiveBase.py"


class _EvalStep(Contract):
    """abstract evaluation step of the driver (component-grid evaluation, error estimation): may rewrite every benefit / error of the refinement
    structure; nothing else of the structure is read by evaluate_operation afterwards"""
    trusted = True
    file = BASE_FILE

    def __init__(self, qualname, params, note, result=None):
        self.qualname, self._params, self.note, self._result = qualname, params, note, result

    def inputs(self, S):
        d = {"self": Obj("SpatiallyAdaptiveSingleDimensions2", {})}
        for p in self._params:
            d[p] = None
        return d

    def havoc(self, S, cenv, tag):
        meta = cenv["self"].fields.get("refinement")
        if meta is None:
            return
        for c, cont in enumerate(meta.fields["refinementContainers"].items):
            o = cont.fields["refinementObjects"]
            o.fields["benefit"] = S.array("%s.benefit%d" % (tag, c), I, R)

    def result(self, S, env):
        return self._result(S) if self._result else None


class EvaluateOperation(Contract):
    """SpatiallyAdaptivBase.evaluate_operation (dimension-wise receiver, 1-2 dimensions, any container sizes): after the evaluation steps,
    self.benefit_max is the largest benefit present in the refinement structure (0 if none is positive) -- the quantity the margin of the
    next refinement step is a fraction of"""
    file, qualname = BASE_FILE, "SpatiallyAdaptivBase.evaluate_operation"

    def __init__(self, ndim):
        self.ndim = ndim
        self.label = "SpatiallyAdaptivBase.evaluate_operation[dims=%d]" % ndim

    def inputs(self, S):
        from pyvc.values import Func
        conts = []
        for c in range(self.ndim):
            n = S.int("n%d" % c)
            S.assume(n >= 0)
            objs = ObjSeq("RefinementObjectSingleDimension", n, dict(benefit=S.array("benefit%d" % c, I, R), error=S.array("error%d" % c, I, R)))
            conts.append(Obj("RefinementContainer", dict(refinementObjects=objs, dim=1, startNewObjects=S.int("startNewObjects%d" % c), searchPosition=S.int("searchPosition%d" % c))))
        meta = Obj("MetaRefinementContainer", dict(refinementContainers=Seq("list", conts)))
        op = Obj("Integration", {})
        return {"self": Obj("SpatiallyAdaptiveSingleDimensions2", dict(refinement=meta, operation=op, norm=S.int("norm"), benefit_max=S.real("benefit_max0"), total_error=S.real("total_error0"),
                                                                       log_util=Obj("LogUtility", dict(time_func=Func("builtin", "pyvc.call_through")))))}

    def pre(self, S, env):
        out = []
        for c, cont in enumerate(env["self"].fields["refinement"].fields["refinementContainers"].items):
            out += [("c%d.%s" % (c, n), e) for n, e in container_wf(cont)]
        return out

    def post(self, S, old, env, result):
        from pyvc import values as Vv
        f = env["self"].fields
        r = Vv.to_z3(f["benefit_max"], True)
        conts = f["refinement"].fields["refinementContainers"].items
        j = z3.Int("ej")
        upper = [z3.ForAll([j], z3.Implies(z3.And(j >= 0, j < c.fields["refinementObjects"].length), z3.Select(c.fields["refinementObjects"].fields["benefit"], j) <= r)) for c in conts]
        attained = [z3.Exists([j], z3.And(j >= 0, j < c.fields["refinementObjects"].length, z3.Select(c.fields["refinementObjects"].fields["benefit"], j) == r)) for c in conts]
        return [Cl("benefit-max-is-the-largest-benefit-of-the-structure-as-evaluated", z3.And(r >= 0, z3.And(*upper), z3.Or(r == 0, *attained)), prop=True)]


_STEPS = [_EvalStep("SpatiallyAdaptivBase.get_new_areas", [], "returns the areas to evaluate", result=lambda S: Opaque_list(S)),
          _EvalStep("SpatiallyAdaptivBase.init_evaluation_operation", ["areas"], "prepares the evaluation"),
          _EvalStep("SpatiallyAdaptivBase.compute_solutions", ["areas", "evaluation_array"], "evaluates all component grids (C05 contract for the accumulation)"),
          _EvalStep("SpatiallyAdaptivBase.finalize_evaluation_operation", ["areas", "evaluation_array"], "error estimates and benefits of every refinement object are (re)computed here"),
          _EvalStep("MetaRefinementContainer.get_total_error", [], "sum of the errors (a float)", result=lambda S: S.real("total_error")),
          _EvalStep("Integration.print_evaluation_output", ["refinement"], "prints"),
          _EvalStep("Integration.get_global_error_estimate", ["refinement_container", "norm"], "error estimate or None", result=lambda S: S.real("global_error"))]
_STEPS[4].file = RC_FILE
_STEPS[5].file = "sparseSpACE/GridOperation.py"
_STEPS[6].file = "sparseSpACE/GridOperation.py"
CONTRACTS += _STEPS + [EvaluateOperation(1), EvaluateOperation(2)]


# --------------------------------------------------------------------------- between two refinement steps: cursors and markers are reset
def reset_container(S, tag=""):
    n = S.int("n" + tag)
    S.assume(n >= 0)
    objs = ObjSeq("RefinementObjectSingleDimension", n, dict(benefit=S.array("benefit" + tag, I, R), error=S.array("error" + tag, I, R), value=S.array("value" + tag, I, R),
                                                             evaluations=S.array("evaluations" + tag, I, I)))
    return Obj("RefinementContainer", dict(refinementObjects=objs, dim=1, startNewObjects=S.int("startNewObjects" + tag), searchPosition=S.int("searchPosition" + tag),
                                           value=S.real("cvalue" + tag), evaluationstotal=S.int("cevals" + tag)))


def objects_reset(o, n):
    j = z3.Int("rj")
    return z3.ForAll([j], z3.Implies(z3.And(j >= 0, j < n), z3.And(z3.Select(o.fields["error"], j) == 0, z3.Select(o.fields["value"], j) == 0, z3.Select(o.fields["evaluations"], j) == 0)))


class ReinitNewObjects(Contract):
    """RefinementContainer.reinit_new_objects: every object takes part in the next evaluation again (marker 0), totals and per-object results are zeroed"""
    file, qualname = RC_FILE, "RefinementContainer.reinit_new_objects"
    inline = ("RefinementObjectSingleDimension.reinit", "reinit")
    ignored_element_fields = ("volume",)

    def inputs(self, S):
        return {"self": reset_container(S)}

    def inv(self, S, env, g):
        f = env["self"].fields
        return [("objects-reset-so-far", objects_reset(f["refinementObjects"], g["k"])),
                ("marker-and-totals-reset", z3.And(f["startNewObjects"] == 0, V(f["value"]) == 0, V(f["evaluationstotal"]) == 0)),
                ("size-fixed", V(f["refinementObjects"].length) == V(S.ex.old["self"].fields["refinementObjects"].length))]

    @property
    def loops(self):
        return {0: Loop(inv=lambda S, env, g: self.inv(S, env, g), element_fields_written=("error", "value", "evaluations"))}

    def post(self, S, old, env, result):
        f = env["self"].fields
        o = f["refinementObjects"]
        return [Cl("marker-reset-every-object-is-evaluated-again", f["startNewObjects"] == 0, prop=True),
                Cl("totals-and-object-results-zeroed", z3.And(V(f["value"]) == 0, V(f["evaluationstotal"]) == 0, objects_reset(o, o.length)), prop=True),
                Cl("benefits-and-cursor-untouched", z3.And(o.fields["benefit"] == old["self"].fields["refinementObjects"].fields["benefit"], f["searchPosition"] == old["self"].fields["searchPosition"]))]


class ContainerPostprocessing(Contract):
    file, qualname = RC_FILE, "RefinementContainer.refinement_postprocessing"

    def inputs(self, S):
        return {"self": reset_container(S)}

    def post(self, S, old, env, result):
        f = env["self"].fields
        return [Cl("selection-cursor-back-at-the-first-interval", f["searchPosition"] == 0, prop=True),
                Cl("marker-untouched", f["startNewObjects"] == old["self"].fields["startNewObjects"])]


class MetaReset(Contract):
    """MetaRefinementContainer.reinit_new_objects / refinement_postprocessing (1-2 dimensions): the reset reaches every dimension"""

    def __init__(self, name, ndim):
        self.file, self.qualname, self.ndim, self.kind = RC_FILE, "MetaRefinementContainer." + name, ndim, name
        self.label = "MetaRefinementContainer.%s[dims=%d]" % (name, ndim)
        self.inline = ("RefinementObjectSingleDimension.reinit", "reinit")
        self.ignored_element_fields = ("volume",)

    def inputs(self, S):
        conts = [reset_container(S, str(c)) for c in range(self.ndim)]
        return {"self": Obj("MetaRefinementContainer", dict(refinementContainers=Seq("list", conts), curContainer=S.int("curContainer")))}

    def post(self, S, old, env, result):
        f = env["self"].fields
        conts = f["refinementContainers"].items
        if self.kind == "reinit_new_objects":
            return [Cl("dimension-cursor-back-at-the-first-dimension", f["curContainer"] == 0, prop=True),
                    Cl("every-dimension-marks-all-objects-for-evaluation", z3.And(*[c.fields["startNewObjects"] == 0 for c in conts]), prop=True)]
        return [Cl("every-dimension-has-its-selection-cursor-at-the-first-interval", z3.And(*[c.fields["searchPosition"] == 0 for c in conts]), prop=True)]


class _ForCallers:
    """caller-side frames of the two container resets (their own postconditions, proved above)"""


def _reinit_havoc(self, S, cenv, tag):
    f = cenv["self"].fields
    o = f["refinementObjects"]
    f["startNewObjects"] = 0
    f["value"] = z3.RealVal(0)
    f["evaluationstotal"] = 0
    for k in ("error", "value"):
        o.fields[k] = S.array("%s.%s" % (tag, k), I, R)
    o.fields["evaluations"] = S.array("%s.evaluations" % tag, I, I)


def _post_havoc(self, S, cenv, tag):
    cenv["self"].fields["searchPosition"] = 0


_r, _p = ReinitNewObjects(), ContainerPostprocessing()
_r.havoc = _reinit_havoc.__get__(_r)
_p.havoc = _post_havoc.__get__(_p)
CONTRACTS += [_r, _p] + [MetaReset(nm, nd) for nm in ("reinit_new_objects", "refinement_postprocessing") for nd in (1, 2)]


# --------------------------------------------------------------------------- end of a refinement step: coarsening levels and lmax are brought back in line
# C06: "every interval's coarsening level equals the dimension's maximum level minus the interval's highest end-point level and is never negative,
# the maximum level per dimension is at least the deepest level present" -- established by SpatiallyAdaptiveSingleDimensions2.refinement_postprocessing
# whatever removal / sorting / rebalancing did to the containers before.
Update.applies = lambda self, receiver, args: "a" in receiver.fields            # the single-object contract speaks about a full interval object
for _c in CONTRACTS:
    if isinstance(_c, MetaReset):
        _c.applies = lambda receiver, args: False                               # proved above; callers use the caller-side forms below


def coarse_container(S, tag=""):
    n = S.int("n" + tag)
    S.assume(n >= 0)
    objs = ObjSeq("RefinementObjectSingleDimension", n, dict(coarsening_level=S.array("coarsening" + tag, I, I), levels=[S.array("l0" + tag, I, I), S.array("l1" + tag, I, I)]))
    npop = S.int("pop.len" + tag)
    S.assume(npop >= 0)
    return Obj("RefinementContainer", dict(refinementObjects=objs, dim=1, startNewObjects=S.int("startNewObjects" + tag), searchPosition=S.int("searchPosition" + tag),
                                           popArray=Seq("list", None, npop, S.array("popArray" + tag, I, I))))     # intervals scheduled for removal in this step: any number, also none


def deepest_level(objs, j):
    l0, l1 = objs.fields["levels"]
    return zmax(z3.Select(l0, j), z3.Select(l1, j))


class UpdateValues(Contract):
    """RefinementContainer.update_values (any container size): every interval's coarsening level moves by the update and none becomes negative"""
    file, qualname = RC_FILE, "RefinementContainer.update_values"
    inline = ("RefinementObjectSingleDimension.update", "update")

    def inputs(self, S):
        return {"self": coarse_container(S), "update_info": S.int("update_info")}

    def pre(self, S, env):
        o = env["self"].fields["refinementObjects"]
        j = z3.Int("vj")
        return [("no-coarsening-level-becomes-negative", z3.ForAll([j], z3.Implies(z3.And(j >= 0, j < o.length), z3.Select(o.fields["coarsening_level"], j) + env["update_info"] >= 0)))]

    def inv(self, S, env, g):
        o, oo = env["self"].fields["refinementObjects"], S.ex.old["self"].fields["refinementObjects"]
        c, c0 = o.fields["coarsening_level"], oo.fields["coarsening_level"]
        j = z3.Int("ij")
        k = g["k"]
        return [("updated-prefix", z3.ForAll([j], z3.Implies(z3.And(j >= 0, j < k), z3.Select(c, j) == z3.Select(c0, j) + S.ex.old["update_info"]))),
                ("untouched-suffix", z3.ForAll([j], z3.Implies(j >= k, z3.Select(c, j) == z3.Select(c0, j)))),
                ("levels-and-size-untouched", z3.And(o.fields["levels"][0] == oo.fields["levels"][0], o.fields["levels"][1] == oo.fields["levels"][1], V(o.length) == V(oo.length),
                                                     env["update_info"] == S.ex.old["update_info"]))]

    @property
    def loops(self):
        return {0: Loop(inv=lambda S, env, g: self.inv(S, env, g), element_fields_written=("coarsening_level",))}

    def havoc(self, S, cenv, tag):
        o = cenv["self"].fields["refinementObjects"]
        o.fields["coarsening_level"] = S.array(tag + ".coarsening", I, I)

    def post(self, S, old, env, result):
        o, oo = env["self"].fields["refinementObjects"], old["self"].fields["refinementObjects"]
        c, c0 = o.fields["coarsening_level"], oo.fields["coarsening_level"]
        j = z3.Int("pj")
        return [Cl("every-coarsening-level-moves-by-the-update", z3.ForAll([j], z3.Implies(z3.And(j >= 0, j < oo.length), z3.Select(c, j) == z3.Select(c0, j) + old["update_info"]))),
                Cl("no-coarsening-level-is-negative-afterwards", z3.ForAll([j], z3.Implies(z3.And(j >= 0, j < oo.length), z3.Select(c, j) >= 0)), prop=True),
                Cl("levels-and-size-untouched", z3.And(o.fields["levels"][0] == oo.fields["levels"][0], o.fields["levels"][1] == oo.fields["levels"][1], V(o.length) == V(oo.length)))]


def _ucv_havoc(self, S, cenv, tag):
    o = cenv["refinement_container_d"].fields["refinementObjects"]
    o.fields["coarsening_level"] = S.array(tag + ".coarsening", I, I)


for _c in CONTRACTS:
    if isinstance(_c, UpdateCoarseningValues):
        _c.havoc = _ucv_havoc.__get__(_c)         # caller-side frame: the coarsening levels of the container handed in are rewritten
        _c.result = lambda S, env: S.int("update_d")


class _PostStep(Contract):
    """abstract steps of refinement_postprocessing: what they may change is havoced, nothing is promised about it"""
    trusted = True

    def __init__(self, file, qualname, params, note, havoc=None, post=None, result=None):
        self.file, self.qualname, self._params, self.note, self._havoc, self._post, self._result = file, qualname, params, note, havoc, post, result

    def inputs(self, S):
        d = {"self": Obj(self.qualname.split(".")[0], {})}
        for p in self._params:
            d[p] = None
        return d

    def applies(self, receiver, args):
        return True

    def havoc(self, S, cenv, tag):
        # ghost log of the abstract steps in the order they are called (with their scalar arguments): the caller's contract can demand that each one runs
        args = tuple(cenv.get(p_) for p_ in self._params if isinstance(cenv.get(p_), (int, bool)))
        S.ex.ghost.setdefault("steps", []).append((self.qualname.split(".")[-1],) + args)
        if self._havoc:
            self._havoc(S, cenv, tag)

    def result(self, S, env):
        r = self._result(S) if self._result else None
        if self.qualname.endswith("getCombiScheme"):
            S.ex.ghost["scheme_result"] = r
        return r

    def post(self, S, old, env, result):
        return self._post(S, old, env, result) if self._post else []


def _h_apply_remove(S, cenv, tag):
    # removal of the split intervals + sorting: any number of intervals with any levels / coarsening levels may be left in every dimension
    for c, cont in enumerate(cenv["self"].fields["refinementContainers"].items):
        f = cont.fields
        f["refinementObjects"] = S.like(f["refinementObjects"], "%s.objects%d" % (tag, c))
        f["startNewObjects"] = S.int("%s.startNewObjects%d" % (tag, c))


def _h_meta_post(S, cenv, tag):
    for cont in cenv["self"].fields["refinementContainers"].items:
        cont.fields["searchPosition"] = 0


def _h_meta_reinit(S, cenv, tag):
    cenv["self"].fields["curContainer"] = 0
    for cont in cenv["self"].fields["refinementContainers"].items:
        cont.fields["startNewObjects"] = 0


def _h_rebalance(S, cenv, tag):
    # level rotation inside dimension d: the end-point levels (and nothing that the coarsening update does not recompute) of that dimension may change
    d = cenv["d"]
    conts = cenv["self"].fields["refinement"].fields["refinementContainers"].items
    for c, cont in enumerate(conts):
        if isinstance(d, int) and c != d:
            continue
        o = cont.fields["refinementObjects"]
        o.fields["levels"] = [S.array("%s.l0_%d" % (tag, c), I, I), S.array("%s.l1_%d" % (tag, c), I, I)]
        o.fields["coarsening_level"] = S.array("%s.coarsening%d" % (tag, c), I, I)


def _h_raise_lmax(S, cenv, tag):
    lm = cenv["self"].fields["lmax"]
    nv = Seq(lm.kind, None, lm.len(), S.array(tag + ".lmax", I, I))
    lm.items, lm.length, lm.arr = None, nv.length, nv.arr


def _p_raise_lmax(S, old, env, result):
    lm, lm0 = env["self"].fields["lmax"], old["self"].fields["lmax"].to_symbolic()
    k = z3.Int("rk")
    d, v = V(old["d"]), V(old["value"])
    return [Cl("lmax-of-the-dimension-raised-by-the-value", z3.Select(lm.arr, d) == z3.Select(lm0.arr, d) + v),
            Cl("other-dimensions-untouched", z3.ForAll([k], z3.Implies(k != d, z3.Select(lm.arr, k) == z3.Select(lm0.arr, k))))]


SD_STEPS = [_PostStep(RC_FILE, "MetaRefinementContainer.apply_remove", ["sort"], "removal of the split intervals and sorting by start (tiling: layer B)", havoc=_h_apply_remove),
            _PostStep(RC_FILE, "MetaRefinementContainer.refinement_postprocessing", [], "proved separately (MetaReset): selection cursors back to 0", havoc=_h_meta_post),
            _PostStep(RC_FILE, "MetaRefinementContainer.reinit_new_objects", [], "proved separately (MetaReset): markers and per-object results reset", havoc=_h_meta_reinit),
            _PostStep(SD_FILE, "SpatiallyAdaptiveSingleDimensions2.rebalance", ["d"], "tree rebalancing by level rotation in dimension d (layer B): arbitrary new end-point levels in that dimension", havoc=_h_rebalance),
            _PostStep(SD_FILE, "SpatiallyAdaptiveSingleDimensions2.raise_lmax", ["d", "value"], "raises lmax[d] by value and extends the index set (C01 contract of update_adaptive_combi); the fix-point loop over the active indices is not verified",
                      havoc=_h_raise_lmax, post=_p_raise_lmax),
            _PostStep("sparseSpACE/combiScheme.py", "CombiScheme.getCombiScheme", ["lmin", "lmax", "do_print"], "the combination scheme of the current index set (C01)", result=lambda S: Opaque_list(S))]
SD_STEPS[-1].defaults = {"lmin": None, "lmax": None, "do_print": True}


class PostprocessingBody(Contract):
    """SpatiallyAdaptiveSingleDimensions2.refinement_postprocessing (1-2 dimensions, any container sizes, rebalancing on or off): whatever removal, sorting and
    rebalancing left behind, afterwards every interval's coarsening level is lmax[d] - its highest end-point level and is not negative"""
    file, qualname = SD_FILE, "SpatiallyAdaptiveSingleDimensions2.refinement_postprocessing"
    inline = ("MetaRefinementContainer.get_refinement_container_for_dim", "get_refinement_container_for_dim")

    def __init__(self, ndim):
        self.ndim = ndim
        self.label = "SpatiallyAdaptiveSingleDimensions2.refinement_postprocessing[coarsening bookkeeping, dims=%d]" % ndim

    def applies(self, receiver, args):
        return False        # callers (SpatiallyAdaptivBase.refine) use the precondition-only form RefinementPostprocessing

    def model_to_input(self, model):
        """the state the coarsening loop starts from (what removal / sorting / rebalancing left behind) and lmax"""
        import re
        from pyvc import modelparse as mp

        def find(suffix):
            ks = [k for k in model if re.search(re.escape(suffix) + r"$", k)]
            return model[sorted(ks, key=len)[0]] if ks else None
        reb = str(model.get("rebalancing", "False")) == "True"
        dims = []
        for c in range(self.ndim):
            n = mp.num(str(find("apply_remove.objects%d.len" % c) or "0")) or 0
            n = max(0, min(int(n), 6))
            lv = []
            for q in (0, 1):
                src = find("rebalance.l%d_%d" % (q, c)) if reb else None
                if src is None:
                    src = find("apply_remove.objects%d.levels%d" % (c, q))
                a = mp.array(str(src)) if src is not None else None
                dflt, m = a if a else (0, {})
                lv.append([int(m.get(i, dflt) or 0) for i in range(n)])
            dims.append({"n": n, "l0": lv[0], "l1": lv[1]})
        a = mp.array(str(model.get("lmax", "")))
        dflt, m = a if a else (1, {})
        return {"kind": "C06.postprocessing", "ndim": self.ndim, "lmax": [int(m.get(i, dflt) or 0) for i in range(self.ndim)], "dims": dims}

    def inputs(self, S):
        conts = [coarse_container(S, str(c)) for c in range(self.ndim)]
        meta = Obj("MetaRefinementContainer", dict(refinementContainers=Seq("list", conts), curContainer=S.int("curContainer")))
        return {"self": Obj("SpatiallyAdaptiveSingleDimensions2", dict(dim=self.ndim, lmax=S.seq("lmax", self.ndim, I), refinement=meta, rebalancing=S.bool("rebalancing"),
                                                                       combischeme=Obj("CombiScheme", {}), scheme=None, subtraction_value_cache=None, max_level_dict=None,
                                                                       log_util=Obj("LogUtility", {})))}

    def post(self, S, old, env, result):
        f = env["self"].fields
        lm = f["lmax"].to_symbolic() if f["lmax"].concrete else f["lmax"]
        steps = [(x if x[0] in ("rebalance", "apply_remove") else x[:1]) for x in S.ex.ghost.get("steps", []) if x[0] != "raise_lmax"]
        reb = old["self"].fields["rebalancing"]
        with_reb = [("apply_remove", True), ("refinement_postprocessing",), ("reinit_new_objects",)] + [("rebalance", d) for d in range(self.ndim)] + [("getCombiScheme",)]
        without = [x for x in with_reb if x[0] != "rebalance"]
        order_ok = (steps == with_reb) if any(x[0] == "rebalance" for x in steps) else (steps == without)
        reb_ok = z3.BoolVal(True)
        if not isinstance(reb, bool):
            reb_ok = (reb == z3.BoolVal(any(x[0] == "rebalance" for x in steps)))
        out = [Cl("split-intervals-are-removed-and-the-rest-sorted-cursors-and-markers-reset-before-the-coarsening-update", order_ok, prop=True),
               Cl("every-dimension-is-rebalanced-exactly-when-rebalancing-is-on", reb_ok),
               Cl("scheme-is-recomputed-after-the-level-updates", f.get("scheme") is not None and f.get("scheme") is S.ex.ghost.get("scheme_result")),
               Cl("caches-of-the-previous-structure-are-dropped", f.get("subtraction_value_cache") == {} and f.get("max_level_dict") == {})]
        for c, cont in enumerate(f["refinement"].fields["refinementContainers"].items):
            o = cont.fields["refinementObjects"]
            j = z3.Int("qj%d" % c)
            co = z3.Select(o.fields["coarsening_level"], j)
            rng = z3.And(j >= 0, j < o.length)
            out += [Cl("coarsening-is-lmax-minus-the-highest-end-point-level[dim %d]" % c, z3.ForAll([j], z3.Implies(rng, co == z3.Select(lm.arr, c) - deepest_level(o, j))), prop=True),
                    Cl("coarsening-never-negative[dim %d]" % c, z3.ForAll([j], z3.Implies(rng, co >= 0)), prop=True),
                    Cl("lmax-at-least-the-deepest-level-present[dim %d]" % c, z3.ForAll([j], z3.Implies(rng, z3.Select(lm.arr, c) >= deepest_level(o, j))), prop=True)]
        return out


CONTRACTS += [UpdateValues()] + SD_STEPS + [PostprocessingBody(1), PostprocessingBody(2)]
ASSUMPTIONS += ["refinement_postprocessing: removal/sorting (apply_remove) and rebalancing are abstract steps that may leave ANY intervals / levels behind; raise_lmax: its effect on lmax is proved separately (RaiseLmax, 1-2 dimensions; the index-set fix-point loop is partial-correctness only)"]


# --------------------------------------------------------------------------- raise_lmax: the effect on lmax, whatever the index-set fix-point does
Vec_ = z3.ArraySort(I, I)


class _SchemeStep(Contract):
    trusted = True
    file = "sparseSpACE/combiScheme.py"

    def __init__(self, qualname, params, note, result=None):
        self.qualname, self._params, self.note, self._result = qualname, params, note, result

    def inputs(self, S):
        d = {"self": Obj("CombiScheme", {})}
        for p in self._params:
            d[p] = None
        return d

    def result(self, S, env):
        return self._result(S) if self._result else None


class RaiseLmax(Contract):
    """SpatiallyAdaptiveSingleDimensions2.raise_lmax (1-2 dimensions): lmax[d] grows by `value`, the other dimensions keep theirs, whatever the
    fix-point loop over the active level vectors does to the combination scheme (partial correctness: its termination is not verified)"""
    file, qualname = SD_FILE, "SpatiallyAdaptiveSingleDimensions2.raise_lmax"

    def __init__(self, ndim, d):
        self.ndim, self.d = ndim, d
        self.label = "SpatiallyAdaptiveSingleDimensions2.raise_lmax[dims=%d,d=%d]" % (ndim, d)

    def applies(self, receiver, args):
        return False          # callers use the caller-side form in SD_STEPS (same two clauses)

    def inputs(self, S):
        nd = self.ndim
        return {"self": Obj("SpatiallyAdaptiveSingleDimensions2", dict(dim=nd, lmax=Seq("list", [S.int("lmax%d" % i) for i in range(nd)]),
                                                                       lmin=Seq("list", [S.int("lmin%d" % i) for i in range(nd)]), dim_adaptive=S.bool("dim_adaptive"),
                                                                       combischeme=Obj("CombiScheme", {}), log_util=Obj("LogUtility", {}))),
                "d": self.d, "value": S.int("value")}

    @staticmethod
    def entry(lm, i):
        return V(lm.items[i]) if lm.concrete else z3.Select(lm.arr, i)

    def raised(self, S, env, old=None):
        old = old or S.ex.old
        lm, lm0 = env["self"].fields["lmax"], old["self"].fields["lmax"]
        return z3.And(V(lm.len()) == self.ndim, *[self.entry(lm, i) == self.entry(lm0, i) + (old["value"] if self.d == i else 0) for i in range(self.ndim)])

    def inv(self, S, env, g):
        return [("lmax-raised-once", self.raised(S, env))]

    @property
    def loops(self):
        return {0: Loop(inv=lambda S, env, g: self.inv(S, env, g)),
                1: Loop(inv=lambda S, env, g: self.inv(S, env, g), key_to_value=lambda S, x: Seq("tuple", [z3.Select(x, i) for i in range(self.ndim)]))}

    def post(self, S, old, env, result):
        return [Cl("lmax-of-the-dimension-raised-by-the-value-others-untouched", self.raised(S, env, old), prop=True)]

    def model_to_input(self, model):
        from pyvc import modelparse as mp
        g = lambda k, dflt: (mp.num(str(model.get(k))) if model.get(k) is not None else dflt)  # noqa
        return {"kind": "C06.raise_lmax", "ndim": self.ndim, "d": self.d, "lmax": [g("lmax%d" % i, 2) for i in range(self.ndim)], "value": g("value", 1),
                "dim_adaptive": str(model.get("dim_adaptive", "True")) == "True"}


CONTRACTS += [_SchemeStep("CombiScheme.get_active_indices", [], "the active level vectors of the scheme (C01 contract): some set", result=lambda S: S.set("active_indices", Vec_)),
              _SchemeStep("CombiScheme.update_adaptive_combi", ["levelvec"], "refines the scheme at one active level vector (C01 contract); does not touch the strategy object"),
              RaiseLmax(1, 0), RaiseLmax(2, 0), RaiseLmax(2, 1)]
