"""Sidecar contracts for C05: incremental accumulation of the combined result (new areas add, removed areas subtract).
numpy result vectors are treated component-wise as reals (all operations on them are vector-space operations)."""
import z3

from pyvc.book import Contract, Loop
from pyvc.engine import Cl
from pyvc.values import Seq, Obj, ObjSeq, Opaque
from pyvc import prelude as P
from pyvc import lemmas as L

I, R = z3.IntSort(), z3.RealSort()
GO = "sparseSpACE/GridOperation.py"
RC = "sparseSpACE/RefinementContainer.py"
INTEG = z3.Function("grid.integrate", P.U, P.U, P.U, R)      # the component quadrature of the grid (external to this proof)


def V(x):
    return z3.IntVal(x) if isinstance(x, int) else x


class GridIntegrate(Contract):
    file, qualname = "sparseSpACE/Grid.py", "Grid.integrate"
    trusted = True
    note = "component-grid quadrature (C08/C09 are about it); here an uninterpreted function of (levelvector, start, end)"

    def inputs(self, S):
        return {"self": Obj("TrapezoidalGrid", {}), "f": None, "levelvec": Opaque(S.const("levelvec", P.U)), "start": Opaque(S.const("start", P.U)), "end": Opaque(S.const("end", P.U))}

    def result(self, S, env):
        return INTEG(env["levelvec"].term, env["start"].term, env["end"].term)


class LevelToNumPoints(Contract):
    file, qualname = "sparseSpACE/Grid.py", "Grid.levelToNumPoints"
    trusted = True
    note = "points per dimension of a component grid (C08)"

    def inputs(self, S):
        return {"self": Obj("TrapezoidalGrid", {}), "levelvec": Opaque(S.const("levelvec", P.U))}

    def result(self, S, env):
        n = S.int("npd.len")
        S.assume(n >= 1)
        return S.seq("npd", n, I)


def integration(S):
    return Obj("Integration", dict(grid=Obj("TrapezoidalGrid", {}), f=None, integral=S.real("integral")))


class EvaluateArea(Contract):
    file, qualname = GO, "Integration.evaluate_area"

    def __init__(self, first):
        self.first = first     # True: area.value is None (first component grid of this area)
        self.label = "Integration.evaluate_area[%s]" % ("area.value None" if first else "area.value set")

    def inputs(self, S):
        area = Obj("RefinementObjectExtendSplit", dict(start=Opaque(S.const("area.start", P.U)), end=Opaque(S.const("area.end", P.U)),
                                                       value=None if self.first else S.real("area.value")))
        return {"self": integration(S), "area": area, "levelvector": Opaque(S.const("levelvector", P.U)),
                "componentgrid_info": Obj("ComponentGridInfo", dict(coefficient=S.real("coefficient"), levelvector=Opaque(S.const("cg.levelvector", P.U)))),
                "refinement_container": Obj("RefinementContainer", dict(value=S.real("container.value"))), "additional_info": None,
                "apply_to_combi_result": True}

    def post(self, S, old, env, result):
        q = INTEG(old["levelvector"].term, old["area"].fields["start"].term, old["area"].fields["end"].term)
        delta = old["componentgrid_info"].fields["coefficient"] * q
        a0 = z3.RealVal(0) if self.first else old["area"].fields["value"]
        return [Cl("area-accumulates-coefficient-times-component-integral", env["area"].fields["value"] == a0 + delta, prop=True),
                Cl("container-total-moves-with-the-area", env["refinement_container"].fields["value"] == old["refinement_container"].fields["value"] + delta, prop=True),
                Cl("combined-result-moves-with-the-area", env["self"].fields["integral"] == old["self"].fields["integral"] + delta, prop=True)]


class ProcessRemovedObjects(Contract):
    file, qualname = GO, "Integration.process_removed_objects"

    def inputs(self, S):
        n = S.int("n")
        S.assume(n >= 0)
        for ax in P.sum_axioms():
            S.assume(ax)
        return {"self": integration(S), "removed_objects": ObjSeq("RefinementObjectExtendSplit", n, dict(value=S.array("removed.value", I, R)))}

    def post(self, S, old, env, result):
        vals, n = old["removed_objects"].fields["value"], old["removed_objects"].length
        return [Cl("removed-areas-are-subtracted-exactly-once", env["self"].fields["integral"] == old["self"].fields["integral"] - P.SUMR(vals, 0, n), prop=True)]

    loops = {0: Loop(inv=lambda S, env, g: [
        ("subtracted-so-far", env["self"].fields["integral"] == S.ex.old["self"].fields["integral"] - P.SUMR(S.ex.old["removed_objects"].fields["value"], 0, g["k"])),
        ("objects-untouched", env["removed_objects"].fields["value"] == S.ex.old["removed_objects"].fields["value"])])}


def container(S):
    n = S.int("n")
    S.assume(n >= 0)
    objs = ObjSeq("RefinementObjectExtendSplit", n, dict(value=S.array("obj.value", I, R), evaluations=S.array("obj.evaluations", I, R)))
    return Obj("RefinementContainer", dict(refinementObjects=objs, value=S.real("value"), evaluationstotal=S.real("evaluationstotal")))


def sum_update_stmt(a, i, v, n):
    """Sum(a[i:=v],0,n) == Sum(a,0,n) - a[i] + v   for 0<=i<n   (lemma/sum-update, proved by induction)"""
    return z3.Implies(z3.And(i >= 0, i < n), P.SUMR(z3.Store(a, i, v), 0, n) == P.SUMR(a, 0, n) - z3.Select(a, i) + v)


def _sum_update_lemma():
    a = z3.Const("a", z3.ArraySort(I, R))
    i, n = z3.Ints("i n")
    v = z3.Real("v")
    ax = P.sum_axioms()
    claim = lambda m: z3.And(z3.Implies(z3.And(i >= 0, i < m), P.SUMR(z3.Store(a, i, v), 0, m) == P.SUMR(a, 0, m) - z3.Select(a, i) + v),  # noqa
                             z3.Implies(z3.And(i >= m, m >= 0), P.SUMR(z3.Store(a, i, v), 0, m) == P.SUMR(a, 0, m)))
    return [(ax, claim(z3.IntVal(0))), (ax + [n >= 0, claim(n)], claim(n + 1))]


class SetValue(Contract):
    """class invariant of the container: value == sum of the objects' values; set_value on an object whose value was reset to 0
    (area_preprocessing) keeps it"""
    file, qualname = RC, "RefinementContainer.set_value"
    inline = ("RefinementObject.set_value", "set_value")
    field, total = "value", "value"

    def inputs(self, S):
        for ax in P.sum_axioms():
            S.assume(ax)
        return {"self": container(S), "object_id": S.int("object_id"), self.argname(): S.real("new")}

    def argname(self):
        return "value"

    def pre(self, S, env):
        c = env["self"].fields
        o = c["refinementObjects"]
        i = env["object_id"]
        return [("index", z3.And(i >= 0, i < o.length)),
                ("total-is-sum-of-objects", c[self.total] == P.SUMR(o.fields[self.field], 0, o.length)),
                ("object-was-reset", z3.Select(o.fields[self.field], i) == 0)]

    def post(self, S, old, env, result):
        c, co = env["self"].fields, old["self"].fields
        o, oo = c["refinementObjects"], co["refinementObjects"]
        i, v = old["object_id"], old[self.argname()]
        return [Cl("object-gets-the-value", o.fields[self.field] == z3.Store(oo.fields[self.field], i, v)),
                Cl("total-stays-the-sum-of-the-objects", c[self.total] == P.SUMR(o.fields[self.field], 0, o.length), prop=True,
                   by=[("sum-update", sum_update_stmt(oo.fields[self.field], i, v, oo.length))])]


class SetEvaluations(SetValue):
    qualname = "RefinementContainer.set_evaluations"
    inline = ("RefinementObject.set_evaluations", "set_evaluations")
    field, total = "evaluations", "evaluationstotal"

    def argname(self):
        return "evaluations"


CONTRACTS = [GridIntegrate(), LevelToNumPoints(), EvaluateArea(True), EvaluateArea(False), ProcessRemovedObjects(), SetValue(), SetEvaluations()]
LEMMAS = [L.SmtLemma("sum-update", _sum_update_lemma, note="induction on the upper bound: base + step")]
ASSUMPTIONS = ["numpy result vectors treated component-wise as reals (only vector-space operations are applied to them)",
               "grid.integrate is an uninterpreted function of (levelvector, start, end)",
               "the whole evaluate_operation / compute_solutions / apply_remove pipeline and the re-entry of continue_adaptive_refinement: layer B"]
