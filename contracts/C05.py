"""Sidecar contracts for C05: incremental accumulation of the combined result (new areas add, removed areas subtract).
numpy result vectors are treated component-wise as reals (all operations on them are vector-space operations)."""
import z3

from pyvc.book import Contract, Loop
from pyvc.engine import Cl
from pyvc.values import Seq, Obj, ObjSeq, Opaque
from pyvc import prelude as P
from pyvc import lemmas as L

I, R = z3.IntSort(), z3.RealSort()
GO = "sparseSpACE/GridOperation.py"
RC = "sparseSpACE/RefinementContainer.py"
INTEG = z3.Function("grid.integrate", P.U, P.U, P.U, R)      # the component quadrature of the grid (external to this proof)


def V(x):
    return z3.IntVal(x) if isinstance(x, int) else x


class GridIntegrate(Contract):
    file, qualname = "sparseSpACE/Grid.py", "Grid.integrate"
    trusted = True
    note = "component-grid quadrature (C08/C09 are about it); here an uninterpreted function of (levelvector, start, end)"

    def inputs(self, S):
        return {"self": Obj("TrapezoidalGrid", {}), "f": None, "levelvec": Opaque(S.const("levelvec", P.U)), "start": Opaque(S.const("start", P.U)), "end": Opaque(S.const("end", P.U))}

    def result(self, S, env):
        return INTEG(env["levelvec"].term, env["start"].term, env["end"].term)


class LevelToNumPoints(Contract):
    file, qualname = "sparseSpACE/Grid.py", "Grid.levelToNumPoints"
    trusted = True
    note = "points per dimension of a component grid (C08)"

    def inputs(self, S):
        return {"self": Obj("TrapezoidalGrid", {}), "levelvec": Opaque(S.const("levelvec", P.U))}

    def result(self, S, env):
        n = S.int("npd.len")
        S.assume(n >= 1)
        return S.seq("npd", n, I)


def integration(S):
    return Obj("Integration", dict(grid=Obj("TrapezoidalGrid", {}), f=None, integral=S.real("integral")))


class EvaluateArea(Contract):
    file, qualname = GO, "Integration.evaluate_area"

    def __init__(self, first):
        self.first = first     # True: area.value is None (first component grid of this area)
        self.label = "Integration.evaluate_area[%s]" % ("area.value None" if first else "area.value set")

    def inputs(self, S):
        area = Obj("RefinementObjectExtendSplit", dict(start=Opaque(S.const("area.start", P.U)), end=Opaque(S.const("area.end", P.U)),
                                                       value=None if self.first else S.real("area.value")))
        return {"self": integration(S), "area": area, "levelvector": Opaque(S.const("levelvector", P.U)),
                "componentgrid_info": Obj("ComponentGridInfo", dict(coefficient=S.real("coefficient"), levelvector=Opaque(S.const("cg.levelvector", P.U)))),
                "refinement_container": Obj("RefinementContainer", dict(value=S.real("container.value"))), "additional_info": None,
                "apply_to_combi_result": True}

    def post(self, S, old, env, result):
        q = INTEG(old["levelvector"].term, old["area"].fields["start"].term, old["area"].fields["end"].term)
        delta = old["componentgrid_info"].fields["coefficient"] * q
        a0 = z3.RealVal(0) if self.first else old["area"].fields["value"]
        return [Cl("area-accumulates-coefficient-times-component-integral", env["area"].fields["value"] == a0 + delta, prop=True),
                Cl("container-total-moves-with-the-area", env["refinement_container"].fields["value"] == old["refinement_container"].fields["value"] + delta, prop=True),
                Cl("combined-result-moves-with-the-area", env["self"].fields["integral"] == old["self"].fields["integral"] + delta, prop=True)]


class ProcessRemovedObjects(Contract):
    file, qualname = GO, "Integration.process_removed_objects"

    def inputs(self, S):
        n = S.int("n")
        S.assume(n >= 0)
        for ax in P.sum_axioms():
            S.assume(ax)
        return {"self": integration(S), "removed_objects": ObjSeq("RefinementObjectExtendSplit", n, dict(value=S.array("removed.value", I, R)))}

    def post(self, S, old, env, result):
        vals, n = old["removed_objects"].fields["value"], old["removed_objects"].length
        return [Cl("removed-areas-are-subtracted-exactly-once", env["self"].fields["integral"] == old["self"].fields["integral"] - P.SUMR(vals, 0, n), prop=True)]

    loops = {0: Loop(inv=lambda S, env, g: [
        ("subtracted-so-far", env["self"].fields["integral"] == S.ex.old["self"].fields["integral"] - P.SUMR(S.ex.old["removed_objects"].fields["value"], 0, g["k"])),
        ("objects-untouched", env["removed_objects"].fields["value"] == S.ex.old["removed_objects"].fields["value"])])}


def container(S):
    n = S.int("n")
    S.assume(n >= 0)
    objs = ObjSeq("RefinementObjectExtendSplit", n, dict(value=S.array("obj.value", I, R), evaluations=S.array("obj.evaluations", I, R)))
    return Obj("RefinementContainer", dict(refinementObjects=objs, value=S.real("value"), evaluationstotal=S.real("evaluationstotal")))


def sum_update_stmt(a, i, v, n):
    """Sum(a[i:=v],0,n) == Sum(a,0,n) - a[i] + v   for 0<=i<n   (lemma/sum-update, proved by induction)"""
    return z3.Implies(z3.And(i >= 0, i < n), P.SUMR(z3.Store(a, i, v), 0, n) == P.SUMR(a, 0, n) - z3.Select(a, i) + v)


def _sum_update_lemma():
    a = z3.Const("a", z3.ArraySort(I, R))
    i, n = z3.Ints("i n")
    v = z3.Real("v")
    ax = P.sum_axioms()
    claim = lambda m: z3.And(z3.Implies(z3.And(i >= 0, i < m), P.SUMR(z3.Store(a, i, v), 0, m) == P.SUMR(a, 0, m) - z3.Select(a, i) + v),  # noqa
                             z3.Implies(z3.And(i >= m, m >= 0), P.SUMR(z3.Store(a, i, v), 0, m) == P.SUMR(a, 0, m)))
    return [(ax, claim(z3.IntVal(0))), (ax + [n >= 0, claim(n)], claim(n + 1))]


class SetValue(Contract):
    """class invariant of the container: value == sum of the objects' values; set_value on an object whose value was reset to 0
    (area_preprocessing) keeps it"""
    file, qualname = RC, "RefinementContainer.set_value"
    inline = ("RefinementObject.set_value", "set_value")
    field, total = "value", "value"

    def inputs(self, S):
        for ax in P.sum_axioms():
            S.assume(ax)
        return {"self": container(S), "object_id": S.int("object_id"), self.argname(): S.real("new")}

    def argname(self):
        return "value"

    def pre(self, S, env):
        c = env["self"].fields
        o = c["refinementObjects"]
        i = env["object_id"]
        return [("index", z3.And(i >= 0, i < o.length)),
                ("total-is-sum-of-objects", c[self.total] == P.SUMR(o.fields[self.field], 0, o.length)),
                ("object-was-reset", z3.Select(o.fields[self.field], i) == 0)]

    def post(self, S, old, env, result):
        c, co = env["self"].fields, old["self"].fields
        o, oo = c["refinementObjects"], co["refinementObjects"]
        i, v = old["object_id"], old[self.argname()]
        return [Cl("object-gets-the-value", o.fields[self.field] == z3.Store(oo.fields[self.field], i, v)),
                Cl("total-stays-the-sum-of-the-objects", c[self.total] == P.SUMR(o.fields[self.field], 0, o.length), prop=True,
                   by=[("sum-update", sum_update_stmt(oo.fields[self.field], i, v, oo.length))])]


class SetEvaluations(SetValue):
    qualname = "RefinementContainer.set_evaluations"
    inline = ("RefinementObject.set_evaluations", "set_evaluations")
    field, total = "evaluations", "evaluationstotal"

    def argname(self):
        return "evaluations"


CONTRACTS = [GridIntegrate(), LevelToNumPoints(), EvaluateArea(True), EvaluateArea(False), ProcessRemovedObjects(), SetValue(), SetEvaluations()]
LEMMAS = [L.SmtLemma("sum-update", _sum_update_lemma, note="induction on the upper bound: base + step")]
ASSUMPTIONS = ["numpy result vectors treated component-wise as reals (only vector-space operations are applied to them)",
               "grid.integrate is an uninterpreted function of (levelvector, start, end)",
               "apply_remove, the per-strategy evaluation hooks around compute_solutions and the re-entry of continue_adaptive_refinement: layer B"]


# --------------------------------------------------------------------------- the accumulation pass: SpatiallyAdaptivBase.compute_solutions
BASE = "sparseSpACE/spatiallyAdaptiveBase.py"
LVF = z3.Function("coarsened_level", P.U, I, P.U)        # coarsen_grid's level vector for (component grid level vector, area number)
DOF = z3.Function("computed", P.U, I, z3.BoolSort())     # coarsen_grid's decision whether the grid is computed for the area
T1 = z3.Function("AreaPrefixSum", I, I, R)               # T1(g,k): contribution of component grid g to the first k areas
T2 = z3.Function("GridPrefixSum", I, R)                  # T2(g): contribution of the first g component grids to all areas
COL = z3.Function("AreaColumnSum", I, I, R)              # COL(g,k): contribution of the first g component grids to area k


def strategy(S):
    ng, na = S.int("n_grids"), S.int("n_areas")
    S.assume(ng >= 0)
    S.assume(na >= 0)
    scheme = ObjSeq("ComponentGridInfo", ng, dict(levelvector=S.array("scheme.levelvector", I, P.U), coefficient=S.array("scheme.coefficient", I, R)))
    areas = ObjSeq("RefinementObjectExtendSplit", na, dict(start=S.array("area.start", I, P.U), end=S.array("area.end", I, P.U), value=S.array("area.value", I, R)))
    op = Obj("Integration", dict(grid=Obj("TrapezoidalGrid", {}), f=None, integral=S.real("integral")))
    cont = Obj("RefinementContainer", dict(value=S.real("container.value")))
    s = Obj("SpatiallyAdaptiveExtendScheme", dict(scheme=scheme, operation=op, refinement=cont, grid=Obj("TrapezoidalGrid", {})))
    return s, areas


def q(scheme0, areas0, g, k):
    """coefficient * component quadrature of grid g on area k (0 when coarsen_grid decides not to compute it)"""
    lv = z3.Select(scheme0.fields["levelvector"], g)
    c = z3.Select(scheme0.fields["coefficient"], g)
    integ = INTEG(LVF(lv, k), z3.Select(areas0.fields["start"], k), z3.Select(areas0.fields["end"], k))
    return z3.If(DOF(lv, k), c * integ, z3.RealVal(0))


def sum_defs(scheme0, areas0, na):
    g, k = z3.Ints("dg dk")
    return [z3.ForAll([g], T1(g, 0) == 0, patterns=[T1(g, 0)]),
            z3.ForAll([g, k], z3.Implies(k >= 0, T1(g, k + 1) == T1(g, k) + q(scheme0, areas0, g, k)), patterns=[T1(g, k + 1)]),
            T2(0) == 0,
            z3.ForAll([g], z3.Implies(g >= 0, T2(g + 1) == T2(g) + T1(g, na)), patterns=[T2(g + 1)]),
            z3.ForAll([k], COL(0, k) == 0, patterns=[COL(0, k)]),
            z3.ForAll([g, k], z3.Implies(g >= 0, COL(g + 1, k) == COL(g, k) + q(scheme0, areas0, g, k)), patterns=[COL(g + 1, k)])]


class CoarsenGrid(Contract):
    file, qualname = "sparseSpACE/spatiallyAdaptiveExtendSplit.py", "SpatiallyAdaptiveExtendScheme.coarsen_grid"
    trusted = True
    note = ("abstract: returns (level vector, computed?) as a fixed function of (component-grid level vector, area number) during one accumulation pass "
            "(each pair is visited once; C01 gives distinct level vectors; the local validity of the selection is C07)")

    def inputs(self, S):
        s, areas = strategy(S)
        return {"self": s, "levelvector": Opaque(S.const("lv", P.U)), "area": Obj("RefinementObjectExtendSplit", {})}

    def result(self, S, env):
        area = env["area"]
        k = area.origin[1]
        lv = env["levelvector"]
        lv = lv.term if isinstance(lv, Opaque) else lv
        return Seq("tuple", [Opaque(LVF(lv, k)), DOF(lv, k)])


class EvaluateAreaForCallers(EvaluateArea):
    """caller-side form of Integration.evaluate_area for an area that is an element of the list of areas (proved as EvaluateArea[area.value set])"""
    trusted = True
    note = "proved separately (contract EvaluateArea); caller-side form with the frame on the area element, the container and the operation"
    modifies = ("integral",)

    def __init__(self):
        EvaluateArea.__init__(self, False)
        self.label = "Integration.evaluate_area[caller side]"

    def applies(self, receiver, args):
        return bool(args) and hasattr(args[0], "origin")

    def havoc(self, S, cenv, tag):
        from pyvc.engine import set_field
        set_field(cenv["area"], "value", S.real(tag + ".area.value"))
        cenv["refinement_container"].fields["value"] = S.real(tag + ".container.value")

    def result(self, S, env):
        return S.int("evaluations")

    def post(self, S, old, env, result):
        lv = old["levelvector"]
        lv = lv.term if isinstance(lv, Opaque) else lv
        qv = INTEG(lv, old["area"].fields["start"], old["area"].fields["end"])
        delta = old["componentgrid_info"].fields["coefficient"] * qv
        return [("area", env["area"].fields["value"] == old["area"].fields["value"] + delta),
                ("container", env["refinement_container"].fields["value"] == old["refinement_container"].fields["value"] + delta),
                ("result", env["self"].fields["integral"] == old["self"].fields["integral"] + delta)]


for _c in CONTRACTS:
    if isinstance(_c, EvaluateArea) and not isinstance(_c, EvaluateAreaForCallers):
        _c.applies = lambda receiver, args: not (bool(args) and hasattr(args[0], "origin"))


class TrueQuery(Contract):
    trusted = True

    def __init__(self, file, qualname, note, proved=False):
        self.file, self.qualname, self.note = file, qualname, note
        if proved:
            self.trusted = False          # constant queries: their body is verified (returns the literal True)

    def post(self, S, old, env, result):
        return [Cl("returns-true", result is True)] if not self.trusted else []

    def inputs(self, S):
        return {"self": Obj("X", {})}

    def result(self, S, env):
        return True


class ComputeSolutions(Contract):
    file, qualname = BASE, "SpatiallyAdaptivBase.compute_solutions"
    label = "SpatiallyAdaptivBase.compute_solutions[extend-split receiver]"
    inline = ("SpatiallyAdaptivBase.evaluate_operation_area", "evaluate_operation_area")

    def inputs(self, S):
        s, areas = strategy(S)
        na = areas.length
        for ax in sum_defs(s.fields["scheme"], areas, na):
            S.assume(ax, "def:sums")
        return {"self": s, "areas": areas, "evaluation_array": S.seq("evaluation_array", na, R, kind="array")}

    def outer(self, S, env, g):
        old = S.ex.old
        s, so = env["self"].fields, old["self"].fields
        gi = g["k"]
        k = z3.Int("ok")
        na = old["areas"].length
        return [("result-accumulated-over-the-processed-grids", s["operation"].fields["integral"] == so["operation"].fields["integral"] + T2(gi)),
                ("container-total-accumulated", s["refinement"].fields["value"] == so["refinement"].fields["value"] + T2(gi)),
                ("area-values-accumulated", z3.ForAll([k], z3.Implies(z3.And(k >= 0, k < na), z3.Select(env["areas"].fields["value"], k) ==
                                                                      z3.Select(old["areas"].fields["value"], k) + COL(gi, k)), patterns=[z3.Select(env["areas"].fields["value"], k)])),
                ("inputs-untouched", z3.And(env["areas"].fields["start"] == old["areas"].fields["start"], env["areas"].fields["end"] == old["areas"].fields["end"],
                                            s["scheme"].fields["levelvector"] == so["scheme"].fields["levelvector"], s["scheme"].fields["coefficient"] == so["scheme"].fields["coefficient"],
                                            V(env["evaluation_array"].len()) == na))]

    def inner(self, S, env, g):
        old = S.ex.old
        s, so = env["self"].fields, old["self"].fields
        # the outer loop's element (whatever the local is called): the view of the scheme's object list that is in scope
        gi = next(v.origin[1] for v in env.values() if isinstance(v, Obj) and hasattr(v, "origin") and v.origin[0] is env["self"].fields["scheme"])
        ki = g["k"]
        k = z3.Int("ik")
        na = old["areas"].length
        return [("grid-index", z3.And(gi >= 0, gi < so["scheme"].length)),
                ("result-accumulated", s["operation"].fields["integral"] == so["operation"].fields["integral"] + T2(gi) + T1(gi, ki)),
                ("container-total-accumulated", s["refinement"].fields["value"] == so["refinement"].fields["value"] + T2(gi) + T1(gi, ki)),
                ("area-values-accumulated", z3.ForAll([k], z3.Implies(z3.And(k >= 0, k < na), z3.Select(env["areas"].fields["value"], k) ==
                                                                      z3.Select(old["areas"].fields["value"], k) + COL(gi, k) + z3.If(k < ki, q(so["scheme"], old["areas"], gi, k), 0)),
                                                      patterns=[z3.Select(env["areas"].fields["value"], k)])),
                ("inputs-untouched", z3.And(env["areas"].fields["start"] == old["areas"].fields["start"], env["areas"].fields["end"] == old["areas"].fields["end"],
                                            s["scheme"].fields["levelvector"] == so["scheme"].fields["levelvector"], s["scheme"].fields["coefficient"] == so["scheme"].fields["coefficient"],
                                            V(env["evaluation_array"].len()) == na))]

    @property
    def loops(self):
        return {0: Loop(inv=lambda S, env, g: self.outer(S, env, g), element_fields_written=()),
                1: Loop(inv=lambda S, env, g: self.inner(S, env, g), element_fields_written=("value",))}

    def post(self, S, old, env, result):
        s, so = env["self"].fields, old["self"].fields
        G = so["scheme"].length
        na = old["areas"].length
        k = z3.Int("pk")
        return [Cl("combined-result-is-the-sum-over-component-grids-and-areas-of-coefficient-times-component-result",
                   s["operation"].fields["integral"] == so["operation"].fields["integral"] + T2(G), prop=True),
                Cl("container-total-moves-by-the-same-sum", s["refinement"].fields["value"] == so["refinement"].fields["value"] + T2(G), prop=True),
                Cl("every-area-holds-its-column-of-the-sum", z3.ForAll([k], z3.Implies(z3.And(k >= 0, k < na), z3.Select(env["areas"].fields["value"], k) ==
                                                                                    z3.Select(old["areas"].fields["value"], k) + COL(G, k))), prop=True)]


CONTRACTS += [CoarsenGrid(), EvaluateAreaForCallers(),
              TrueQuery("sparseSpACE/GridOperation.py", "AreaOperation.is_area_operation", "Integration is an area operation (returns True)", proved=True),
              TrueQuery("sparseSpACE/GridOperation.py", "Integration.count_unique_points", "returns True", proved=True),
              TrueQuery("sparseSpACE/Grid.py", "Grid.isNested", "trapezoidal grids are nested (returns True)"),
              ComputeSolutions()]
ASSUMPTIONS += ["compute_solutions is verified with the extend-split receiver and Integration; coarsen_grid is abstract (fixed function of (grid, area) per pass)"]


# --------------------------------------------------------------------------- per-iteration reset of the dimension-wise strategy
class FOutputLength(Contract):
    file, qualname = "sparseSpACE/Function.py", "Function.output_length"
    trusted = True
    note = "declared output length of the integrand (an Int >= 1)"

    def inputs(self, S):
        return {"self": Obj("Function", {})}

    def result(self, S, env):
        n = S.int("output_length")
        S.assume(n >= 1)
        return n


class InitEvalDimWise(Contract):
    """get_result() hands out the operation's result array itself; results reported at earlier stops therefore stay truthful only if the
    per-iteration reset binds a NEW array instead of overwriting the old one in place"""
    file, qualname = GO, "Integration.initialize_evaluation_dimension_wise"

    @staticmethod
    def model_to_input(model):
        return {"kind": "C05.report_stability"}

    def inputs(self, S):
        n = S.int("n_out")
        S.assume(n >= 1)
        op = Obj("Integration", dict(f=Obj("Function", {}), integral=S.seq("integral", n, R, kind="array")))
        cont = Obj("MetaRefinementContainer", dict(value=S.seq("container.value", n, R, kind="array")))
        return {"self": op, "refinement_container": cont}

    def post(self, S, old, env, result):
        new_i, new_v = env["self"].fields["integral"], env["refinement_container"].fields["value"]
        old_i_box, old_v_box = S.ex.entry_boxes["integral"], S.ex.entry_boxes["value"]
        j = z3.Int("zj")
        ok = isinstance(new_i, Seq) and isinstance(new_v, Seq)
        if not ok:
            return [Cl("arrays", False, prop=True)]
        ni, nv = new_i.to_symbolic(), new_v.to_symbolic()
        return [Cl("result-reset-to-zero", z3.ForAll([j], z3.Implies(z3.And(j >= 0, j < V(ni.len())), z3.Select(ni.arr, j) == 0)), prop=True),
                Cl("container-total-reset-to-zero", z3.ForAll([j], z3.Implies(z3.And(j >= 0, j < V(nv.len())), z3.Select(nv.arr, j) == 0)), prop=True),
                Cl("previously-reported-result-array-is-not-overwritten", (new_i is not old_i_box) and bool(z3.is_true(z3.simplify(old_i_box.to_symbolic().arr == old["self"].fields["integral"].arr))), prop=True),
                Cl("previously-reported-container-total-is-not-overwritten", (new_v is not old_v_box) and bool(z3.is_true(z3.simplify(old_v_box.to_symbolic().arr == old["refinement_container"].fields["value"].arr))), prop=True)]


CONTRACTS += [FOutputLength(), InitEvalDimWise()]


# --------------------------------------------------------------------------- dimension-wise and standard strategies: one component grid at a time
INTEG_G = z3.Function("global_grid.integrate", P.U, P.U, P.U, P.U, P.U, R)   # quadrature of a GLOBAL grid: depends on the 1-D point sets it was set to


class GlobalSetGrid(Contract):
    file, qualname = "sparseSpACE/Grid.py", "GlobalGrid.set_grid"
    trusted = True
    note = "adopts the given 1-D point sets and levels (C09 is about the weights computed here); the grid object remembers them"

    def inputs(self, S):
        return {"self": Obj("GlobalTrapezoidalGrid", {}), "grid_points": Opaque(S.const("grid_points", P.U)), "grid_levels": Opaque(S.const("grid_levels", P.U))}

    def havoc(self, S, cenv, tag):
        cenv["self"].fields["points"] = cenv["grid_points"]
        cenv["self"].fields["levels"] = cenv["grid_levels"]


class GlobalIntegrate(Contract):
    file, qualname = "sparseSpACE/Grid.py", "Grid.integrate"
    trusted = True
    note = "quadrature of the global grid on its CURRENT point sets (C09); an uninterpreted function of (points, levels, levelvector, start, end)"

    def applies(self, receiver, args):
        return receiver.cls == "GlobalTrapezoidalGrid"

    def inputs(self, S):
        return {"self": Obj("GlobalTrapezoidalGrid", {}), "f": None, "levelvec": Opaque(S.const("levelvec", P.U)), "start": Opaque(S.const("start", P.U)), "end": Opaque(S.const("end", P.U))}

    def result(self, S, env):
        g = env["self"].fields
        return INTEG_G(g["points"].term, g["levels"].term, env["levelvec"].term, env["start"].term, env["end"].term)


for _c in CONTRACTS:
    if isinstance(_c, GridIntegrate):
        _c.applies = lambda receiver, args: receiver.cls != "GlobalTrapezoidalGrid"


def dimwise_integration(S):
    ggrid = lambda nm: Obj("GlobalTrapezoidalGrid", dict(points=Opaque(S.const(nm + ".points", P.U)), levels=Opaque(S.const(nm + ".levels", P.U))))  # noqa
    return Obj("Integration", dict(grid=ggrid("grid"), grid_surplusses=ggrid("grid_surplusses"), f=None, integral=S.real("integral"), a=Opaque(S.const("a", P.U)), b=Opaque(S.const("b", P.U)),
                                   refinement_container=Obj("MetaRefinementContainer", dict(value=S.real("container.value"))), dim=S.int("dim")))


def component_grid(S):
    return Obj("ComponentGridInfo", dict(coefficient=S.real("coefficient"), levelvector=Opaque(S.const("cg.levelvector", P.U))))


class CalcOperationDimWise(Contract):
    """dimension-wise strategy: one component grid is evaluated on the 1-D point sets handed in; the combined result and the container total move by
    coefficient * (quadrature of the grid set to exactly those point sets over the whole domain)"""
    file, qualname = GO, "Integration.calculate_operation_dimension_wise"

    def inputs(self, S):
        return {"self": dimwise_integration(S), "gridPointCoordsAsStripes": Opaque(S.const("stripes", P.U)), "grid_point_levels": Opaque(S.const("point_levels", P.U)),
                "component_grid": component_grid(S)}

    def post(self, S, old, env, result):
        s, so = env["self"].fields, old["self"].fields
        q = INTEG_G(old["gridPointCoordsAsStripes"].term, old["grid_point_levels"].term, old["component_grid"].fields["levelvector"].term, so["a"].term, so["b"].term)
        delta = old["component_grid"].fields["coefficient"] * q
        return [Cl("combined-result-moves-by-coefficient-times-the-component-result-on-the-given-point-sets", s["integral"] == so["integral"] + delta, prop=True),
                Cl("container-total-moves-by-the-same-amount", s["refinement_container"].fields["value"] == so["refinement_container"].fields["value"] + delta, prop=True)]

    @staticmethod
    def model_to_input(model):
        return {"kind": "C05.dimwise_component"}


class EvaluateLevelvec(Contract):
    """standard combination: the component grid is integrated over the whole domain and added with its coefficient"""
    file, qualname = GO, "Integration.evaluate_levelvec"

    def inputs(self, S):
        grid = Obj("TrapezoidalGrid", dict(a=Opaque(S.const("grid.a", P.U)), b=Opaque(S.const("grid.b", P.U))))
        return {"self": Obj("Integration", dict(grid=grid, f=None, integral=S.real("integral"))), "component_grid": component_grid(S)}

    def post(self, S, old, env, result):
        g = old["self"].fields["grid"].fields
        q = INTEG(old["component_grid"].fields["levelvector"].term, g["a"].term, g["b"].term)
        return [Cl("combined-result-moves-by-coefficient-times-the-component-integral-over-the-whole-domain",
                   env["self"].fields["integral"] == old["self"].fields["integral"] + old["component_grid"].fields["coefficient"] * q, prop=True)]

    @staticmethod
    def model_to_input(model):
        return {"kind": "C05.standard_component"}


CONTRACTS += [GlobalSetGrid(), GlobalIntegrate(), CalcOperationDimWise(), EvaluateLevelvec()]
ASSUMPTIONS += ["Integration.calculate_operation_dimension_wise / evaluate_levelvec: the component quadrature is an uninterpreted function of the grid's current point sets, the level vector and the box"]


# --------------------------------------------------------------------------- the publicly exposed combined rule (standard and dimension-wise strategies)
class PointsWeightsComponent(Contract):
    file, qualname = "sparseSpACE/StandardCombi.py", "StandardCombi.get_points_and_weights_component_grid"
    trusted = True
    note = "points and weights of ONE component grid in its current state (C08/C09; overridden by the dimension-wise strategy): some list of points and equally many weights"

    def inputs(self, S):
        return {"self": Obj("StandardCombi", {}), "levelvec": Opaque(S.const("levelvec", P.U))}

    def result(self, S, env):
        k = len(S.ex.ghost.setdefault("rules", []))
        n = S.int("rule%d.len" % k)
        S.assume(n >= 0)
        pts, ws = S.seq("rule%d.points" % k, n, P.U, kind="list"), S.seq("rule%d.weights" % k, n, R, kind="list")
        S.ex.ghost["rules"].append((env["levelvec"], pts, ws))
        return Seq("tuple", [pts, ws])


class CombinedRule(Contract):
    """StandardCombi.get_points_and_weights (schemes of 1-3 component grids, any number of points per grid): the returned rule is, in scheme order, every
    component grid's CURRENT points with its weights multiplied by the grid's coefficient -- so that sum w f(p) is the coefficient-weighted sum of the component
    quadratures; every component rule is requested exactly once, for that grid's level vector, in this call"""
    file, qualname = "sparseSpACE/StandardCombi.py", "StandardCombi.get_points_and_weights"

    def __init__(self, n):
        self.n = n
        self.label = "StandardCombi.get_points_and_weights[%d component grid%s]" % (n, "" if n == 1 else "s")

    def inputs(self, S):
        grids = [Obj("ComponentGridInfo", dict(levelvector=Opaque(S.const("lv%d" % k, P.U)), coefficient=S.real("coeff%d" % k))) for k in range(self.n)]
        return {"self": Obj("StandardCombi", dict(scheme=Seq("list", grids)))}

    def post(self, S, old, env, result):
        rules = S.ex.ghost.get("rules", [])
        ok = isinstance(result, Seq) and result.concrete and len(result.items) == 2 and all(isinstance(x, Seq) for x in result.items)
        if not ok or len(rules) != self.n:
            return [Cl("returns-the-rule-assembled-from-one-request-per-component-grid", False, prop=True)]
        tp, tw = [x.to_symbolic() for x in result.items]
        grids = old["self"].fields["scheme"].items
        out = [Cl("returns-the-rule-assembled-from-one-request-per-component-grid", True, prop=True),
               Cl("each-component-rule-is-requested-for-its-own-level-vector", z3.And(*[rules[k][0].term == grids[k].fields["levelvector"].term for k in range(self.n)]), prop=True)]
        off = z3.IntVal(0)
        i = z3.Int("cri")
        for k in range(self.n):
            _, pts, ws = rules[k]
            nk = V(pts.len())
            out.append(Cl("component-%d-points-in-place-weights-scaled-by-its-coefficient" % k,
                          z3.ForAll([i], z3.Implies(z3.And(i >= 0, i < nk), z3.And(z3.Select(tp.arr, off + i) == z3.Select(pts.arr, i),
                                                                                  z3.Select(tw.arr, off + i) == z3.Select(ws.arr, i) * grids[k].fields["coefficient"]))), prop=True))
            off = off + nk
        out.append(Cl("nothing-else-in-the-rule", z3.And(V(tp.len()) == off, V(tw.len()) == off), prop=True))
        return out

    @staticmethod
    def model_to_input(model):
        return {"kind": "C05.dimwise_component"}


CONTRACTS += [PointsWeightsComponent(), CombinedRule(1), CombinedRule(2), CombinedRule(3)]
