"""Sidecar contracts for C08 / C02: the 1-D trapezoidal grid (sparseSpACE/Grid.py: Grid1d, TrapezoidalGrid1D)."""
import z3

from pyvc.book import Contract, Loop
from pyvc import lemmas as L
from pyvc import prelude as P
from pyvc.engine import Cl
from pyvc.values import Seq, Obj
from pyvc import prelude
from fractions import Fraction

FILE = "sparseSpACE/Grid.py"
I, R = z3.IntSort(), z3.RealSort()
POW2 = prelude.POW2


def isclose(x, y):
    """math.isclose(x, y) with default tolerances, exactly as the prelude models it"""
    d = z3.If(x - y >= 0, x - y, y - x)
    ax = z3.If(x >= 0, x, -x)
    ay = z3.If(y >= 0, y, -y)
    m = z3.If(ax >= ay, ax, ay)
    return d <= z3.RealVal("1/1000000000") * m


def pow2_axioms():
    j = z3.Int("p2j")
    return [POW2(0) == 1, z3.ForAll([j], z3.Implies(j >= 0, z3.And(POW2(j + 1) == 2 * POW2(j), POW2(j) >= 1)), patterns=[POW2(j)])]


def grid1d(S, after_set_area=False):
    a, b = S.real("a"), S.real("b")
    S.assume(a < b)
    f = dict(a=a, b=b, boundary=S.bool("boundary"), modified_basis=False, start=S.real("start"), end=S.real("end"))
    S.assume(z3.And(a <= f["start"], f["start"] < f["end"], f["end"] <= b))
    if after_set_area:
        f.update(level=S.int("level"), num_points=S.int("num_points"), num_points_with_boundary=S.int("nwb"),
                 lowerBorder=S.int("lowerBorder"), upperBorder=S.int("upperBorder"), spacing=S.real("spacing"), length=S.real("length"))
    return Obj("TrapezoidalGrid1D", f)


def announced(s, level):
    """number of points announced for `level` on the current area: 2^level+1, minus the points on the global boundary when
    boundary points are off.  A border point is identified the same way everywhere (isclose) -- C08: 'returns as many points as
    it announces'."""
    f = s.fields
    on_a = z3.If(isclose(f["start"], f["a"]), 1, 0)
    on_b = z3.If(isclose(f["end"], f["b"]), 1, 0)
    return POW2(level) + 1 - z3.If(f["boundary"], 0, on_a + on_b)


class LevelToNumPoints(Contract):
    file, qualname = FILE, "TrapezoidalGrid1D.level_to_num_points_1d"

    def inputs(self, S):
        lv = S.int("level")
        return {"self": grid1d(S), "level": lv}

    def pre(self, S, env):
        return [("level-nonneg", env["level"] >= 0)]

    def result(self, S, env):
        return S.int("npts")

    def post(self, S, old, env, result):
        s = env["self"]
        return [Cl("announced-count", result == announced(s, old["level"]), prop=True),   # C08: the announced count is what set_current_area returns
                Cl("count-nonneg", result >= 0),
                Cl("at-least-two-with-boundary", z3.Implies(s.fields["boundary"], result >= 2)),
                Cl("frame", z3.And(*[s.fields[k] == old["self"].fields[k] for k in ("a", "b", "start", "end", "boundary")]))]

    @staticmethod
    def model_to_input(model):
        from pyvc import modelparse as mp
        g = lambda k, d=0: mp.tofloat(mp.num(model.get(k, str(d))))  # noqa
        return {"kind": "C08.trapezoid1d", "a": g("a"), "b": g("b"), "start": g("start"), "end": g("end"),
                "boundary": model.get("boundary", "False") == "True", "level": g("level", 1)}


class GetPointsAndWeights(Contract):
    """TrapezoidalGrid1D.get_1d_points_and_weights / get_1D_level_points / get_1D_level_weights (helpers inlined from the real source)"""
    file, qualname = FILE, "TrapezoidalGrid1D.get_1d_points_and_weights"
    inline = ("TrapezoidalGrid1D.get_1D_level_points", "Grid1d.get_1D_level_weights", "get_1D_level_points", "get_1D_level_weights")

    def inputs(self, S):
        return {"self": grid1d(S, after_set_area=True)}

    @staticmethod
    def state(s):
        f = s.fields
        nwb, npts, lo, up = f["num_points_with_boundary"], f["num_points"], f["lowerBorder"], f["upperBorder"]
        if f.get("spacing") is None:
            return [("spacing-defined", False)]
        return [("nwb", nwb >= 2), ("borders", z3.And(0 <= lo, lo <= up, up <= nwb)), ("npts", npts >= 0),
                ("spacing", f["spacing"] * z3.ToReal(nwb - 1) == f["end"] - f["start"]),
                ("returned-points-are-the-window", npts == z3.If(z3.And(z3.Not(f["boundary"]), npts == 1), 1, up - lo))]

    def pre(self, S, env):
        return self.state(env["self"])

    def result(self, S, env):
        return Seq("tuple", [S.seq("coordsD", S.int("coordsD.len"), R, kind="array"), S.seq("weightsD", S.int("weightsD.len"), R, kind="list")])

    def post(self, S, old, env, result):
        f = old["self"].fields
        ok = isinstance(result, Seq) and result.concrete and len(result.items) == 2 and all(isinstance(x, Seq) for x in result.items)
        if not ok:
            return [Cl("returns-pair", False)]
        c, w = result.items[0].to_symbolic(), result.items[1].to_symbolic()
        i = z3.Int("gi")
        single = z3.And(z3.Not(f["boundary"]), f["num_points"] == 1)
        nwb, lo, up = f["num_points_with_boundary"], f["lowerBorder"], f["upperBorder"]
        return [Cl("returns-pair", True),
                Cl("coords-length", V(c.len()) == z3.If(single, 1, up - lo)),
                Cl("weights-length", V(w.len()) == f["num_points"]),
                Cl("coords-formula", z3.ForAll([i], z3.Implies(z3.And(z3.Not(single), i >= 0, i < up - lo),
                                                               z3.Select(c.arr, i) * z3.ToReal(nwb - 1) == f["start"] * z3.ToReal(nwb - 1) + z3.ToReal(i + lo) * (f["end"] - f["start"])))),
                Cl("frame", z3.And(*[env["self"].fields[k] == f[k] for k in ("a", "b", "start", "end", "boundary", "num_points", "num_points_with_boundary", "lowerBorder", "upperBorder")])),
                # every returned weight is the composite trapezoidal weight of its point (the list comprehension over range(num_points) is evaluated for an
                # arbitrary index against the contract of get_1d_weight)
                Cl("weights-are-the-composite-trapezoidal-weights", z3.ForAll([i], z3.Implies(z3.And(i >= 0, i < f["num_points"], window(f)),
                                                                                            z3.Select(w.arr, i) == trap_weight(f, i))), prop=True)]


def window(f):
    """the returned points are exactly the window [lowerBorder, upperBorder) of the equidistant points of the box (or the single midpoint)"""
    return f["num_points"] == z3.If(z3.And(z3.Not(f["boundary"]), f["num_points"] == 1), 1, f["upperBorder"] - f["lowerBorder"])


def trap_weight(f, index):
    g = index + f["lowerBorder"]
    return z3.If(z3.And(z3.Not(f["boundary"]), f["num_points"] == 1), f["spacing"],
                 f["spacing"] * z3.If(z3.Or(g == 0, g == f["num_points_with_boundary"] - 1), z3.RealVal("1/2"), z3.RealVal(1)))


def V(x):
    return z3.IntVal(x) if isinstance(x, int) else x


def prod_array(w, c):
    i = z3.Int("pai")
    return z3.Lambda([i], z3.Select(w, i) * z3.Select(c, i))


def trap_pointwise(w, n, h):
    i = z3.Int("tpi")
    return z3.ForAll([i], z3.Implies(z3.And(i >= 0, i < n), z3.Select(w, i) == h * z3.If(z3.Or(i == 0, i == n - 1), z3.RealVal("1/2"), z3.RealVal(1))), patterns=[z3.Select(w, i)])


def equidistant(c, n, h, start):
    i = z3.Int("eqi")
    return z3.ForAll([i], z3.Implies(z3.And(i >= 0, i < n), z3.Select(c, i) == start + z3.ToReal(i) * h), patterns=[z3.Select(c, i)])


def trap_sum_stmt(w, n, h):
    """n >= 2 points with weights h/2, h, ..., h, h/2  ==>  they sum to (n-1) h"""
    return z3.Implies(z3.And(n >= 2, trap_pointwise(w, n, h)), P.SUMR(w, 0, n) == z3.ToReal(n - 1) * h)


def trap_moment_stmt(w, c, n, h, start):
    """... and with equidistant points x_i = start + i h:  2 sum w_i x_i == end^2 - start^2,  end = start + (n-1) h"""
    end = start + z3.ToReal(n - 1) * h
    return z3.Implies(z3.And(n >= 2, trap_pointwise(w, n, h), equidistant(c, n, h, start)), 2 * P.SUMR(prod_array(w, c), 0, n) == end * end - start * start)


def _trap_sum_lemma():
    w = z3.Const("w", z3.ArraySort(I, R))
    n, k = z3.Ints("n k")
    h = z3.Real("h")
    ax = P.sum_axioms()
    hyp = [n >= 2, trap_pointwise(w, n, h)]
    S_ = lambda m: P.SUMR(w, 0, m)  # noqa
    closed = lambda m: (z3.ToReal(m) - z3.RealVal("1/2")) * h  # noqa
    return [(ax + hyp, S_(z3.IntVal(1)) == closed(z3.IntVal(1))),
            (ax + hyp + [k >= 1, k < n - 1, S_(k) == closed(k)], S_(k + 1) == closed(k + 1)),
            (ax + hyp + [S_(n - 1) == closed(n - 1)], S_(n) == z3.ToReal(n - 1) * h)]


def _trap_moment_lemma():
    w, c = z3.Const("w", z3.ArraySort(I, R)), z3.Const("c", z3.ArraySort(I, R))
    n, k = z3.Ints("n k")
    h, st = z3.Reals("h st")
    ax = P.sum_axioms()
    hyp = [n >= 2, trap_pointwise(w, n, h), equidistant(c, n, h, st)]
    pw = prod_array(w, c)
    T = lambda m: P.SUMR(pw, 0, m)  # noqa
    kr = lambda m: z3.ToReal(m)  # noqa
    closed = lambda m: h * st * (kr(m) - z3.RealVal("1/2")) + h * h * (kr(m) - 1) * kr(m) / 2  # noqa
    end = st + kr(n - 1) * h
    return [(ax + hyp, T(z3.IntVal(1)) == closed(z3.IntVal(1))),
            (ax + hyp + [k >= 1, k < n - 1, T(k) == closed(k)], T(k + 1) == closed(k + 1)),
            (ax + hyp + [T(n - 1) == closed(n - 1)], 2 * T(n) == end * end - st * st)]


class SetCurrentArea(Contract):
    file, qualname = FILE, "Grid1d.set_current_area"
    label = "Grid1d.set_current_area[TrapezoidalGrid1D]"

    def inputs(self, S):
        a, b = S.real("a"), S.real("b")
        S.assume(a < b)
        s = Obj("TrapezoidalGrid1D", dict(a=a, b=b, boundary=S.bool("boundary"), modified_basis=False))
        start, end = S.real("start"), S.real("end")
        S.assume(z3.And(a <= start, start < end, end <= b))
        return {"self": s, "start": start, "end": end, "level": S.int("level")}

    def pre(self, S, env):
        return [("level-nonneg", env["level"] >= 0)]

    def post(self, S, old, env, result):
        s = env["self"]
        f = s.fields
        need = ("num_points", "num_points_with_boundary", "lowerBorder", "upperBorder", "coords", "weights", "start", "end", "length", "level")
        if not all(k in f for k in need) or not isinstance(f["coords"], Seq) or not isinstance(f["weights"], Seq):
            return [Cl("sets-fields", False)]
        c, w = f["coords"].to_symbolic(), f["weights"].to_symbolic()
        npts = f["num_points"]
        i = z3.Int("si")
        lo, nwb = f["lowerBorder"], f["num_points_with_boundary"]
        multi = z3.Not(z3.And(z3.Not(f["boundary"]), npts == 1))
        from pyvc import values as Vv
        return [Cl("sets-fields", True),
                # the box the families scale their reference rule with (Clenshaw-Curtis, Gauss-Legendre and Leja multiply by self.length)
                Cl("records-the-sub-box", z3.And(Vv.to_z3(f["start"], True) == old["start"], Vv.to_z3(f["end"], True) == old["end"],
                                                 Vv.to_z3(f["length"], True) == old["end"] - old["start"], f["level"] == old["level"])),
                Cl("announced-count", npts == announced(s, old["level"])),
                # the padded coordinate list the interpolation / plotting code reads (boundary off: global ends added on both sides)
                Cl("coords-with-boundary-recorded", isinstance(f.get("coords_with_boundary"), Seq) and
                   (V(f["coords_with_boundary"].to_symbolic().len()) == z3.If(f["boundary"], npts, npts + 2)) if isinstance(f.get("coords_with_boundary"), Seq) else False),
                Cl("returns-as-many-points-as-announced", V(c.len()) == npts, prop=True),
                Cl("as-many-weights-as-points", V(w.len()) == npts, prop=True),
                Cl("points-inside-the-sub-box", z3.ForAll([i], z3.Implies(z3.And(i >= 0, i < npts, multi),
                                                                          z3.And(z3.Select(c.arr, i) >= old["start"], z3.Select(c.arr, i) <= old["end"]))), prop=True),
                # weights: each returned point keeps the composite trapezoidal weight of its position among ALL equidistant points of the box (so switching the
                # boundary points off leaves the remaining weights unchanged); with boundary points they sum to the box length and integrate x exactly
                Cl("weights-are-the-composite-trapezoidal-weights-of-the-global-positions",
                   z3.ForAll([i], z3.Implies(z3.And(i >= 0, i < npts), z3.Select(w.arr, i) == trap_weight(f, i))), prop=True),
                Cl("with-boundary-points-the-weights-sum-to-the-box-length",
                   z3.Implies(f["boundary"], P.SUMR(w.arr, 0, npts) == old["end"] - old["start"]), prop=True,
                   by=[("trapezoid-weights-sum", trap_sum_stmt(w.arr, npts, f["spacing"]))]),
                Cl("with-boundary-points-the-rule-integrates-x-exactly",
                   z3.Implies(f["boundary"], 2 * P.SUMR(prod_array(w.arr, c.arr), 0, npts) == old["end"] * old["end"] - old["start"] * old["start"]), prop=True,
                   by=[("trapezoid-first-moment", trap_moment_stmt(w.arr, c.arr, npts, f["spacing"], old["start"]))]),
                Cl("boundary-off-drops-exactly-global-boundary-points",
                   z3.Implies(z3.Not(f["boundary"]), z3.And(lo == z3.If(z3.And(isclose(old["start"], f["a"]), npts < nwb), 1, 0),
                                                            f["upperBorder"] == z3.If(z3.And(isclose(old["end"], f["b"]), npts < nwb), nwb - 1, z3.If(npts < nwb, nwb, npts)))), prop=True),
                ]

    model_to_input = staticmethod(LevelToNumPoints.model_to_input)


CONTRACTS = [LevelToNumPoints(), GetPointsAndWeights(), SetCurrentArea()]
LEMMAS = [L.SmtLemma("trapezoid-weights-sum", _trap_sum_lemma, note="h/2 + h + ... + h + h/2 == (n-1) h (induction over the partial sums with their closed form)"),
          L.SmtLemma("trapezoid-first-moment", _trap_moment_lemma, note="the composite trapezoidal rule on equidistant points integrates x exactly (induction, polynomial identities)")]
ASSUMPTIONS = ["np.linspace(a,b,n)[i] == a + i*(b-a)/(n-1); slices [lo:up] keep order (prelude contracts)",
               "weights of get_1D_level_weights: only the length is verified here (comprehension over a symbolic range); values by layer B",
               "machine floats treated as reals (A-REAL); math.isclose modelled exactly with rel_tol 1e-9"]


# --------------------------------------------------------------------------- trapezoidal weights
class WeightCompositeTrapezoidal(Contract):
    """composite trapezoidal weight of the returned point `index`: the point is number index+lowerBorder among the
    num_points_with_boundary equidistant points of the box; the two ends of the box carry spacing/2, all others spacing.
    With boundary points off the remaining points keep exactly these weights (C08)."""
    file, qualname = FILE, "TrapezoidalGrid1D.weight_composite_trapezoidal"

    def inputs(self, S):
        return {"self": grid1d(S, after_set_area=True), "index": S.int("index")}

    def pre(self, S, env):
        f = env["self"].fields
        return GetPointsAndWeights.state(env["self"]) + [("index-in-range", z3.And(env["index"] >= 0, env["index"] < f["num_points"])),
                                                         ("returned-points-are-the-window", f["num_points"] == z3.If(z3.And(z3.Not(f["boundary"]), f["num_points"] == 1), 1, f["upperBorder"] - f["lowerBorder"]))]

    def result(self, S, env):
        return S.real("weight")

    @staticmethod
    def spec(f, index):
        g = index + f["lowerBorder"]
        return z3.If(z3.And(z3.Not(f["boundary"]), f["num_points"] == 1), f["spacing"],
                     f["spacing"] * z3.If(z3.Or(g == 0, g == f["num_points_with_boundary"] - 1), z3.RealVal("1/2"), z3.RealVal(1)))

    def post(self, S, old, env, result):
        f = old["self"].fields
        from pyvc import values as Vv
        return [Cl("weight-is-the-composite-trapezoidal-weight-of-the-global-point-index", Vv.to_z3(result, True) == self.spec(f, old["index"]), prop=True)]

    @staticmethod
    def model_to_input(model):
        return LevelToNumPoints.model_to_input(model)


class Get1dWeight(WeightCompositeTrapezoidal):
    qualname = "TrapezoidalGrid1D.get_1d_weight"
    label = "TrapezoidalGrid1D.get_1d_weight[standard basis]"

    def post(self, S, old, env, result):
        f = old["self"].fields
        from pyvc import values as Vv
        return [Cl("standard-basis-weight-is-the-composite-trapezoidal-weight", Vv.to_z3(result, True) == self.spec(f, old["index"]), prop=True)]


CONTRACTS += [WeightCompositeTrapezoidal(), Get1dWeight()]


# --------------------------------------------------------------------------- the d-dimensional tensor grid: one 1-D grid per dimension (dims 1-2)
def grid1d_tagged(S, t):
    a, b = S.real("a%s" % t), S.real("b%s" % t)
    S.assume(a < b)
    f = dict(a=a, b=b, boundary=S.bool("boundary%s" % t), modified_basis=False, start=S.real("start%s" % t), end=S.real("end%s" % t))
    S.assume(z3.And(a <= f["start"], f["start"] < f["end"], f["end"] <= b))
    return Obj("TrapezoidalGrid1D", f)


def _sca_havoc(self, S, cenv, tag):
    """caller-side frame of Grid1d.set_current_area: everything it (re)computes"""
    f = cenv["self"].fields
    for k in ("num_points", "num_points_with_boundary", "lowerBorder", "upperBorder", "level"):
        f[k] = S.int("%s.%s" % (tag, k))
    for k in ("start", "end", "length", "spacing"):
        f[k] = S.real("%s.%s" % (tag, k))
    for k in ("coords", "weights", "coords_with_boundary"):
        n = S.int("%s.%s.len" % (tag, k))
        S.assume(n >= 0)
        f[k] = S.seq("%s.%s" % (tag, k), n, R, kind="array")


for _c in CONTRACTS:
    if isinstance(_c, SetCurrentArea):
        _c.havoc = _sca_havoc.__get__(_c)


class GridLevelToNumPoints(Contract):
    """Grid.levelToNumPoints (tensor grid of 1-2 trapezoidal 1-D grids): entry d is the count the 1-D grid of dimension d announces for levelvec[d]"""
    file, qualname = FILE, "Grid.levelToNumPoints"

    def __init__(self, ndim):
        self.ndim = ndim
        self.label = "Grid.levelToNumPoints[TrapezoidalGrid, dims=%d]" % ndim

    def applies(self, receiver, args):
        return isinstance(receiver.fields.get("grids"), Seq) and len(receiver.fields["grids"].items) == self.ndim

    def inputs(self, S):
        grids = [grid1d_tagged(S, str(d)) for d in range(self.ndim)]
        return {"self": Obj("TrapezoidalGrid", dict(grids=Seq("list", grids), dim=self.ndim)), "levelvec": Seq("list", [S.int("level%d" % d) for d in range(self.ndim)])}

    def pre(self, S, env):
        lv = env["levelvec"]
        ok = isinstance(lv, Seq) and lv.concrete and len(lv.items) == self.ndim
        return [("one-level-per-dimension", ok)] + ([("level-%d-nonneg" % d, V(lv.items[d]) >= 0) for d in range(self.ndim)] if ok else [])

    def result(self, S, env):
        return Seq("array", [S.int("numPoints%d" % d) for d in range(self.ndim)])

    def post(self, S, old, env, result):
        ok = isinstance(result, Seq) and result.concrete and len(result.items) == self.ndim
        if not ok:
            return [Cl("one-count-per-dimension", False, prop=True)]
        grids = env["self"].fields["grids"].items
        return [Cl("one-count-per-dimension", True, prop=True)] + \
               [Cl("announced-count-of-dimension-%d" % d, V(result.items[d]) == announced(grids[d], V(old["levelvec"].items[d])), prop=True) for d in range(self.ndim)] + \
               [Cl("grids-untouched-%d" % d, z3.And(*[grids[d].fields[k] == old["self"].fields["grids"].items[d].fields[k] for k in ("a", "b", "start", "end", "boundary")])) for d in range(self.ndim)]

    def model_to_input(self, model):
        from pyvc import modelparse as mp
        g = lambda k, dflt=0: mp.tofloat(mp.num(model.get(k, str(dflt))))  # noqa
        return {"kind": "C08.tensor", "ndim": self.ndim, "a": [g("a%d" % d) for d in range(self.ndim)], "b": [g("b%d" % d, 1) for d in range(self.ndim)],
                "start": [g("start%d" % d) for d in range(self.ndim)], "end": [g("end%d" % d, 1) for d in range(self.ndim)],
                "boundary": [model.get("boundary%d" % d, "True") == "True" for d in range(self.ndim)], "level": [g("level%d" % d, 1) for d in range(self.ndim)]}


class GridSetCurrentArea(Contract):
    """Grid.setCurrentArea (1-2 dimensions): every dimension returns exactly as many coordinates and weights as numPoints reports for it, all inside the sub-box"""
    file, qualname = FILE, "Grid.setCurrentArea"
    inline = ("Grid.levelToNumPointsWithBoundary", "levelToNumPointsWithBoundary")

    def __init__(self, ndim):
        self.ndim = ndim
        self.label = "Grid.setCurrentArea[TrapezoidalGrid, dims=%d]" % ndim

    def inputs(self, S):
        nd = self.ndim
        grids = []
        for d in range(nd):
            a, b = S.real("a%d" % d), S.real("b%d" % d)
            S.assume(a < b)
            grids.append(Obj("TrapezoidalGrid1D", dict(a=a, b=b, boundary=S.bool("boundary%d" % d), modified_basis=False)))
        start, end = [S.real("start%d" % d) for d in range(nd)], [S.real("end%d" % d) for d in range(nd)]
        for d in range(nd):
            S.assume(z3.And(grids[d].fields["a"] <= start[d], start[d] < end[d], end[d] <= grids[d].fields["b"]))
        return {"self": Obj("TrapezoidalGrid", dict(grids=Seq("list", grids), dim=nd, a=Seq("array", [g.fields["a"] for g in grids]), b=Seq("array", [g.fields["b"] for g in grids]))),
                "start": Seq("array", start), "end": Seq("array", end), "levelvec": Seq("list", [S.int("level%d" % d) for d in range(nd)])}

    def pre(self, S, env):
        return [("level-%d-nonneg" % d, V(env["levelvec"].items[d]) >= 0) for d in range(self.ndim)]

    def post(self, S, old, env, result):
        f = env["self"].fields
        need = ("numPoints", "coordinate_array", "weights")
        ok = all(isinstance(f.get(k), Seq) and f[k].concrete and len(f[k].items) == self.ndim for k in need)
        if not ok:
            return [Cl("records-counts-coordinates-and-weights-per-dimension", False, prop=True)]
        out = [Cl("records-counts-coordinates-and-weights-per-dimension", True, prop=True)]
        i = z3.Int("ti")
        for d in range(self.ndim):
            n = V(f["numPoints"].items[d])
            c, w = f["coordinate_array"].items[d], f["weights"].items[d]
            if not (isinstance(c, Seq) and isinstance(w, Seq)):
                out.append(Cl("dimension-%d-holds-arrays" % d, False, prop=True))
                continue
            c, w = c.to_symbolic(), w.to_symbolic()
            g = f["grids"].items[d]
            cwb, ln = f.get("coordinate_array_with_boundary"), f.get("length")
            from pyvc import values as Vv
            out.append(Cl("padded-coordinates-and-box-extent-recorded[dim %d]" % d,
                          (isinstance(cwb, Seq) and cwb.concrete and len(cwb.items) == self.ndim and cwb.items[d] is g.fields.get("coords_with_boundary")
                           and isinstance(ln, Seq) and ln.concrete and len(ln.items) == self.ndim) and
                          (Vv.to_z3(ln.items[d], True) == V(old["end"].items[d]) - V(old["start"].items[d])) if (isinstance(ln, Seq) and ln.concrete and len(ln.items) == self.ndim) else False))
            out += [Cl("reported-count-is-the-number-of-returned-points[dim %d]" % d, V(c.len()) == n, prop=True),
                    Cl("as-many-weights-as-points[dim %d]" % d, V(w.len()) == n, prop=True),
                    Cl("reported-count-is-the-announced-count[dim %d]" % d, n == announced(g, V(old["levelvec"].items[d])), prop=True),
                    Cl("points-inside-the-sub-box[dim %d]" % d, z3.ForAll([i], z3.Implies(z3.And(i >= 0, i < n, z3.Not(z3.And(z3.Not(g.fields["boundary"]), n == 1))),
                       z3.And(z3.Select(c.arr, i) >= V(old["start"].items[d]), z3.Select(c.arr, i) <= V(old["end"].items[d])))), prop=True)]
        return out

    model_to_input = GridLevelToNumPoints.model_to_input


CONTRACTS += [GridLevelToNumPoints(1), GridLevelToNumPoints(2), GridSetCurrentArea(1), GridSetCurrentArea(2)]
ASSUMPTIONS += ["tensor grid: verified for 1 and 2 dimensions (loops over the dimensions unrolled), each dimension with its own symbolic domain, sub-box, level and boundary flag"]
