"""Sidecar contracts for C15: weighted trapezoidal weights (Grid.py GlobalTrapezoidalGridWeighted.compute_weights) with the
distribution abstracted by its interval moments, and the moment algebra (GridOperation.py)."""
import z3

from pyvc.book import Contract, Loop
from pyvc.engine import Cl
from pyvc.values import Seq, Obj
from pyvc import lemmas as L
from pyvc import prelude as P

I, R = z3.IntSort(), z3.RealSort()
M0 = z3.Function("M0", R, R, R)     # zeroth moment (probability) of [x1,x2]
M1 = z3.Function("M1", R, R, R)     # first moment of [x1,x2]


def V(x):
    return z3.IntVal(x) if isinstance(x, int) else x


def a_dist(x1, x2):
    """A-DIST: what every probability density gives for x1 < x2:  M0 >= 0  and  x1*M0 <= M1 <= x2*M0"""
    return z3.And(M0(x1, x2) >= 0, x1 * M0(x1, x2) <= M1(x1, x2), M1(x1, x2) <= x2 * M0(x1, x2))


class ZerothMoment(Contract):
    file, qualname = "sparseSpACE/GridOperation.py", "UQDistribution.get_zeroth_moment"
    trusted = True
    note = "distribution object (scipy/chaospy based): interval probability; A-DIST assumed"

    def inputs(self, S):
        return {"self": Obj("UQDistribution", {}), "x1": S.real("x1"), "x2": S.real("x2")}

    def result(self, S, env):
        return M0(env["x1"], env["x2"])

    def post(self, S, old, env, result):
        return [("A-DIST", z3.Implies(env["x1"] < env["x2"], a_dist(env["x1"], env["x2"])))]


class FirstMoment(ZerothMoment):
    qualname = "UQDistribution.get_first_moment"

    def result(self, S, env):
        return M1(env["x1"], env["x2"])


def w2(x, i):
    x1, x2 = z3.Select(x, i), z3.Select(x, i + 1)
    return (M1(x1, x2) - M0(x1, x2) * x1) / (x2 - x1)


def w1(x, i):
    x1, x2 = z3.Select(x, i), z3.Select(x, i + 1)
    return M0(x1, x2) - w2(x, i)


W1F = z3.Function("W1", z3.ArraySort(I, R), I, R)     # opaque names for the two interval weights (definitions below)
W2F = z3.Function("W2", z3.ArraySort(I, R), I, R)


def weight_defs(x):
    i = z3.Int("di")
    return [z3.ForAll([i], z3.And(W1F(x, i) == w1(x, i), W2F(x, i) == w2(x, i)), patterns=[W1F(x, i), W2F(x, i)])]


def weight_spec(x, n, j, k):
    """weight of point j after the first k intervals were processed"""
    return z3.If(z3.And(j >= 1, j <= k), W2F(x, j - 1), z3.RealVal(0)) + z3.If(j < k, W1F(x, j), z3.RealVal(0))


TOTM = z3.Function("TotalMass", z3.ArraySort(I, R), I, R)     # ghost: sum of the interval probabilities M0(x_i, x_{i+1}) of the first k intervals


def totm_defs(x):
    k = z3.Int("tk")
    return [TOTM(x, 0) == 0,
            z3.ForAll([k], z3.Implies(k >= 0, TOTM(x, k + 1) == TOTM(x, k) + M0(z3.Select(x, k), z3.Select(x, k + 1))), patterns=[TOTM(x, k + 1)])]


def total_mass_stmt(x, n):
    """A-DIST-ADD (interval probabilities are additive) ==> the interval probabilities of a sorted grid add up to the probability of [x_0, x_{n-1}]"""
    i = z3.Int("tmi")
    srt = z3.ForAll([i], z3.Implies(z3.And(i >= 0, i < n - 1), z3.Select(x, i) <= z3.Select(x, i + 1)))
    return z3.Implies(z3.And(n >= 1, srt), TOTM(x, n - 1) == M0(z3.Select(x, 0), z3.Select(x, n - 1)))


def a_dist_add():
    a, b, c = z3.Reals("ma mb mc")
    return z3.ForAll([a, b, c], z3.Implies(z3.And(a <= b, b <= c), M0(a, b) + M0(b, c) == M0(a, c)), patterns=[z3.MultiPattern(M0(a, b), M0(b, c))])


def _sum_zeros_lemma():
    n = z3.Int("n")
    zeros = z3.K(I, z3.RealVal(0))
    ax = P.sum_axioms()
    return [(ax, P.SUMR(zeros, 0, 0) == 0), (ax + [n >= 0, P.SUMR(zeros, 0, n) == 0], P.SUMR(zeros, 0, n + 1) == 0)]


def _total_mass_lemma():
    x = z3.Const("x", z3.ArraySort(I, R))
    m, i = z3.Ints("m i")
    a0 = z3.Real("a0")
    base = totm_defs(x) + [a_dist_add(), M0(a0, a0) == 0]
    srt = lambda hi: z3.ForAll([i], z3.Implies(z3.And(i >= 0, i < hi), z3.Select(x, i) <= z3.Select(x, i + 1)))  # noqa
    claim = lambda k: TOTM(x, k) == M0(z3.Select(x, 0), z3.Select(x, k))  # noqa
    # sortedness gives x_0 <= x_m by its own induction; it is stated as a hypothesis of the step (x_0 <= x_m) and proved as the third goal
    le = lambda k: z3.Select(x, 0) <= z3.Select(x, k)  # noqa
    return [(base + [z3.ForAll([a0], M0(a0, a0) == 0)], claim(z3.IntVal(0))),
            (base + [m >= 0, srt(m + 1), le(m), claim(m)], claim(m + 1)),
            ([m >= 0, srt(m + 1), le(m)], le(m + 1))]


class WeightedComputeWeights(Contract):
    file, qualname = "sparseSpACE/Grid.py", "GlobalTrapezoidalGridWeighted.compute_weights"
    label = "GlobalTrapezoidalGridWeighted.compute_weights[boundary on, finite grid]"

    def inputs(self, S):
        n = S.int("n")
        x = S.seq("grid_1D", n, R, kind="array")
        for ax in weight_defs(x.arr):
            S.assume(ax, "def:W")
        for ax in totm_defs(x.arr):
            S.assume(ax, "def:TotalMass")
        return {"grid_1D": x, "a": S.real("a"), "b": S.real("b"), "distribution": Obj("UQDistribution", {}), "boundary": True, "modified_basis": False}

    def pre(self, S, env):
        x, n = env["grid_1D"].arr, env["grid_1D"].len()
        i = z3.Int("si")
        return [("at-least-two-points", n >= 2),
                ("strictly-sorted", z3.ForAll([i], z3.Implies(z3.And(i >= 0, i < n - 1), z3.Select(x, i) < z3.Select(x, i + 1)), patterns=[z3.Select(x, i)]))]

    def post(self, S, old, env, result):
        x, n = old["grid_1D"].arr, old["grid_1D"].len()
        if not isinstance(result, Seq):
            return [Cl("returns-array", False, prop=True)]
        w = result.to_symbolic()
        j = z3.Int("wj")
        return [Cl("returns-array", True, prop=True),
                Cl("one-weight-per-point", V(w.len()) == n, prop=True),
                Cl("weights-nonnegative", z3.ForAll([j], z3.Implies(z3.And(j >= 0, j < n), z3.Select(w.arr, j) >= 0)), prop=True),
                Cl("weights-match-the-interval-moments", z3.ForAll([j], z3.Implies(z3.And(j >= 0, j < n), z3.Select(w.arr, j) == weight_spec(x, n, j, n - 1))), prop=True),
                Cl("weights-sum-to-the-probability-of-the-grid-intervals", P.SUMR(w.arr, 0, n) == TOTM(x, n - 1)),
                # with additive interval probabilities (A-DIST-ADD, lemma total-mass) that is the probability of [x_0, x_{n-1}]: 1 when the grid spans the support
                Cl("weights-sum-to-one-when-the-grid-spans-the-support",
                   z3.Implies(M0(z3.Select(x, 0), z3.Select(x, n - 1)) == 1, P.SUMR(w.arr, 0, n) == 1), prop=True,
                   by=[("total-mass", total_mass_stmt(x, n))])]

    @staticmethod
    def facts(x, n):
        """A-DIST instantiated on the grid intervals (consequence of the callee contracts at each call; stated once)"""
        i = z3.Int("fi")
        return z3.ForAll([i], z3.Implies(z3.And(i >= 0, i < n - 1), z3.And(w1(x, i) >= 0, w2(x, i) >= 0)))

    def inv1(self, S, env, g):
        x, n = S.ex.old["grid_1D"].arr, S.ex.old["grid_1D"].len()
        w = env["weights"]
        j = z3.Int("ij")
        k = g["k"]
        return [("partial-weights", z3.ForAll([j], z3.Implies(z3.And(j >= 0, j < n), z3.Select(w.arr, j) == weight_spec(x, n, j, k)), patterns=[z3.Select(w.arr, j)]),
                 "nokeep"),
                ("interval-weights-nonneg", z3.ForAll([j], z3.Implies(z3.And(j >= 0, j < k), z3.And(W1F(x, j) >= 0, W2F(x, j) >= 0)), patterns=[W1F(x, j), W2F(x, j)])),
                ("length", z3.And(V(w.len()) == n, V(env["num_points"]) == n)),
                ("grid-untouched", env["grid_1D"].arr == x),
                self.sum_so_far(w, x, n, k, g)]

    def sum_so_far(self, w, x, n, k, g):
        """ghost: the weights written so far add up to the probability of the processed intervals (each iteration adds w1 + w2 == M0 of its interval
        at two positions: two instances of lemma sum-update over the array at the start of the iteration)"""
        from contracts.C05 import sum_update_stmt
        zeros = z3.K(I, z3.RealVal(0))
        by = [("sum-zeros", z3.Implies(n >= 0, P.SUMR(zeros, 0, n) == 0))]      # loop entry: weights = np.zeros(n)
        if "start" in g and "weights" in g["start"]:
            w0 = g["start"]["weights"].to_symbolic().arr
            i = k - 1
            a1 = z3.Store(w0, i, z3.Select(w.arr, i))
            by = [("sum-update", sum_update_stmt(w0, i, z3.Select(w.arr, i), n)), ("sum-update", sum_update_stmt(a1, i + 1, z3.Select(w.arr, i + 1), n))]
        return Cl("sum-so-far", P.SUMR(w.arr, 0, n) == TOTM(x, k), keep=True, uses=["def:TotalMass", "loop0/inv#sum-so-far", "loop0/inv#length", "loop0/inv#grid-untouched"], by=by)

    def inv2(self, S, env, g):
        x, n = S.ex.old["grid_1D"].arr, S.ex.old["grid_1D"].len()
        w = env["weights"]
        j = z3.Int("ij")
        return [("final-weights", z3.ForAll([j], z3.Implies(z3.And(j >= 0, j < n), z3.Select(w.arr, j) == weight_spec(x, n, j, n - 1)), patterns=[z3.Select(w.arr, j)])),
                ("interval-weights-nonneg", z3.ForAll([j], z3.Implies(z3.And(j >= 0, j < n - 1), z3.And(W1F(x, j) >= 0, W2F(x, j) >= 0)), patterns=[W1F(x, j), W2F(x, j)])),
                ("length", z3.And(V(w.len()) == n, V(env["num_points"]) == n)),
                ("grid-untouched", env["grid_1D"].arr == x),
                ("sum-is-the-total-mass", P.SUMR(w.arr, 0, n) == TOTM(x, n - 1))]

    @property
    def loops(self):
        return {0: Loop(inv=lambda S, env, g: self.inv1(S, env, g)), 1: Loop(inv=lambda S, env, g: self.inv2(S, env, g))}


class WeightedSpecialCases(Contract):
    """the two closed-form branches of the weighted rule: a single point carries the whole probability; three points without boundary points leave
    the whole probability on the inner point"""
    file, qualname = "sparseSpACE/Grid.py", "GlobalTrapezoidalGridWeighted.compute_weights"

    def __init__(self, n, boundary):
        self.n, self.boundary = n, boundary
        self.label = "GlobalTrapezoidalGridWeighted.compute_weights[%d point%s, boundary %s]" % (n, "" if n == 1 else "s", "on" if boundary else "off")

    def applies(self, receiver, args):
        return False

    def inputs(self, S):
        x = Seq("array", [S.real("x%d" % i) for i in range(self.n)])
        return {"grid_1D": x, "a": S.real("a"), "b": S.real("b"), "distribution": Obj("UQDistribution", {}), "boundary": self.boundary, "modified_basis": S.bool("modified_basis")}

    def post(self, S, old, env, result):
        ok = isinstance(result, Seq) and result.concrete and len(result.items) == self.n
        if not ok:
            return [Cl("one-weight-per-point", False, prop=True)]
        from pyvc import values as Vv
        ws = [Vv.to_z3(w, True) for w in result.items]
        out = [Cl("one-weight-per-point", True, prop=True), Cl("weights-nonnegative", z3.And(*[w >= 0 for w in ws]), prop=True),
               Cl("weights-sum-to-one", sum(ws[1:], ws[0]) == 1, prop=True)]
        if not self.boundary and self.n >= 3:
            out.append(Cl("boundary-points-carry-no-weight", z3.And(ws[0] == 0, ws[-1] == 0), prop=True))
        return out

    @staticmethod
    def model_to_input(model):
        return {"kind": "C15.weights_special"}



class MomentsToExpVar(Contract):
    file, qualname = "sparseSpACE/GridOperation.py", "UncertaintyQuantification.moments_to_expectation_variance"

    def __init__(self, n):
        self.n = n
        self.label = "UncertaintyQuantification.moments_to_expectation_variance[output length %d]" % n

    def model_to_input(self, model):
        from pyvc import modelparse as mp
        g = lambda k: mp.tofloat(mp.num(model.get(k, "0")) or 0)  # noqa
        return {"kind": "C15.moments", "m1": [g("m1_%d" % i) for i in range(self.n)], "m2": [g("m2_%d" % i) for i in range(self.n)]}

    def inputs(self, S):
        # the callers pass ndarray views of the operation's live result array
        return {"mom1": Seq("array", [S.real("m1_%d" % i) for i in range(self.n)]), "mom2": Seq("array", [S.real("m2_%d" % i) for i in range(self.n)])}

    def post(self, S, old, env, result):
        ok = isinstance(result, Seq) and result.concrete and len(result.items) == 2 and all(isinstance(x, Seq) and x.concrete and len(x.items) == self.n for x in result.items)
        if not ok:
            return [Cl("returns-pair-of-vectors", False, prop=True)]
        ex, var = result.items
        m1, m2 = old["mom1"].items, old["mom2"].items
        absv = lambda t: z3.If(t >= 0, t, -t)  # noqa
        from pyvc import values as Vv
        return [Cl("returns-pair-of-vectors", True, prop=True),
                Cl("expectation-is-first-moment", z3.And(*[Vv.to_z3(ex.items[i], True) == m1[i] for i in range(self.n)]), prop=True),
                Cl("variance-never-negative", z3.And(*[Vv.to_z3(var.items[i], True) >= 0 for i in range(self.n)]), prop=True),
                Cl("variance-is-second-minus-squared-first-moment", z3.And(*[Vv.to_z3(var.items[i], True) == absv(m2[i] - m1[i] * m1[i]) for i in range(self.n)]), prop=True),
                Cl("the-stored-moments-are-not-overwritten", z3.And(*([Vv.to_z3(env["mom2"].items[i], True) == m2[i] for i in range(self.n)] +
                                                                       [Vv.to_z3(env["mom1"].items[i], True) == m1[i] for i in range(self.n)])), prop=True)]


def _affine_lemma():
    """moments of an affine transform under ANY normalised linear functional Q (Q(1)=1; the combined weighted quadrature):
    m1' = c m1 + e,  m2' = c^2 m2 + 2 c e m1 + e^2   =>   E' = c E + e,  Var' = c^2 Var ;  constant model: E = K, Var = 0"""
    c, e, m1, m2, K = z3.Reals("c e m1 m2 K")
    absv = lambda t: z3.If(t >= 0, t, -t)  # noqa
    m1p = c * m1 + e
    m2p = c * c * m2 + 2 * c * e * m1 + e * e
    return [([], m1p == c * m1 + e),
            ([], absv(m2p - m1p * m1p) == c * c * absv(m2 - m1 * m1)),
            ([], absv(K * K - K * K) == 0)]


def _uniform_lemma():
    """uniform distribution on [a,b]: M0 = (x2-x1)/(b-a), M1 = (x2^2-x1^2)/(2(b-a))  =>  both interval weights are (x2-x1)/(2(b-a)),
    i.e. the weighted weights are the unweighted trapezoidal weights divided by the interval length"""
    x1, x2, a, b = z3.Reals("x1 x2 a b")
    m0 = (x2 - x1) / (b - a)
    m1 = (x2 * x2 - x1 * x1) / (2 * (b - a))
    ww2 = (m1 - m0 * x1) / (x2 - x1)
    return [([a < b, x1 < x2], ww2 == (x2 - x1) / (2 * (b - a))), ([a < b, x1 < x2], m0 - ww2 == (x2 - x1) / (2 * (b - a)))]


def _adist_lemma():
    """A-DIST => both interval weights are non-negative and add up to the interval probability"""
    x1, x2, m0, m1 = z3.Reals("x1 x2 m0 m1")
    ww2 = (m1 - m0 * x1) / (x2 - x1)
    return [([x1 < x2, m0 >= 0, x1 * m0 <= m1, m1 <= x2 * m0], z3.And(ww2 >= 0, m0 - ww2 >= 0, ww2 + (m0 - ww2) == m0))]


CONTRACTS = [ZerothMoment(), FirstMoment(), WeightedComputeWeights(), WeightedSpecialCases(1, True), WeightedSpecialCases(1, False), WeightedSpecialCases(3, False), MomentsToExpVar(1), MomentsToExpVar(2), MomentsToExpVar(3)]
LEMMAS = [L.SmtLemma("sum-zeros", _sum_zeros_lemma, note="ghost Sum of the zero array"), L.SmtLemma("total-mass", _total_mass_lemma, note="A-DIST-ADD: interval probabilities are additive; induction over the sorted grid"),
          L.SmtLemma("sum-update", __import__("contracts.C05", fromlist=["x"])._sum_update_lemma, note="ghost Sum after one array store (induction), shared with C05"),
          L.SmtLemma("affine-transformation-of-moments", _affine_lemma), L.SmtLemma("uniform-weights-are-trapezoidal-over-length", _uniform_lemma),
          L.SmtLemma("A-DIST-gives-nonnegative-interval-weights", _adist_lemma)]
ASSUMPTIONS = ["A-DIST: the distribution's interval moments satisfy M0>=0, x1*M0<=M1<=x2*M0 (true of every probability density; scipy/chaospy + quad accuracy not verified)",
               "weighted weights proved for boundary points on and finite grid points; infinite ends, boundary-off renormalisation, the weighted midpoint for real (inexact) cdf/ppf pairs, Sum of weights == 1: layer B",
               "moment vectors of length 1..3 (loop-free unrolling)"]


# --------------------------------------------------------------------------- weighted midpoint (equal-probability split)
from pyvc.values import Func  # noqa: E402

CDF = z3.Function("cdf", z3.RealSort(), z3.RealSort())
PPF = z3.Function("ppf", z3.RealSort(), z3.RealSort())


class MiddleWeighted(Contract):
    """GlobalTrapezoidalGridWeighted.get_middle_weighted on a finite interval with the distribution abstracted (A-DIST-CDF): cdf strictly
    increasing on [a,b], ppf its inverse there.  The returned point lies strictly inside the interval and halves its probability; the
    arithmetic-midpoint fall-back is unreachable under these assumptions (it is reached by real distributions when ppf is inexact or the
    density vanishes: layer B)."""
    file, qualname = "sparseSpACE/Grid.py", "GlobalTrapezoidalGridWeighted.get_middle_weighted"

    def inputs(self, S):
        a, b = S.real("a"), S.real("b")
        S.assume(a < b)
        x, y = z3.Reals("cx cy")
        S.assume(z3.ForAll([x, y], z3.Implies(z3.And(a <= x, x < y, y <= b), CDF(x) < CDF(y)), patterns=[z3.MultiPattern(CDF(x), CDF(y))]), "A-DIST-CDF:strictly-increasing")
        S.assume(z3.ForAll([x], z3.Implies(z3.And(CDF(a) <= x, x <= CDF(b)), z3.And(a <= PPF(x), PPF(x) <= b, CDF(PPF(x)) == x)), patterns=[PPF(x)]), "A-DIST-CDF:ppf-inverts-cdf")
        return {"a": a, "b": b, "cdf": Func("spec", CDF), "ppf": Func("spec", PPF)}

    def post(self, S, old, env, result):
        from pyvc import values as Vv
        m = Vv.to_z3(result, True)
        a, b = old["a"], old["b"]
        return [Cl("midpoint-strictly-inside-the-interval", z3.And(a < m, m < b), prop=True),
                Cl("midpoint-halves-the-probability-of-the-interval", CDF(m) - CDF(a) == CDF(b) - CDF(m), prop=True)]


CONTRACTS += [MiddleWeighted()]
ASSUMPTIONS += ["A-DIST-ADD (sum of the weights): interval probabilities are additive, M0(a,b)+M0(b,c) == M0(a,c) for a<=b<=c, and M0(a,a) == 0 (axioms of the uninterpreted M0 in lemma total-mass)",
                "A-DIST-CDF (get_middle_weighted): cdf strictly increasing on the interval, ppf its exact inverse on [cdf(a), cdf(b)]; finite interval ends"]


# --------------------------------------------------------------------------- _set_nodes_weights_evals: nodes, weights and model values belong to ONE combined rule
# Expectation and variance of the node-based path are sum_i w_i f(x_i)^k over (self.nodes, self.weights, self.f_evals).  They are the moments of the current sparse
# grid only if, after this function, the three sequences have one length and f_evals[i] is the model value AT nodes[i] -- whatever an earlier (possibly aborted)
# query left in the object.
from pyvc.values import Opaque  # noqa: E402
from pyvc import prelude as P_  # noqa: E402

MODEL = z3.Function("f_model", P_.U, P_.U)


class GetPointsAndWeights(Contract):
    file, qualname = "sparseSpACE/StandardCombi.py", "StandardCombi.get_points_and_weights"
    trusted = True
    note = "the exposed combined rule of the current sparse grid: as many weights as points (its content: C05 / layer B)"

    def inputs(self, S):
        return {"self": Obj("StandardCombi", {})}

    def result(self, S, env):
        n = S.int("rule.n")
        S.assume(n >= 0)
        return Seq("tuple", [S.seq("rule.points", n, P_.U, kind="array"), S.seq("rule.weights", n, R, kind="array")])


class SetNodesWeightsEvals(Contract):
    file, qualname = "sparseSpACE/GridOperation.py", "UncertaintyQuantification._set_nodes_weights_evals"

    def inputs(self, S):
        n0, m0, k0 = S.int("old.nodes"), S.int("old.weights"), S.int("old.evals")
        S.assume(z3.And(n0 >= 0, m0 >= 0, k0 >= 0))
        op = Obj("UncertaintyQuantification", dict(nodes=S.seq("nodes0", n0, P_.U, kind="array"), weights=S.seq("weights0", m0, R, kind="array"),
                                                   f_evals=S.seq("f_evals0", k0, P_.U, kind="list"), f_model=Func("spec", MODEL)))
        return {"self": op, "combiinstance": Obj("StandardCombi", {}), "scale_weights": False}

    def post(self, S, old, env, result):
        f = env["self"].fields
        ok = all(isinstance(f.get(k), Seq) for k in ("nodes", "weights", "f_evals"))
        if not ok:
            return [Cl("rule-stored", False, prop=True)]
        nd, w, ev = [f[k].to_symbolic() for k in ("nodes", "weights", "f_evals")]
        Vz = lambda x: z3.IntVal(x) if isinstance(x, int) else x  # noqa
        i = z3.Int("ni")
        return [Cl("rule-stored", True, prop=True),
                Cl("nodes-weights-and-model-values-have-one-length", z3.And(Vz(nd.len()) == Vz(w.len()), Vz(ev.len()) == Vz(nd.len())), prop=True),
                Cl("model-values-are-the-values-at-the-stored-nodes", z3.ForAll([i], z3.Implies(z3.And(i >= 0, i < Vz(nd.len())), z3.Select(ev.arr, i) == MODEL(z3.Select(nd.arr, i)))), prop=True)]

    @staticmethod
    def model_to_input(model):
        return {"kind": "C15.nodes_after_fault"}


class HasBasisGrid(Contract):
    file, qualname = "sparseSpACE/StandardCombi.py", "StandardCombi.has_basis_grid"
    trusted = True
    note = "pure query of the strategy object"

    def inputs(self, S):
        return {"self": Obj("StandardCombi", {})}

    def result(self, S, env):
        return S.bool("has_basis_grid")


class ScaleValues(Contract):
    file, qualname = "sparseSpACE/GridOperation.py", "UncertaintyQuantification._scale_values"
    trusted = True
    note = "multiplies every value by a constant factor: as many values as before (numpy)"

    def inputs(self, S):
        return {"self": Obj("UncertaintyQuantification", {}), "values": S.seq("values", S.int("nv"), R, kind="array")}

    def result(self, S, env):
        n = env["values"].len()
        return S.seq("scaled.values", n, R, kind="array")


class SetNodesWeightsEvalsScaled(SetNodesWeightsEvals):
    """the branch for basis grids (scale_weights=True): the weights are rescaled, nodes and model values as in the other branch"""
    total = False       # the branch asserts that the strategy has a basis grid

    def __init__(self):
        self.label = "UncertaintyQuantification._set_nodes_weights_evals[scale_weights]"

    def inputs(self, S):
        d = SetNodesWeightsEvals.inputs(self, S)
        d["scale_weights"] = True
        return d


CONTRACTS += [GetPointsAndWeights(), HasBasisGrid(), ScaleValues(), SetNodesWeightsEvals(), SetNodesWeightsEvalsScaled()]
ASSUMPTIONS += ["_set_nodes_weights_evals: the model is a pure function of the node (uninterpreted f_model); get_points_and_weights returns as many weights as points (trusted); scale_weights False"]
