"""Sidecar contracts for C13: the adaptive driver loop (SpatiallyAdaptivBase.continue_adaptive_refinement), the global error
estimate and benefits.  The evaluation / refinement steps are abstract (trusted step contracts with ghost counters): what is
verified is the control flow of the driver for ALL sequences of (error, point count) the steps may produce."""
import z3

from pyvc.book import Contract, Loop
from pyvc.engine import Cl
from pyvc.values import Seq, Obj, Opaque, Func
from pyvc import prelude as P

FILE = "sparseSpACE/spatiallyAdaptiveBase.py"
I, R = z3.IntSort(), z3.RealSort()
ERR = z3.Function("ERR", I, R)         # global error estimate returned by the e-th evaluation since construction
SURP = z3.Function("SURP", I, R)
NPTS = z3.Function("NPTS", I, I)       # distinct point count after the e-th evaluation


def V(x):
    return z3.IntVal(x) if isinstance(x, int) else x


def driver(S, max_is_none):
    f = dict(single_step=False, last_point_count=None, evaluation_points=None, print_output=False, do_plot=False, solutions_storage=None,
             test_scheme=False, reevaluate_at_end=S.bool("reevaluate_at_end"), refinements=S.int("refinements"),
             log_util=Obj("LogUtility", dict(time_func=Func("builtin", "pyvc.call_through"))),
             error_array=S.seq("error_array", S.int("len_e"), R), surplus_error_array=S.seq("surplus_error_array", S.int("len_s"), R),
             num_point_array=S.seq("num_point_array", S.int("len_n"), I),
             interpolation_error_arrayL2=Seq("list", []), interpolation_error_arrayMax=Seq("list", []),
             operation=Obj("Integration", {}), refinement=Obj("MetaRefinementContainer", dict(evaluationstotal=S.int("evaluationstotal"))),
             scheme=Opaque(S.const("scheme", P.U)), lmax=Opaque(S.const("lmax", P.U)), calculated_solution=None,
             ghost_E=S.int("E0"), ghost_R=S.int("R0"),
             tolerance=S.real("tolerance_of_the_previous_call"))     # whatever an earlier call stored: the limits of THIS call are its arguments
    return Obj("SpatiallyAdaptivBase", f)


class EvaluateOperation(Contract):
    file, qualname = FILE, "SpatiallyAdaptivBase.evaluate_operation"
    trusted = True
    note = "abstract step: one evaluation; returns (global error estimate, total surplus error); ghost counter E += 1"
    modifies = ("ghost_E",)

    def inputs(self, S):
        return {"self": driver(S, True)}

    def result(self, S, env):
        e = env["self"].fields["ghost_E"]
        return Seq("tuple", [ERR(e), SURP(e)])

    def post(self, S, old, env, result):
        return [("counts-one-evaluation", env["self"].fields["ghost_E"] == old["self"].fields["ghost_E"] + 1)]


class InitializeGrid(Contract):
    file, qualname = FILE, "SpatiallyAdaptivBase.initialize_grid"
    trusted = True
    note = "abstract hook of the strategy; does not touch the history arrays"

    def inputs(self, S):
        return {"self": driver(S, True)}


class GetTotalNumPoints(Contract):
    file, qualname = "sparseSpACE/StandardCombi.py", "StandardCombi.get_total_num_points"
    trusted = True
    note = "pure query: distinct point count of the current state (a function of the number of evaluations so far)"
    defaults = {"doNaive": False, "distinct_function_evals": True}

    def inputs(self, S):
        return {"self": driver(S, True), "doNaive": False, "distinct_function_evals": True}

    def result(self, S, env):
        return NPTS(env["self"].fields["ghost_E"])


class RefineStep(Contract):
    file, qualname = FILE, "SpatiallyAdaptivBase.refine"
    trusted = True
    note = "abstract step: one refinement step; ghost counter R += 1 (its own contract is C06's selection loop)"
    modifies = ("ghost_R", "refinements")

    def inputs(self, S):
        return {"self": driver(S, True)}

    def post(self, S, old, env, result):
        return [("counts-one-refinement", env["self"].fields["ghost_R"] == old["self"].fields["ghost_R"] + 1)]


class GetResult(Contract):
    file, qualname = "sparseSpACE/GridOperation.py", "Integration.get_result"
    trusted = True
    note = "returns the operation's current combined result"

    def inputs(self, S):
        return {"self": Obj("Integration", {})}

    def result(self, S, env):
        return Opaque(S.const("combi_result", P.U))


class EvaluateFinalCombi(Contract):
    file, qualname = FILE, "SpatiallyAdaptivBase.evaluate_final_combi"
    trusted = True
    note = "from-scratch evaluation (C05)"

    def inputs(self, S):
        return {"self": driver(S, True)}

    def result(self, S, env):
        return Seq("tuple", [Opaque(S.const("combi_result_final", P.U)), S.int("number_of_evaluations_final")])


def stop(e, tol, min_ev, max_ev):
    """the stopping rule of the property statement at the evaluation with ghost index e"""
    c = z3.And(ERR(e) <= tol, NPTS(e) >= min_ev)
    if max_ev is not None:
        c = z3.Or(c, NPTS(e) > max_ev)
    return c


class ContinueAdaptiveRefinement(Contract):
    file, qualname = FILE, "SpatiallyAdaptivBase.continue_adaptive_refinement"

    def __init__(self, with_max):
        self.with_max = with_max
        self.label = "SpatiallyAdaptivBase.continue_adaptive_refinement[max_evaluations %s]" % ("given" if with_max else "None")

    def inputs(self, S):
        s = driver(S, not self.with_max)
        return {"self": s, "tol": S.real("tol"), "max_time": None, "max_evaluations": S.int("max_evaluations") if self.with_max else None,
                "min_evaluations": S.int("min_evaluations")}

    def model_to_input(self, model):
        from pyvc import modelparse as mp
        g = lambda k, d: mp.tofloat(mp.num(model.get(k, str(d))))  # noqa
        return {"kind": "C13.driver", "tol": g("tol", 0.5), "min_evaluations": g("min_evaluations", 3),
                "max_evaluations": g("max_evaluations", 5) if self.with_max else None,
                "tolerance_prev": g("tolerance_of_the_previous_call", 1.5) if "tolerance_of_the_previous_call" in model else None}

    def pre(self, S, env):
        f = env["self"].fields
        return [("history-consistent", z3.And(f["error_array"].len() == f["surplus_error_array"].len(), f["error_array"].len() == f["num_point_array"].len(),
                                              f["error_array"].len() >= 0))]

    def inv(self, S, env, g):
        so = S.ex.old["self"].fields
        f = env["self"].fields
        E0, R0 = so["ghost_E"], so["ghost_R"]
        E, Rr = f["ghost_E"], f["ghost_R"]
        k = z3.Int("hk")
        tol, mn, mx = env["tol"], env["min_evaluations"], env["max_evaluations"]
        L0 = so["error_array"].len()
        return [("one-refinement-per-completed-evaluation", z3.And(E >= E0, Rr - R0 == E - E0)),
                ("no-earlier-evaluation-met-a-stopping-rule", z3.ForAll([k], z3.Implies(z3.And(k > E0, k <= E), z3.Not(stop(k, tol, mn, mx))))),
                ("one-history-entry-per-evaluation", z3.And(f["error_array"].len() == L0 + (E - E0), f["surplus_error_array"].len() == L0 + (E - E0),
                                                            f["num_point_array"].len() == L0 + (E - E0))),
                ("history-records-the-evaluations", z3.ForAll([k], z3.Implies(z3.And(k > E0, k <= E), z3.And(
                    z3.Select(f["error_array"].arr, L0 + (k - E0) - 1) == ERR(k), z3.Select(f["num_point_array"].arr, L0 + (k - E0) - 1) == NPTS(k))))),
                ("limits-unchanged", z3.And(env["tol"] == S.ex.old["tol"], env["min_evaluations"] == S.ex.old["min_evaluations"],
                                            (env["max_evaluations"] == S.ex.old["max_evaluations"]) if self.with_max else (env["max_evaluations"] is None))),
                ("old-history-kept", z3.ForAll([k], z3.Implies(z3.And(k >= 0, k < L0), z3.And(z3.Select(f["error_array"].arr, k) == z3.Select(so["error_array"].arr, k),
                                                                                             z3.Select(f["num_point_array"].arr, k) == z3.Select(so["num_point_array"].arr, k)))))]

    @property
    def loops(self):
        return {0: Loop(inv=lambda S, env, g: self.inv(S, env, g))}

    def post(self, S, old, env, result):
        so, f = old["self"].fields, env["self"].fields
        E0, R0, E, Rr = so["ghost_E"], so["ghost_R"], f["ghost_E"], f["ghost_R"]
        tol, mn, mx = old["tol"], old["min_evaluations"], old["max_evaluations"]
        L0 = so["error_array"].len()
        k = z3.Int("pk")
        ok = isinstance(result, Seq) and result.concrete and len(result.items) == 10
        if not ok:
            return [Cl("returns-10-tuple", False, prop=True)]
        return [Cl("returns-10-tuple", True, prop=True),
                Cl("at-least-one-evaluation", E >= E0 + 1, prop=True),
                Cl("stops-at-an-evaluation-that-meets-a-stopping-rule", stop(E, tol, mn, mx), prop=True),
                Cl("stops-at-the-FIRST-such-evaluation", z3.ForAll([k], z3.Implies(z3.And(k > E0, k < E), z3.Not(stop(k, tol, mn, mx)))), prop=True),
                Cl("never-refines-after-the-stopping-evaluation", Rr - R0 == (E - E0) - 1, prop=True),
                Cl("one-history-entry-per-evaluation", z3.And(f["error_array"].len() == L0 + (E - E0), f["surplus_error_array"].len() == L0 + (E - E0),
                                                              f["num_point_array"].len() == L0 + (E - E0)), prop=True),
                Cl("returned-arrays-are-the-history", result.items[5] is f["error_array"] and result.items[6] is f["num_point_array"] and result.items[7] is f["surplus_error_array"], prop=True),
                Cl("history-records-error-and-point-count-of-each-evaluation", z3.ForAll([k], z3.Implies(z3.And(k > E0, k <= E), z3.And(
                    z3.Select(f["error_array"].arr, L0 + (k - E0) - 1) == ERR(k), z3.Select(f["num_point_array"].arr, L0 + (k - E0) - 1) == NPTS(k)))), prop=True)]


CONTRACTS = [EvaluateOperation(), InitializeGrid(), GetTotalNumPoints(), RefineStep(), GetResult(), EvaluateFinalCombi(),
             ContinueAdaptiveRefinement(False), ContinueAdaptiveRefinement(True)]
LEMMAS = []
ASSUMPTIONS = ["configuration of the proof: max_time None, single_step False, evaluation_points None, do_plot False, solutions_storage None, test_scheme False",
               "LogUtility.time_func(msg, fn, *a) calls fn(*a) exactly once and returns its result; log_* / print_* calls have no effect on program state"]


# --------------------------------------------------------------------------- the reported error against a reference solution
from pyvc import prelude as P  # noqa: E402
from pyvc.values import Inf  # noqa: E402

GO_FILE = "sparseSpACE/GridOperation.py"


class GlobalErrorEstimate(Contract):
    """Integration.get_global_error_estimate for result vectors of length 1..3 and the norms 1, 2, inf: the reported error is the (library-normalised) norm of
    the ABSOLUTE deviation exactly when the reference solution is the zero vector, and of the component-wise RELATIVE deviation for every other reference --
    however small its entries are.  The spec is written with its own norm terms (not by re-running the code)."""
    file, qualname = GO_FILE, "Integration.get_global_error_estimate"

    def __init__(self, n, ordv, tag):
        self.n, self.ordv = n, ordv
        self.label = "Integration.get_global_error_estimate[length %d, norm %s]" % (n, tag)

    def inputs(self, S):
        ref = Seq("array", [S.real("ref%d" % i) for i in range(self.n)])
        res = Seq("array", [S.real("res%d" % i) for i in range(self.n)])
        return {"self": Obj("Integration", dict(reference_solution=ref, integral=res)), "refinement_container": None, "norm": self.ordv}

    def pre(self, S, env):
        ref = env["self"].fields["reference_solution"].items
        allzero = z3.And(*[r == 0 for r in ref])
        nonzero = z3.And(*[r != 0 for r in ref])
        return [("reference-is-zero-or-free-of-zero-components", z3.Or(allzero, nonzero))]

    def spec(self, S, old):
        ref, res = old["self"].fields["reference_solution"].items, old["self"].fields["integral"].items
        allzero = z3.And(*[r == 0 for r in ref])
        n = self.n
        if isinstance(self.ordv, Inf):
            scale = z3.RealVal(1)
        elif self.ordv == 1:
            scale = z3.RealVal(n)
        else:
            scale = P.sqrt_term(S.ex, z3.RealVal(n))
        absdev = P.norm_term(S.ex, list(res), self.ordv)
        reldev = P.norm_term(S.ex, [(a - b) / a for a, b in zip(ref, res)], self.ordv)
        return z3.If(allzero, absdev / scale, reldev / scale)

    def post(self, S, old, env, result):
        from pyvc import values as Vv
        return [Cl("absolute-deviation-for-the-zero-reference-relative-deviation-for-every-other-reference", Vv.to_z3(result, True) == self.spec(S, old), prop=True)]

    def model_to_input(self, model):
        from pyvc import modelparse as mp
        g = lambda k: mp.tofloat(mp.num(model.get(k, "0")))  # noqa
        return {"kind": "C13.error_estimate", "n": self.n, "norm": "inf" if isinstance(self.ordv, Inf) else self.ordv,
                "reference": [g("ref%d" % i) for i in range(self.n)], "result": [g("res%d" % i) for i in range(self.n)]}


CONTRACTS += [GlobalErrorEstimate(n, o, t) for n in (1, 2, 3) for o, t in ((1, "1"), (2, "2"), (Inf(1), "inf"))]
ASSUMPTIONS += ["get_global_error_estimate: vectors of length 1..3 (loop-free), norms 1/2/inf; sqrt is an uninterpreted function with its defining instances; the reference is the "
                "zero vector or has no zero component (a component-wise relative error is undefined otherwise); the division by len**(1/norm) is the library's normalisation"]


# --------------------------------------------------------------------------- total error: a sum of non-negative local errors is not negative
from pyvc.values import ObjSeq  # noqa: E402
from pyvc.book import Loop as _Loop  # noqa: E402
from pyvc import lemmas as L  # noqa: E402

RC_FILE = "sparseSpACE/RefinementContainer.py"
I_, R_ = z3.IntSort(), z3.RealSort()


def sum_nonneg_stmt(a, n):
    j = z3.Int("snj")
    return z3.Implies(z3.And(n >= 0, z3.ForAll([j], z3.Implies(z3.And(j >= 0, j < n), z3.Select(a, j) >= 0))), P.SUMR(a, 0, n) >= 0)


def _sum_nonneg_lemma():
    a = z3.Const("a", z3.ArraySort(I_, R_))
    m, j = z3.Ints("m j")
    ax = P.sum_axioms()
    nn = lambda k: z3.ForAll([j], z3.Implies(z3.And(j >= 0, j < k), z3.Select(a, j) >= 0))  # noqa
    return [(ax, P.SUMR(a, 0, 0) >= 0), (ax + [m >= 0, z3.Implies(nn(m), P.SUMR(a, 0, m) >= 0), nn(m + 1)], P.SUMR(a, 0, m + 1) >= 0)]


class GetTotalError(Contract):
    file, qualname = RC_FILE, "RefinementContainer.get_total_error"

    def inputs(self, S):
        n = S.int("n")
        S.assume(n >= 0)
        for ax in P.sum_axioms():
            S.assume(ax, "def:Sum")
        return {"self": Obj("RefinementContainer", dict(refinementObjects=ObjSeq("RefinementObject", n, dict(error=S.array("error", I_, R_)))))}

    def pre(self, S, env):
        o = env["self"].fields["refinementObjects"]
        j = z3.Int("ej")
        return [("local-errors-nonnegative", z3.ForAll([j], z3.Implies(z3.And(j >= 0, j < o.length), z3.Select(o.fields["error"], j) >= 0)))]

    def result(self, S, env):
        return S.real("total_error")

    def inv(self, S, env, g):
        from pyvc import values as Vv
        o = S.ex.old["self"].fields["refinementObjects"]
        return [("sum-so-far", Vv.to_z3(env["total_error"], True) == P.SUMR(o.fields["error"], 0, g["k"])),
                ("errors-untouched", env["self"].fields["refinementObjects"].fields["error"] == o.fields["error"])]

    @property
    def loops(self):
        return {0: _Loop(inv=lambda S, env, g: self.inv(S, env, g))}

    def post(self, S, old, env, result):
        from pyvc import values as Vv
        o = old["self"].fields["refinementObjects"]
        r = Vv.to_z3(result, True)
        return [Cl("total-is-the-sum-of-the-local-errors", r == P.SUMR(o.fields["error"], 0, o.length)),
                Cl("total-error-never-negative", r >= 0, prop=True, by=[("sum-nonneg", sum_nonneg_stmt(o.fields["error"], o.length))])]


class MetaGetTotalError(Contract):
    file, qualname = RC_FILE, "MetaRefinementContainer.get_total_error"

    def __init__(self, ndim):
        self.ndim = ndim
        self.label = "MetaRefinementContainer.get_total_error[dims=%d]" % ndim

    def inputs(self, S):
        conts = []
        for c in range(self.ndim):
            n = S.int("n%d" % c)
            S.assume(n >= 0)
            conts.append(Obj("RefinementContainer", dict(refinementObjects=ObjSeq("RefinementObject", n, dict(error=S.array("error%d" % c, I_, R_))))))
        return {"self": Obj("MetaRefinementContainer", dict(refinementContainers=Seq("list", conts)))}

    def pre(self, S, env):
        j = z3.Int("mej")
        out = []
        for c, cont in enumerate(env["self"].fields["refinementContainers"].items):
            o = cont.fields["refinementObjects"]
            out.append(("dim%d.local-errors-nonnegative" % c, z3.ForAll([j], z3.Implies(z3.And(j >= 0, j < o.length), z3.Select(o.fields["error"], j) >= 0))))
        return out

    def post(self, S, old, env, result):
        from pyvc import values as Vv
        return [Cl("total-error-never-negative", Vv.to_z3(result, True) >= 0, prop=True)]


CONTRACTS += [GetTotalError(), MetaGetTotalError(1), MetaGetTotalError(2), MetaGetTotalError(3)]
LEMMAS = list(globals().get("LEMMAS", [])) + [L.SmtLemma("sum-nonneg", _sum_nonneg_lemma, note="a ghost Sum of non-negative entries is non-negative (induction)")]


# --------------------------------------------------------------------------- local error estimators: never negative (C13), and what they measure
EC_FILE = "sparseSpACE/ErrorCalculator.py"


class LocalErrorEstimate(Contract):
    """the two default local error estimators (dimension-wise: hierarchical-surplus volumes of an interval; extend-split: deviation of an area from its
    parent's estimate) for result vectors of length 1..3 and the norms 1, 2, inf: the estimate is the library-normalised norm of the absolute values and
    therefore never negative"""

    def __init__(self, kind, n, ordv, tag):
        self.kind, self.n, self.ordv = kind, n, ordv
        self.file = EC_FILE
        self.qualname = {"volume": "ErrorCalculatorSingleDimVolumeGuided.calc_error", "extend": "ErrorCalculatorExtendSplit.calc_error",
                         "extend-parent": "ErrorCalculatorExtendSplit.calc_error"}[kind]
        self.label = "%s[%slength %d, norm %s]" % (self.qualname, "parent estimation, " if kind == "extend-parent" else "", n, tag)

    def vec(self, S, name):
        return Seq("array", [S.real("%s%d" % (name, i)) for i in range(self.n)])

    def inputs(self, S):
        if self.kind == "volume":
            ro = Obj("RefinementObjectSingleDimension", dict(volume=self.vec(S, "vol")))
        else:
            ro = Obj("RefinementObjectExtendSplit", dict(value=self.vec(S, "val"), sum_siblings=self.vec(S, "sib"), switch_to_parent_estimation=(self.kind == "extend-parent"),
                                                         parent_info=Obj("ErrorInfo", dict(previous_value=self.vec(S, "prev")))))
        return {"self": Obj(self.qualname.split(".")[0], {}), "refine_object": ro, "norm": self.ordv, "volume_weights": None}

    def spec(self, S, old):
        f = old["refine_object"].fields
        if self.kind == "volume":
            terms = [z3.If(v >= 0, v, -v) for v in f["volume"].items]
        else:
            cur = f["sum_siblings"].items if self.kind == "extend-parent" else f["value"].items
            terms = [z3.If(a - b >= 0, a - b, b - a) for a, b in zip(cur, f["parent_info"].fields["previous_value"].items)]
        n = self.n
        scale = z3.RealVal(1) if isinstance(self.ordv, Inf) else (z3.RealVal(n) if self.ordv == 1 else P.sqrt_term(S.ex, z3.RealVal(n)))
        return P.norm_term(S.ex, terms, self.ordv) / scale

    def post(self, S, old, env, result):
        from pyvc import values as Vv
        r = Vv.to_z3(result, True)
        return [Cl("estimate-is-the-normalised-norm-of-the-absolute-values", r == self.spec(S, old), prop=True),
                Cl("estimate-never-negative", r >= 0, prop=True)]

    def model_to_input(self, model):
        from pyvc import modelparse as mp
        g = lambda k: mp.tofloat(mp.num(model.get(k, "0")))  # noqa
        names = {"volume": ("vol",), "extend": ("val", "prev"), "extend-parent": ("sib", "prev")}[self.kind]
        return {"kind": "C13.local_error", "estimator": self.kind, "n": self.n, "norm": "inf" if isinstance(self.ordv, Inf) else self.ordv,
                "vectors": {nm: [g("%s%d" % (nm, i)) for i in range(self.n)] for nm in names}}


CONTRACTS += [LocalErrorEstimate(k, n, o, t) for k in ("volume", "extend", "extend-parent") for n in (1, 2, 3) for o, t in ((1, "1"), (2, "2"), (Inf(1), "inf"))]
ASSUMPTIONS += ["local error estimators: vectors of length 1..3, norms 1/2/inf, no volume weights (the default of both strategies)"]


# --------------------------------------------------------------------------- the reported point count is the size of the integrand's evaluation cache
# C13: "the reported point count equals the number of distinct integrand evaluations performed".  The chain get_total_num_points -> Integration.get_distinct_points ->
# Function.get_f_dict_size is verified: the number the driver records is the cardinality of the key set of the integrand's cache; that this key set is exactly the set of
# distinct points evaluated since the reset is C12's contract of Function.__call__.
from pyvc import prelude as P13  # noqa: E402

FN_FILE = "sparseSpACE/Function.py"
U13 = P13.U


def _fobj(S):
    return Obj("Function", dict(f_dict=S.dict("f_dict", U13, U13)))


class FDictSize(Contract):
    model_to_input = staticmethod(lambda model: {"kind": "C13.point_count"})
    file, qualname = FN_FILE, "Function.get_f_dict_size"

    def inputs(self, S):
        return {"self": _fobj(S)}

    def result(self, S, env):
        return P13.card_of(env["self"].fields["f_dict"].dom)

    def post(self, S, old, env, result):
        from pyvc import values as Vv
        return [Cl("counter-is-the-number-of-cached-points", Vv.to_z3(result) == P13.card_of(old["self"].fields["f_dict"].dom), prop=True),
                Cl("cache-untouched", z3.And(env["self"].fields["f_dict"].dom == old["self"].fields["f_dict"].dom, env["self"].fields["f_dict"].val == old["self"].fields["f_dict"].val))]


class DistinctPoints(Contract):
    model_to_input = staticmethod(lambda model: {"kind": "C13.point_count"})
    file, qualname = GO_FILE, "Integration.get_distinct_points"

    def inputs(self, S):
        return {"self": Obj("Integration", dict(f=_fobj(S))), "combi_scheme": None}

    def result(self, S, env):
        return P13.card_of(env["self"].fields["f"].fields["f_dict"].dom)

    def post(self, S, old, env, result):
        from pyvc import values as Vv
        return [Cl("distinct-points-are-the-cached-points-of-the-integrand", Vv.to_z3(result) == P13.card_of(old["self"].fields["f"].fields["f_dict"].dom), prop=True)]


class TotalNumPointsDistinct(Contract):
    model_to_input = staticmethod(lambda model: {"kind": "C13.point_count"})
    file, qualname = "sparseSpACE/StandardCombi.py", "StandardCombi.get_total_num_points"
    label = "StandardCombi.get_total_num_points[distinct function evaluations]"

    def applies(self, receiver, args):
        return "operation" in receiver.fields and "ghost_E" not in receiver.fields

    def inputs(self, S):
        return {"self": Obj("StandardCombi", dict(operation=Obj("Integration", dict(f=_fobj(S))), scheme=None)), "doNaive": False, "distinct_function_evals": True}

    def post(self, S, old, env, result):
        from pyvc import values as Vv
        return [Cl("reported-point-count-is-the-number-of-cached-integrand-evaluations", Vv.to_z3(result) == P13.card_of(old["self"].fields["operation"].fields["f"].fields["f_dict"].dom), prop=True)]


for _c in CONTRACTS:
    if isinstance(_c, GetTotalNumPoints):
        _c.applies = lambda receiver, args: "ghost_E" in receiver.fields
CONTRACTS += [FDictSize(), DistinctPoints(), TotalNumPointsDistinct()]


# --------------------------------------------------------------------------- performSpatiallyAdaptiv: a run starts with an empty history; a refused request keeps the old one
# C13 speaks about the arrays an adaptive run returns (one entry per evaluation of the run).  Two facts about the entry point carry that across calls on one driver
# object: (i) when the driver loop is entered the history arrays are empty, so the loop's "L0 + (E - E0)" is the number of evaluations of THIS run; (ii) the argument
# validation (init_adaptive_combi: asserts) happens before the history of the previous run is cleared, so a request that is refused leaves that history intact and a
# later continue_adaptive_refinement still returns one entry per evaluation of the run it continues.
class InitAdaptiveCombi(Contract):
    file, qualname = FILE, "SpatiallyAdaptivBase.init_adaptive_combi"
    trusted = True
    note = ("abstract step: validates lmin / lmax (two leading asserts: may refuse with AssertionError before changing anything the contract below speaks about) and "
            "builds scheme / refinement / operation state; does not touch the history arrays")
    modifies = ("scheme", "lmax")

    def inputs(self, S):
        return {"self": driver(S, True), "lmin": Opaque(S.const("lmin_arg", P.U)), "lmax": Opaque(S.const("lmax_arg", P.U)),
                "refinement_container": None, "tol": S.real("tol")}

    def result(self, S, env):
        if S.ex.decide(S.bool("request_refused")):
            from pyvc.engine import RaiseEx
            raise RaiseEx("AssertionError", S.ex.fn)
        return None

    def havoc(self, S, cenv, tag):
        f = cenv["self"].fields
        f["ghost_init"] = f.get("ghost_init", 0) + 1        # ghost counter: how often the scheme / refinement state was (re)built in this call


class GetReferenceSolution(Contract):
    file, qualname = "sparseSpACE/GridOperation.py", "Integration.get_reference_solution"
    trusted = True
    note = "pure query of the operation"

    def inputs(self, S):
        return {"self": Obj("Integration", {})}

    def result(self, S, env):
        return Opaque(S.const("reference_solution", P.U))


class _DriverLoopForCallers(Contract):
    """caller-side form of continue_adaptive_refinement inside performSpatiallyAdaptiv: its precondition is what the entry point has to establish -- empty history arrays"""
    file, qualname = FILE, "SpatiallyAdaptivBase.continue_adaptive_refinement"
    trusted = True
    note = "proved separately (ContinueAdaptiveRefinement); here only its call-site precondition `the run starts with an empty history` and an opaque result are used"
    defaults = {"tol": None, "max_time": None, "max_evaluations": None, "min_evaluations": 1}

    def applies(self, receiver, args):
        return getattr(receiver, "entry_point_call", False)

    def inputs(self, S):
        return {"self": driver(S, True), "tol": S.real("tol"), "max_time": None, "max_evaluations": None, "min_evaluations": S.int("min_evaluations")}

    def pre(self, S, env):
        f = env["self"].fields
        n = [f[k].len() if isinstance(f[k], Seq) else None for k in ("error_array", "surplus_error_array", "num_point_array")]
        ok = all(x is not None for x in n)
        return [("the-run-starts-with-an-empty-history", z3.And(*[V(x) == 0 for x in n]) if ok else z3.BoolVal(False)),
                ("the-scheme-was-initialised-once-for-this-run", V(f.get("ghost_init", 0)) == 1)]

    def result(self, S, env):
        return Opaque(S.const("run_result", P.U))


class PerformSpatiallyAdaptiv(Contract):
    file, qualname = FILE, "SpatiallyAdaptivBase.performSpatiallyAdaptiv"
    total = False

    def inputs(self, S):
        s = driver(S, True)
        s.entry_point_call = True
        s.fields["ghost_init"] = 0
        op = lambda n: Opaque(S.const(n, P.U))  # noqa
        # whatever an earlier run left in the object (options, cached solution, interpolation-error histories)
        for k in ("test_scheme", "do_plot", "single_step", "print_output", "recalculate_frequently"):
            s.fields[k] = S.bool(k + "_before")
        for k in ("errorEstimator", "solutions_storage", "evaluation_points", "calculated_solution"):
            s.fields[k] = op(k + "_before")
        s.fields["interpolation_error_arrayL2"] = S.seq("ieL2_before", S.int("len_ieL2"), R)
        s.fields["interpolation_error_arrayMax"] = S.seq("ieMax_before", S.int("len_ieMax"), R)
        return {"self": s, "lmin": op("lmin_arg"), "lmax": op("lmax_arg"), "errorOperator": op("errorOperator"), "tol": S.real("tol"), "refinement_container": None,
                "do_plot": S.bool("do_plot_arg"), "recalculate_frequently": S.bool("recalculate_frequently"), "test_scheme": S.bool("test_scheme_arg"),
                "reevaluate_at_end": S.bool("reeval_arg"), "max_time": None, "max_evaluations": None, "print_output": S.bool("print_output_arg"),
                "min_evaluations": S.int("min_evaluations"), "solutions_storage": op("solutions_storage_arg"),
                "evaluation_points": op("evaluation_points_arg"), "single_step": S.bool("single_step_arg")}

    def post_raise(self, S, old, env, exc_name):
        if exc_name != "AssertionError":
            return None
        f, g = env["self"].fields, old["self"].fields
        same = []
        for k in ("error_array", "surplus_error_array", "num_point_array"):
            a_, b_ = f[k], g[k]
            if not (isinstance(a_, Seq) and isinstance(b_, Seq)):
                same.append(z3.BoolVal(False))
                continue
            if a_ is b_:
                continue
            try:
                arr_eq = a_.to_symbolic().arr == b_.to_symbolic().arr
            except z3.Z3Exception:      # a new list whose (absent) elements have another sort: equal to the old array exactly when both are empty
                arr_eq = V(a_.len()) == 0
            same.append(z3.And(V(a_.len()) == V(b_.len()), arr_eq))
        return [Cl("a-refused-request-keeps-the-history-of-the-previous-run", z3.And(*same) if same else z3.BoolVal(True), prop=True)]

    def post(self, S, old, env, result):
        f = env["self"].fields
        same = lambda a_, b_: (a_ is b_) or (isinstance(a_, Opaque) and isinstance(b_, Opaque) and a_.term is b_.term) or (not isinstance(a_, Opaque) and not isinstance(b_, Opaque) and (a_ is b_ or (z3.is_expr(a_) and z3.is_expr(b_) and a_.eq(b_))))  # noqa
        stored = [("errorEstimator", "errorOperator"), ("recalculate_frequently", "recalculate_frequently"), ("print_output", "print_output"), ("test_scheme", "test_scheme"),
                  ("reevaluate_at_end", "reevaluate_at_end"), ("do_plot", "do_plot"), ("solutions_storage", "solutions_storage"), ("evaluation_points", "evaluation_points"),
                  ("single_step", "single_step")]
        ok = all(k in f and same(f[k], old[a_]) for k, a_ in stored)
        fresh = all(isinstance(f.get(k), Seq) and f[k].concrete and len(f[k].items) == 0 for k in ("interpolation_error_arrayL2", "interpolation_error_arrayMax")) \
            and f.get("calculated_solution", 0) is None
        return [Cl("returns-what-the-driver-loop-returns", isinstance(result, Opaque), prop=False),
                Cl("the-options-of-the-request-are-the-options-of-the-run", ok),
                Cl("the-reference-of-the-run-is-the-operation's-reference", isinstance(f.get("reference_solution"), Opaque) and str(f["reference_solution"].term).startswith("reference_solution")),
                Cl("interpolation-error-histories-and-cached-solution-start-empty", fresh)]

    @staticmethod
    def model_to_input(model):
        return {"kind": "C13.refused_request"}


CONTRACTS = [_DriverLoopForCallers()] + CONTRACTS + [InitAdaptiveCombi(), GetReferenceSolution(), PerformSpatiallyAdaptiv()]
