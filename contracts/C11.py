"""Sidecar contracts for C11: Romberg extrapolation coefficients (sparseSpACE/Extrapolation.py: ExtrapolationCoefficients).
Loop-free for fixed (m, j): verified for every m <= 3, 0 <= j <= m, exponents 1 (linear), 2 (default) with symbolic interval [a,b].
The sliced / container weight path is dictionaries of floats keyed by coordinates: layer B only."""
from fractions import Fraction
import z3

from pyvc.book import Contract
from pyvc.engine import Cl
from pyvc.values import Obj
from pyvc import values as Vv
from pyvc import lemmas as L

FILE = "sparseSpACE/Extrapolation.py"


def romberg_constant(m, j, exponent):
    """Richardson/Romberg coefficient for step widths H/2^i:  prod_{i != j} (1/2^i)^e / ((1/2^i)^e - (1/2^j)^e)   (a rational constant)"""
    c = Fraction(1)
    for i in range(m + 1):
        if i != j:
            hi, hj = Fraction(1, 2 ** i) ** exponent, Fraction(1, 2 ** j) ** exponent
            c *= hi / (hi - hj)
    return c


class RombergCoefficient(Contract):
    file, qualname = FILE, "ExtrapolationCoefficients.get_romberg_coefficient"
    inline = ("ExtrapolationCoefficients.get_step_width", "get_step_width")

    def __init__(self, m, j, exponent):
        self.m, self.j, self.exponent = m, j, exponent
        self.label = "ExtrapolationCoefficients.get_romberg_coefficient[m=%d,j=%d,exponent=%d]" % (m, j, exponent)

    def inputs(self, S):
        a, b = S.real("a"), S.real("b")
        S.assume(a < b)
        return {"self": Obj("RombergDefaultCoefficients", dict(a=a, b=b)), "m": self.m, "j": self.j, "exponent": self.exponent}

    def post(self, S, old, env, result):
        c = romberg_constant(self.m, self.j, self.exponent)
        return [Cl("coefficient-is-the-richardson-constant-independent-of-the-interval", Vv.to_z3(result, True) == z3.RealVal(str(c)), prop=True)]


def _order_conditions():
    """the Richardson constants sum to 1 (=> weights sum to the interval length, constants exact) and annihilate the error terms
    h^(e*k), k=1..m (=> order 2m+2 for the trapezoidal rule with exponent 2); exact rational arithmetic, m <= 5"""
    goals = []
    for e in (1, 2):
        for m in range(0, 6):
            cs = [romberg_constant(m, j, e) for j in range(m + 1)]
            ok = sum(cs) == 1 and all(sum(c * Fraction(1, 2 ** j) ** (e * k) for j, c in enumerate(cs)) == 0 for k in range(1, m + 1))
            goals.append(([], z3.BoolVal(bool(ok))))
    return goals


CONTRACTS = [RombergCoefficient(m, j, e) for e in (1, 2) for m in range(0, 4) for j in range(m + 1)]
LEMMAS = [L.SmtLemma("romberg-constants-sum-to-one-and-cancel-error-terms", _order_conditions,
                     note="evaluated in exact rational arithmetic by the lemma builder (m <= 5); the SMT query only records the outcome")]
ASSUMPTIONS = ["machine floats treated as reals (A-REAL)", "fixed extrapolation depth m <= 3 for the code contracts (loop-free unrolling)",
               "slices, containers, binary-tree completion, balanced grids: layer B only (exhaustive over dyadic trees of depth <= 4)"]


# --------------------------------------------------------------------------- any extrapolation depth m and any j: loop invariant over the ghost product
from pyvc.book import Loop  # noqa: E402
from pyvc import prelude as P  # noqa: E402

I_, R_ = z3.IntSort(), z3.RealSort()


def ratio_factors(j, e):
    """array i -> P_j^e / (P_j^e - P_i^e) with P_i = 2^i (1 at i == j): the factors of the Richardson constant, free of the interval [a, b]"""
    i = z3.Int("ri")
    pj, pi = z3.ToReal(P.POW2(j)), z3.ToReal(P.POW2(i))
    pw = (lambda x: x) if e == 1 else (lambda x: x * x)
    return z3.Lambda([i], z3.If(i == j, z3.RealVal(1), pw(pj) / (pw(pj) - pw(pi))))


def pow2_monotone(n):
    """2^i < 2^k for 0 <= i < k <= n  (lemma pow2-strictly-monotone)"""
    i, k = z3.Ints("mi mk")
    return z3.ForAll([i, k], z3.Implies(z3.And(i >= 0, i < k, k <= n), z3.And(P.POW2(i) >= 1, P.POW2(i) < P.POW2(k))), patterns=[z3.MultiPattern(P.POW2(i), P.POW2(k))])


def _pow2_lemma():
    n, i = z3.Ints("n i")
    k = z3.Int("pk")
    ax = [P.POW2(0) == 1, z3.ForAll([k], z3.Implies(k >= 0, P.POW2(k + 1) == 2 * P.POW2(k)), patterns=[P.POW2(k + 1)])]
    claim = lambda m: z3.And(P.POW2(m) >= 1, z3.ForAll([i], z3.Implies(z3.And(i >= 0, i < m), z3.And(P.POW2(i) >= 1, P.POW2(i) < P.POW2(m)))))  # noqa
    return [(ax, claim(z3.IntVal(0))), (ax + [n >= 0, claim(n)], claim(n + 1))]


class RombergCoefficientAny(Contract):
    """any depth m >= 0 and any 0 <= j <= m: the coefficient is the product of the interval-free ratios 2^{je} / (2^{je} - 2^{ie}), i != j"""
    file, qualname = FILE, "ExtrapolationCoefficients.get_romberg_coefficient"
    inline = ("ExtrapolationCoefficients.get_step_width", "get_step_width")

    def __init__(self, exponent):
        self.exponent = exponent
        self.label = "ExtrapolationCoefficients.get_romberg_coefficient[any m, any j, exponent=%d]" % exponent

    def inputs(self, S):
        a, b = S.real("a"), S.real("b")
        S.assume(a < b)
        m, j = S.int("m"), S.int("j")
        S.assume(z3.And(m >= 0, j >= 0, j <= m))
        for ax in P.prod_axioms():
            S.assume(ax, "def:Prod")
        k = z3.Int("pk")
        S.assume(P.POW2(0) == 1, "def:pow2")
        S.assume(z3.ForAll([k], z3.Implies(k >= 0, P.POW2(k + 1) == 2 * P.POW2(k)), patterns=[P.POW2(k + 1)]), "def:pow2")
        return {"self": Obj("RombergDefaultCoefficients", dict(a=a, b=b)), "m": m, "j": j, "exponent": self.exponent}

    def inv(self, S, env, g):
        old = S.ex.old
        i, k2 = z3.Ints("qi qk")
        mono = z3.ForAll([i, k2], z3.Implies(z3.And(i >= 0, k2 >= 0, i != k2, i <= old["m"], k2 <= old["m"]), z3.And(P.POW2(i) >= 1, P.POW2(i) != P.POW2(k2))),
                         patterns=[z3.MultiPattern(P.POW2(i), P.POW2(k2))])
        L_ = old["self"].fields["b"] - old["self"].fields["a"]
        W = lambda t: L_ / z3.ToReal(P.POW2(t))  # noqa
        pw = (lambda x: x) if self.exponent == 1 else (lambda x: x * x)
        pj = z3.ToReal(P.POW2(old["j"]))

        def fact(t):
            pt = z3.ToReal(P.POW2(t))
            return z3.Implies(z3.And(t != old["j"], t >= 0, t <= old["m"]),
                              z3.And(pw(W(t)) - pw(W(old["j"])) != 0, pw(W(t)) / (pw(W(t)) - pw(W(old["j"]))) == pw(pj) / (pw(pj) - pw(pt))))
        kcur = g["k"] if not isinstance(g["k"], int) else z3.IntVal(g["k"])
        return [Cl("powers-of-two-distinct-and-positive", mono, by=[("pow2-strictly-monotone", self.mono_stmt(old["m"]))]),
                # the interval-free form of the ratio used by THIS iteration (instance of lemma romberg-ratio at (2^k, 2^j)): stated as an invariant so that it
                # is available to the division-safety obligation inside the body
                Cl("ratio-of-the-current-step-is-interval-free", fact(kcur), uses=["loop0/inv#powers-of-two", "loop0/entry#powers-of-two", "loop0/preserve#powers-of-two"],
                   by=[("romberg-ratio", ratio_stmt(L_, z3.ToReal(P.POW2(kcur)), pj, self.exponent))]),
                Cl("coefficient-so-far", Vv.to_z3(env["coefficient"], True) == P.PRODR(ratio_factors(old["j"], self.exponent), 0, g["k"]),
                   uses=["def:Prod", "loop0/inv#coefficient-so-far", "loop0/inv#ratio-of-the-current-step", "loop0/inv#interval-untouched"]),
                ("interval-untouched", z3.And(env["self"].fields["a"] == old["self"].fields["a"], env["self"].fields["b"] == old["self"].fields["b"],
                                              Vv.to_z3(env["h_j"], True) == (old["self"].fields["b"] - old["self"].fields["a"]) / z3.ToReal(P.POW2(old["j"]))))]

    @staticmethod
    def mono_stmt(m):
        i, k = z3.Ints("si sk")
        return z3.Implies(m >= 0, z3.ForAll([i, k], z3.Implies(z3.And(i >= 0, i < k, k <= m), z3.And(P.POW2(i) >= 1, P.POW2(k) >= 1, P.POW2(i) < P.POW2(k))),
                                            patterns=[z3.MultiPattern(P.POW2(i), P.POW2(k))]))

    @property
    def loops(self):
        return {0: Loop(inv=lambda S, env, g: self.inv(S, env, g))}

    def post(self, S, old, env, result):
        return [Cl("coefficient-is-the-product-of-interval-free-ratios-of-powers-of-two",
                   Vv.to_z3(result, True) == P.PRODR(ratio_factors(old["j"], self.exponent), 0, old["m"] + 1), prop=True)]


def ratio_stmt(L_, pi, pj, e):
    """(L/pi)^e / ((L/pi)^e - (L/pj)^e) == pj^e / (pj^e - pi^e)  for L > 0, pi, pj >= 1, pi != pj   (quantifier-free real arithmetic)"""
    pw = (lambda x: x) if e == 1 else (lambda x: x * x)
    hi, hj = L_ / pi, L_ / pj
    return z3.Implies(z3.And(L_ > 0, pi >= 1, pj >= 1, pi != pj),
                      z3.And(pw(hi) - pw(hj) != 0, pw(hi) / (pw(hi) - pw(hj)) == pw(pj) / (pw(pj) - pw(pi))))


def ratio_stmt_all(L_, m, e):
    x, y = z3.Reals("rx ry")
    return z3.ForAll([x, y], ratio_stmt(L_, x, y, e))


def _ratio_lemma():
    L_, x, y = z3.Reals("L rx ry")
    return [([], ratio_stmt(L_, x, y, 1)), ([], ratio_stmt(L_, x, y, 2))]


def _pow2_mono_lemma():
    """for every m >= 0: 2^i < 2^k whenever 0 <= i < k <= m, and all of them >= 1   (induction on m)"""
    m = z3.Int("m")
    k = z3.Int("pk")
    ax = [P.POW2(0) == 1, z3.ForAll([k], z3.Implies(k >= 0, P.POW2(k + 1) == 2 * P.POW2(k)), patterns=[P.POW2(k + 1)])]
    i, kk = z3.Ints("si sk")
    body = lambda mm: z3.ForAll([i, kk], z3.Implies(z3.And(i >= 0, i < kk, kk <= mm), z3.And(P.POW2(i) >= 1, P.POW2(kk) >= 1, P.POW2(i) < P.POW2(kk))))  # noqa
    pos = lambda mm: z3.ForAll([i], z3.Implies(z3.And(i >= 0, i <= mm), P.POW2(i) >= 1))  # noqa
    return [(ax, z3.And(body(z3.IntVal(0)), pos(z3.IntVal(0)))), (ax + [m >= 0, body(m), pos(m)], z3.And(body(m + 1), pos(m + 1)))]


CONTRACTS += [RombergCoefficientAny(1), RombergCoefficientAny(2)]
LEMMAS += [L.SmtLemma("romberg-ratio", _ratio_lemma, note="the ratio of step widths does not depend on the interval length (real arithmetic, exponent 1 and 2)"),
           L.SmtLemma("pow2-strictly-monotone", _pow2_mono_lemma, note="powers of two are positive and strictly increasing (induction)")]
ASSUMPTIONS += ["any-depth contract: ghost Prod and pow2 with their recursion axioms; exponent fixed to 1 or 2 (the two callers)"]
