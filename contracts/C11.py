"""Sidecar contracts for C11: Romberg extrapolation coefficients (sparseSpACE/Extrapolation.py: ExtrapolationCoefficients).
Loop-free for fixed (m, j): verified for every m <= 3, 0 <= j <= m, exponents 1 (linear), 2 (default) with symbolic interval [a,b].
The sliced / container weight path is dictionaries of floats keyed by coordinates: layer B only."""
from fractions import Fraction
import z3

from pyvc.book import Contract
from pyvc.engine import Cl
from pyvc.values import Obj
from pyvc import values as Vv
from pyvc import lemmas as L

FILE = "sparseSpACE/Extrapolation.py"


def romberg_constant(m, j, exponent):
    """Richardson/Romberg coefficient for step widths H/2^i:  prod_{i != j} (1/2^i)^e / ((1/2^i)^e - (1/2^j)^e)   (a rational constant)"""
    c = Fraction(1)
    for i in range(m + 1):
        if i != j:
            hi, hj = Fraction(1, 2 ** i) ** exponent, Fraction(1, 2 ** j) ** exponent
            c *= hi / (hi - hj)
    return c


class RombergCoefficient(Contract):
    file, qualname = FILE, "ExtrapolationCoefficients.get_romberg_coefficient"
    inline = ("ExtrapolationCoefficients.get_step_width", "get_step_width")

    def __init__(self, m, j, exponent):
        self.m, self.j, self.exponent = m, j, exponent
        self.label = "ExtrapolationCoefficients.get_romberg_coefficient[m=%d,j=%d,exponent=%d]" % (m, j, exponent)

    def inputs(self, S):
        a, b = S.real("a"), S.real("b")
        S.assume(a < b)
        return {"self": Obj("RombergDefaultCoefficients", dict(a=a, b=b)), "m": self.m, "j": self.j, "exponent": self.exponent}

    def post(self, S, old, env, result):
        c = romberg_constant(self.m, self.j, self.exponent)
        return [Cl("coefficient-is-the-richardson-constant-independent-of-the-interval", Vv.to_z3(result, True) == z3.RealVal(str(c)), prop=True)]


def _order_conditions():
    """the Richardson constants sum to 1 (=> weights sum to the interval length, constants exact) and annihilate the error terms
    h^(e*k), k=1..m (=> order 2m+2 for the trapezoidal rule with exponent 2); exact rational arithmetic, m <= 5"""
    goals = []
    for e in (1, 2):
        for m in range(0, 6):
            cs = [romberg_constant(m, j, e) for j in range(m + 1)]
            ok = sum(cs) == 1 and all(sum(c * Fraction(1, 2 ** j) ** (e * k) for j, c in enumerate(cs)) == 0 for k in range(1, m + 1))
            goals.append(([], z3.BoolVal(bool(ok))))
    return goals


CONTRACTS = [RombergCoefficient(m, j, e) for e in (1, 2) for m in range(0, 4) for j in range(m + 1)]
LEMMAS = [L.SmtLemma("romberg-constants-sum-to-one-and-cancel-error-terms", _order_conditions,
                     note="evaluated in exact rational arithmetic by the lemma builder (m <= 5); the SMT query only records the outcome")]
ASSUMPTIONS = ["machine floats treated as reals (A-REAL)", "fixed extrapolation depth m <= 3 for the code contracts (loop-free unrolling)",
               "slices, containers, binary-tree completion, balanced grids: layer B only (exhaustive over dyadic trees of depth <= 4)"]
