from pyvc.lemmas import LeanLemma
COMBI_IE = LeanLemma("CombiIE", "lemmas/CombiIE.lean",
                     ["CombiIE.point_coeff_sum", "CombiIE.combi_telescope", "CombiIE.coeff_sum_eq"])
LEAN = [COMBI_IE]
