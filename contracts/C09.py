"""Sidecar contracts for C09: GlobalTrapezoidalGrid.compute_weights (sparseSpACE/Grid.py), any number of points, any strictly
sorted grid.  Floats are reals (A-REAL)."""
import z3

from pyvc.book import Contract, Loop
from pyvc.engine import Cl
from pyvc.values import Seq, Obj
from pyvc import lemmas as L

FILE = "sparseSpACE/Grid.py"
I, R = z3.IntSort(), z3.RealSort()


def V(x):
    return z3.IntVal(x) if isinstance(x, int) else x


def hat_integral(x, n, j):
    """integral over [x_0, x_{n-1}] of the j-th piecewise-linear nodal hat function = half the length of its support"""
    left = z3.If(j > 0, (z3.Select(x, j) - z3.Select(x, j - 1)) / 2, z3.RealVal(0))
    right = z3.If(j < n - 1, (z3.Select(x, j + 1) - z3.Select(x, j)) / 2, z3.RealVal(0))
    return left + right


def hat_integral_modified(x, n, j):
    """n >= 5, boundary points carry no basis function, the first/last inner hats are extended linearly to the boundary
    (modified basis): integral of the j-th modified basis function over [x_0, x_{n-1}]  (DESIGN Appendix C-2)"""
    X = lambda i: z3.Select(x, i)  # noqa
    h = lambda i: X(i + 1) - X(i)  # noqa
    hb_l = X(2) - X(0)
    hb_r = X(n - 1) - X(n - 3)
    # left part of the weight (contribution of the interval(s) to the left of x_j)
    Lw = z3.If(j == 1, hb_l * hb_l / (2 * h(1)),
               z3.If(j == 2, hb_l - hb_l * hb_l / (2 * h(1)),
                     z3.If(z3.And(j >= 3, j != n - 2, j <= n - 1), h(j - 1) / 2, z3.RealVal(0))))
    Rw = z3.If(z3.And(j == n - 2, j > 1), hb_r * hb_r / (2 * h(n - 3)),
               z3.If(z3.And(j == n - 3, j > 1), hb_r - hb_r * hb_r / (2 * h(n - 3)),
                     z3.If(z3.And(j >= 0, j < n - 3, j != 1), h(j) / 2, z3.RealVal(0))))
    return z3.If(z3.Or(j <= 0, j >= n - 1), z3.RealVal(0), Lw + Rw)


def _model_to_input(modified):
    def conv(model):
        from pyvc import modelparse as mp
        n = mp.num(model.get("n", "5")) or 5
        if n > 400:
            return None
        xs = [mp.tofloat(v) for v in mp.seq(model, "grid_1D", n)]
        return {"kind": "C09.weights", "grid": xs, "modified": modified}
    return conv


def sorted_strict(x, n):
    i = z3.Int("ss")
    return z3.ForAll([i], z3.Implies(z3.And(i >= 0, i < n - 1), z3.Select(x, i) < z3.Select(x, i + 1)), patterns=[z3.Select(x, i)])


class ComputeWeights(Contract):
    """unmodified basis (boundary points carry hats)"""
    file, qualname = FILE, "GlobalTrapezoidalGrid.compute_weights"
    label = "GlobalTrapezoidalGrid.compute_weights[standard]"
    modified = False
    model_to_input = staticmethod(_model_to_input(False))

    def inputs(self, S):
        n = S.int("n")
        x = S.seq("grid_1D", n, R, kind="array")
        a, b = S.real("a"), S.real("b")
        return {"grid_1D": x, "a": a, "b": b, "modified_basis": self.modified}

    def pre(self, S, env):
        x, n = env["grid_1D"].arr, env["grid_1D"].len()
        return [("at-least-two-points", n >= 2), ("strictly-sorted", sorted_strict(x, n)),
                ("spans-the-interval", z3.And(z3.Select(x, 0) == env["a"], z3.Select(x, n - 1) == env["b"]))]

    def result(self, S, env):
        return S.seq("weights", env["grid_1D"].len(), R, kind="array")

    def spec(self, x, n, j):
        return hat_integral(x, n, j)

    def post(self, S, old, env, result):
        x, n = old["grid_1D"].arr, old["grid_1D"].len()
        if not isinstance(result, Seq):
            return [Cl("returns-array", False)]
        w = result.to_symbolic()
        j = z3.Int("wj")
        out = [Cl("returns-array", True),
               Cl("one-weight-per-point", V(w.len()) == n, prop=True),
               Cl("weight-is-integral-of-hat-function", z3.ForAll([j], z3.Implies(z3.And(j >= 0, j < n), z3.Select(w.arr, j) == self.spec(x, n, j))), prop=True),
               Cl("grid-untouched", env["grid_1D"].arr == x)]
        if not self.modified:
            out.append(Cl("weights-nonnegative", z3.ForAll([j], z3.Implies(z3.And(j >= 0, j < n), z3.Select(w.arr, j) >= 0)), prop=True))
        return out

    def inv(self, S, env, g):
        x, n = S.ex.old["grid_1D"].arr, S.ex.old["grid_1D"].len()
        w = env["weights"]
        k = g["k"]
        j = z3.Int("ij")
        return [("done-prefix", z3.ForAll([j], z3.Implies(z3.And(j >= 0, j < k), z3.Select(w.arr, j) == self.spec(x, n, j)), patterns=[z3.Select(w.arr, j)])),
                ("zero-suffix", z3.ForAll([j], z3.Implies(z3.And(j >= k, j < n), z3.Select(w.arr, j) == 0), patterns=[z3.Select(w.arr, j)])),
                ("length", V(w.len()) == n),
                ("grid-untouched", env["grid_1D"].arr == x)]

    @property
    def loops(self):
        return {0: Loop(inv=lambda S, env, g: self.inv(S, env, g))}


class ComputeWeightsModified(ComputeWeights):
    """modified basis, general branch (n >= 5).  The code's own +-1e-12 self-assert is turned into an obligation
    (must_hold): over the reals the weights sum to exactly b-a, so it can never fire."""
    label = "GlobalTrapezoidalGrid.compute_weights[modified,n>=5]"
    modified = True
    total = False   # the closing +-1e-12 self-assert on sum(weights[1:-1]) needs the sum of all loop results at once (not decided by the solvers; layer B exercises it)
    model_to_input = staticmethod(_model_to_input(True))

    def pre(self, S, env):
        return ComputeWeights.pre(self, S, env) + [("general-branch", env["grid_1D"].len() >= 5)]

    def spec(self, x, n, j):
        return hat_integral_modified(x, n, j)

    def inv(self, S, env, g):
        # inside the loop the two boundary entries still carry the half-interval contributions; they are zeroed after the loop
        saved = self.spec
        try:
            self.spec = lambda x, n, j: z3.If(j == 0, (z3.Select(x, 1) - z3.Select(x, 0)) / 2,
                                              z3.If(j == n - 1, (z3.Select(x, n - 1) - z3.Select(x, n - 2)) / 2, hat_integral_modified(x, n, j)))
            return ComputeWeights.inv(self, S, env, g)
        finally:
            del self.spec


class ComputeWeightsModified3(Contract):
    """modified basis, 3 points: a single inner point whose (constant) basis function integrates to b-a"""
    file, qualname = FILE, "GlobalTrapezoidalGrid.compute_weights"
    label = "GlobalTrapezoidalGrid.compute_weights[modified,n=3]"

    @staticmethod
    def model_to_input(model):
        from pyvc import modelparse as mp
        return {"kind": "C09.weights", "grid": [mp.tofloat(v) for v in mp.seq(model, "grid_1D", 3)], "modified": True}

    def inputs(self, S):
        x = S.seq("grid_1D", 3, R, kind="array")
        return {"grid_1D": x, "a": S.real("a"), "b": S.real("b"), "modified_basis": True}

    def pre(self, S, env):
        x = env["grid_1D"].arr
        return [("strictly-sorted", z3.And(z3.Select(x, 0) < z3.Select(x, 1), z3.Select(x, 1) < z3.Select(x, 2))),
                ("spans-the-interval", z3.And(z3.Select(x, 0) == env["a"], z3.Select(x, 2) == env["b"]))]

    def post(self, S, old, env, result):
        w = result.to_symbolic()
        a, b = old["a"], old["b"]
        return [Cl("weights", z3.And(z3.Select(w.arr, 0) == 0, z3.Select(w.arr, 1) == b - a, z3.Select(w.arr, 2) == 0), prop=True)]


class ComputeWeightsModified4(Contract):
    """modified basis, 4 points: the two inner basis functions are the linear Lagrange functions through x1, x2 on [a,b]:
    the rule is exact for constants and linear functions"""
    file, qualname = FILE, "GlobalTrapezoidalGrid.compute_weights"
    label = "GlobalTrapezoidalGrid.compute_weights[modified,n=4]"

    @staticmethod
    def model_to_input(model):
        from pyvc import modelparse as mp
        return {"kind": "C09.weights", "grid": [mp.tofloat(v) for v in mp.seq(model, "grid_1D", 4)], "modified": True}

    def inputs(self, S):
        x = S.seq("grid_1D", 4, R, kind="array")
        return {"grid_1D": x, "a": S.real("a"), "b": S.real("b"), "modified_basis": True}

    def pre(self, S, env):
        x = env["grid_1D"].arr
        X = lambda i: z3.Select(x, i)  # noqa
        return [("strictly-sorted", z3.And(X(0) < X(1), X(1) < X(2), X(2) < X(3))),
                ("spans-the-interval", z3.And(X(0) == env["a"], X(3) == env["b"]))]

    def post(self, S, old, env, result):
        w = result.to_symbolic()
        x = old["grid_1D"].arr
        a, b = old["a"], old["b"]
        W = lambda i: z3.Select(w.arr, i)  # noqa
        X = lambda i: z3.Select(x, i)  # noqa
        return [Cl("boundary-weights-zero", z3.And(W(0) == 0, W(3) == 0), prop=True),
                Cl("constants-exact", W(1) + W(2) == b - a, prop=True),
                Cl("linear-exact", W(1) * X(1) + W(2) * X(2) == (b * b - a * a) / 2, prop=True)]


# --------------------------------------------------------------------------- lemmas (layer L)
def _trapezoid_sum_lemma():
    """SMT induction: with  W(j) = hat_integral (unmodified),   sum_{j<=m} W_m(j) f_j  ==  sum_{j<m} h_j (f_j+f_{j+1})/2.
    Encoded with prefix sums T (interior-weight sum) and A (trapezoid sum), see DESIGN Appendix C-2:
        T(0)=0, T(m+1)=T(m)+(Lw(m)+h_m/2) f_m ;   A(0)=0, A(m+1)=A(m)+h_m (f_m+f_{m+1})/2 ;   claim  T(m)+Lw(m) f_m == A(m)."""
    x = z3.Function("x", I, R)
    f = z3.Function("f", I, R)
    T = z3.Function("T", I, R)
    A = z3.Function("A", I, R)
    m = z3.Int("m")
    h = lambda i: x(i + 1) - x(i)  # noqa
    Lw = lambda i: z3.If(i > 0, h(i - 1) / 2, z3.RealVal(0))  # noqa
    defs = [T(0) == 0, A(0) == 0,
            T(m + 1) == T(m) + (Lw(m) + h(m) / 2) * f(m),
            A(m + 1) == A(m) + h(m) * (f(m) + f(m + 1)) / 2]
    claim = lambda k: T(k) + Lw(k) * f(k) == A(k)  # noqa
    base = ([T(0) == 0, A(0) == 0], claim(z3.IntVal(0)))
    step = ([m >= 0] + defs + [claim(m)], claim(m + 1))
    return [base, step]


def _linear_exact_lemma():
    """for f linear the trapezoid sum of every interval is its exact integral:  h (f(x0)+f(x1))/2 == integral of c0+c1 x over [x0,x1]"""
    x0, x1, c0, c1 = z3.Reals("x0 x1 c0 c1")
    f = lambda t: c0 + c1 * t  # noqa
    return [([], (x1 - x0) * (f(x0) + f(x1)) / 2 == c0 * (x1 - x0) + c1 * (x1 * x1 - x0 * x0) / 2)]


def _modified_end_lemma():
    """modified basis, left end (right end is the mirror image): the two weights next to the boundary integrate the linear
    extrapolation of (x1,f1),(x2,f2) exactly over [x0,x2]:  w1 f1 + w2 f2 == integral_{x0}^{x2} line(t) dt"""
    x0, x1, x2, f1, f2 = z3.Reals("x0 x1 x2 f1 f2")
    hb, ha = x2 - x0, x2 - x1
    w1 = hb * hb / (2 * ha)
    w2 = hb - hb * hb / (2 * ha)
    slope = (f2 - f1) / ha
    # integral of f1 + slope (t - x1) over [x0, x2]
    integral = f1 * hb + slope * ((x2 - x1) * (x2 - x1) - (x0 - x1) * (x0 - x1)) / 2
    return [([x0 < x1, x1 < x2], w1 * f1 + w2 * f2 == integral)]


CONTRACTS = [ComputeWeights(), ComputeWeightsModified(), ComputeWeightsModified3(), ComputeWeightsModified4()]
LEMMAS = [L.SmtLemma("trapezoid-sum-equals-piecewise-linear-integral", _trapezoid_sum_lemma,
                     note="induction schema (base + step) over the number of intervals, uninterpreted grid x and nodal values f"),
          L.SmtLemma("trapezoid-exact-for-linear", _linear_exact_lemma),
          L.SmtLemma("modified-basis-end-weights-integrate-linear-extrapolation", _modified_end_lemma)]
ASSUMPTIONS = ["machine floats treated as reals (A-REAL)", "np.zeros(n) is an array of n zeros; a[i] += v updates exactly index i (prelude)",
               "GlobalSimpson/HighOrder/Lagrange/BSpline global rules: layer B only"]


# --------------------------------------------------------------------------- GlobalGrid.set_grid: the tensor structure around the 1-D rule (1-2 dimensions)
class Quad1D(Contract):
    """caller-side form of compute_1D_quad_weights: one weight per point of the 1-D grid handed in (the values are what the contracts above are about)"""
    file, qualname = FILE, "GlobalGrid.compute_1D_quad_weights"
    trusted = True
    note = "abstract method of the global grid families (GlobalTrapezoidalGrid: compute_weights above): returns one weight per point"

    def inputs(self, S):
        return {"self": Obj("GlobalTrapezoidalGrid", {}), "grid_1D": S.seq("g1", S.int("g1.len"), R, kind="array"), "a": S.real("qa"), "b": S.real("qb"), "d": S.int("qd"), "grid_levels_1D": None}

    def result(self, S, env):
        g = env["grid_1D"]
        w = S.seq("quad_weights", g.len(), R, kind="array")
        S.ex.ghost.setdefault("quad", []).append((env["d"], g, w))
        return w


class SetGrid(Contract):
    """GlobalGrid.set_grid (1-2 dimensions, any number of points per dimension): per dimension the grid keeps the handed-in points with the weights computed for
    exactly these points, one weight and one level per kept point; without boundary points exactly the first and the last point (with their weights and levels) are dropped"""
    file, qualname = FILE, "GlobalGrid.set_grid"

    def __init__(self, ndim, boundary):
        self.ndim, self.boundary = ndim, boundary
        self.label = "GlobalGrid.set_grid[dims=%d, boundary %s]" % (ndim, "on" if boundary else "off")

    def applies(self, receiver, args):
        return False

    def inputs(self, S):
        nd = self.ndim
        pts, lvs = [], []
        for d in range(nd):
            n = S.int("n%d" % d)
            pts.append(S.seq("points%d" % d, n, R, kind="array"))
            lvs.append(S.seq("levels%d" % d, n, I, kind="array"))
        return {"self": Obj("GlobalTrapezoidalGrid", dict(dim=nd, boundary=self.boundary, a=Seq("array", [S.real("a%d" % d) for d in range(nd)]), b=Seq("array", [S.real("b%d" % d) for d in range(nd)]),
                                                          modified_basis=S.bool("modified_basis"))),
                "grid_points": Seq("list", pts), "grid_levels": Seq("list", lvs)}

    def pre(self, S, env):
        out = []
        for d in range(self.ndim):
            n = env["grid_points"].items[d].len()
            out.append(("enough-points-%d" % d, n >= (1 if self.boundary else 2)))
            i = z3.Int("srt%d" % d)
            x = env["grid_points"].items[d].arr
            out.append(("sorted-%d" % d, z3.ForAll([i], z3.Implies(z3.And(i >= 0, i < n - 1), z3.Select(x, i) <= z3.Select(x, i + 1)), patterns=[z3.Select(x, i)])))
        return out

    def post(self, S, old, env, result):
        f = env["self"].fields
        need = ("coordinate_array", "weights", "levels", "numPoints", "numPointsWithBoundary")
        ok = all(isinstance(f.get(k), Seq) and f[k].concrete and len(f[k].items) == self.ndim for k in need)
        if not ok:
            return [Cl("keeps-points-weights-levels-and-counts-per-dimension", False, prop=True)]
        quad = S.ex.ghost.get("quad", [])
        out = [Cl("keeps-points-weights-levels-and-counts-per-dimension", True, prop=True),
               Cl("one-weight-computation-per-dimension", len(quad) == self.ndim and all(isinstance(q[0], int) and q[0] == d for d, q in enumerate(quad)), prop=True)]
        if len(quad) != self.ndim:
            return out
        i = z3.Int("gi")
        off = 0 if self.boundary else 1
        for d in range(self.ndim):
            p0, l0 = old["grid_points"].items[d], old["grid_levels"].items[d]
            n0 = V(p0.len())
            kept = n0 if self.boundary else n0 - 2
            _, g_in, w_all = quad[d]
            vals = [f[k].items[d] for k in ("coordinate_array", "weights", "levels")]
            if not all(isinstance(v, Seq) for v in vals):
                out.append(Cl("dimension-%d-holds-sequences" % d, False, prop=True))
                continue
            c, w, l = [v.to_symbolic() for v in vals]
            rng = z3.And(i >= 0, i < kept)
            cwb = f.get("coordinate_array_with_boundary")
            cwb_ok = isinstance(cwb, Seq) and cwb.concrete and len(cwb.items) == self.ndim and isinstance(cwb.items[d], Seq)
            out.append(Cl("all-handed-in-points-kept-as-the-coordinates-with-boundary[dim %d]" % d,
                          z3.And(V(cwb.items[d].to_symbolic().len()) == n0, z3.ForAll([i], z3.Implies(z3.And(i >= 0, i < n0), z3.Select(cwb.items[d].to_symbolic().arr, i) == z3.Select(p0.arr, i)))) if cwb_ok else False))
            out += [Cl("weights-are-computed-for-exactly-the-handed-in-points[dim %d]" % d, z3.And(V(g_in.len()) == n0, z3.ForAll([i], z3.Implies(z3.And(i >= 0, i < n0), z3.Select(g_in.to_symbolic().arr, i) == z3.Select(p0.arr, i)))), prop=True),
                    Cl("as-many-points-weights-and-levels-as-reported[dim %d]" % d, z3.And(V(c.len()) == kept, V(w.len()) == kept, V(l.len()) == kept, V(f["numPoints"].items[d]) == kept,
                                                                                              V(f["numPointsWithBoundary"].items[d]) == n0), prop=True),
                    Cl("kept-points-are-the-handed-in-points%s[dim %d]" % ("" if self.boundary else "-without-the-two-boundary-points", d),
                       z3.ForAll([i], z3.Implies(rng, z3.Select(c.arr, i) == z3.Select(p0.arr, i + off))), prop=True),
                    Cl("each-kept-point-keeps-its-own-weight-and-level[dim %d]" % d,
                       z3.ForAll([i], z3.Implies(rng, z3.And(z3.Select(w.arr, i) == z3.Select(w_all.arr, i + off), z3.Select(l.arr, i) == z3.Select(l0.arr, i + off)))), prop=True)]
        return out

    def model_to_input(self, model):
        return {"kind": "C09.set_grid", "ndim": self.ndim, "boundary": self.boundary}


CONTRACTS += [Quad1D()] + [SetGrid(nd, bd) for nd in (1, 2) for bd in (True, False)]
ASSUMPTIONS += ["GlobalGrid.set_grid: 1-2 dimensions (loops over the dimensions unrolled), any number of points per dimension; compute_1D_quad_weights abstract (one weight per point)"]
