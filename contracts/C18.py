"""Sidecar contracts for C18: DataSet.split_pieces (sparseSpACE/DEMachineLearning.py).  Samples are opaque rows; the sklearn / numpy based
scaling bookkeeping is outside the verified subset (layer B)."""
import z3

from pyvc.book import Contract
from pyvc.engine import Cl
from pyvc.values import Seq, Obj
from pyvc import prelude as P

FILE = "sparseSpACE/DEMachineLearning.py"
I, R, U = z3.IntSort(), z3.RealSort(), P.U


def dataset(S, tag=""):
    n = S.int("n" + tag)
    S.assume(n >= 0)
    samples = S.seq("samples" + tag, n, U, kind="array")
    labels = S.seq("labels" + tag, n, R, kind="array")
    return Obj("DataSet", dict(_data=Seq("tuple", [samples, labels]), _dim=S.int("dim" + tag), _scaled=S.bool("scaled" + tag)))


class DataSetInit(Contract):
    file, qualname = FILE, "DataSet.__init__"
    trusted = True
    note = "constructor: stores the given (samples, labels) pair as the data of the new set (numpy validation not modelled)"

    def inputs(self, S):
        return {"self": Obj("DataSet", {}), "raw_data": Seq("tuple", [S.seq("s", 0, U), S.seq("l", 0, R)])}

    def init_fields(self, S, cenv):
        raw = cenv["raw_data"]
        return {"_data": raw, "_dim": S.int("newdim"), "_scaled": False}


class GetLength(Contract):
    file, qualname = FILE, "DataSet.get_length"
    trusted = True
    note = "number of samples == number of rows of the sample array (size/dim with the class's own consistency assert)"

    def inputs(self, S):
        return {"self": dataset(S)}

    def result(self, S, env):
        return env["self"].fields["_data"].items[0].len()


class UpdateInternal(Contract):
    file, qualname = FILE, "DataSet._update_internal"
    trusted = True
    note = "copies the scaling attributes to the given set; does not touch either set's data"

    def inputs(self, S):
        return {"self": dataset(S), "to_update": dataset(S, "2")}

    def result(self, S, env):
        return env["to_update"]


class SplitPieces(Contract):
    file, qualname = FILE, "DataSet.split_pieces"

    def inputs(self, S):
        return {"self": dataset(S), "percentage": S.real("percentage")}

    def post(self, S, old, env, result):
        ok = isinstance(result, Seq) and result.concrete and len(result.items) == 2 and all(isinstance(x, Obj) and isinstance(x.fields.get("_data"), Seq) for x in result.items)
        if not ok:
            return [Cl("returns-two-sets", False, prop=True)]
        s, l = [x.to_symbolic() for x in old["self"].fields["_data"].items]
        n = s.len()
        (s0, l0), (s1, l1) = [[y.to_symbolic() for y in x.fields["_data"].items] for x in result.items]
        k = s0.len()
        i = z3.Int("spi")
        V = lambda x: z3.IntVal(x) if isinstance(x, int) else x  # noqa
        k, n = V(k), V(n)
        return [Cl("returns-two-sets", True, prop=True),
                Cl("pieces-cover-the-set-without-overlap", z3.And(k >= 0, k <= n, V(l0.len()) == k, V(s1.len()) == n - k, V(l1.len()) == n - k), prop=True),
                Cl("first-piece-is-the-prefix-labels-attached", z3.ForAll([i], z3.Implies(z3.And(i >= 0, i < k), z3.And(z3.Select(s0.arr, i) == z3.Select(s.arr, i), z3.Select(l0.arr, i) == z3.Select(l.arr, i)))), prop=True),
                Cl("second-piece-is-the-suffix-labels-attached", z3.ForAll([i], z3.Implies(z3.And(i >= 0, i < n - k), z3.And(z3.Select(s1.arr, i) == z3.Select(s.arr, i + k), z3.Select(l1.arr, i) == z3.Select(l.arr, i + k)))), prop=True),
                Cl("receiver-data-unchanged", z3.And(*[a.to_symbolic().arr == b.to_symbolic().arr for a, b in zip(env["self"].fields["_data"].items, old["self"].fields["_data"].items)]))]


CONTRACTS = [DataSetInit(), GetLength(), UpdateInternal(), SplitPieces()]
LEMMAS = []
ASSUMPTIONS = ["samples are opaque rows (no arithmetic on them in split_pieces)", "round(x) is a deterministic integer within 1/2 of x",
               "scaling / revert / shuffle / concatenate / remove: numpy + sklearn based, layer B only"]
