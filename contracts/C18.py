"""Sidecar contracts for C18: DataSet.split_pieces (sparseSpACE/DEMachineLearning.py).  Samples are opaque rows; the sklearn / numpy based
scaling bookkeeping is outside the verified subset (layer B)."""
import z3

from pyvc.book import Contract
from pyvc.engine import Cl
from pyvc.values import Seq, Obj
from pyvc import prelude as P

FILE = "sparseSpACE/DEMachineLearning.py"
I, R, U = z3.IntSort(), z3.RealSort(), P.U


ATTRS = ("_label", "_shuffled", "_scaling_range", "_scaling_factor")     # opaque attribute values copied by reference


def dataset(S, tag=""):
    from pyvc.values import Opaque
    n = S.int("n" + tag)
    S.assume(n >= 0)
    samples = S.seq("samples" + tag, n, U, kind="array")
    labels = S.seq("labels" + tag, n, R, kind="array")
    d = S.int("dim" + tag)
    f = dict(_data=Seq("tuple", [samples, labels]), _dim=d, _scaled=S.bool("scaled" + tag),
             _original_min=S.seq("original_min" + tag, d, R, kind="array"), _original_max=S.seq("original_max" + tag, d, R, kind="array"))
    for a in ATTRS:
        f[a] = Opaque(S.const(a + tag, U))
    return Obj("DataSet", f)


def attrs_equal(a, b):
    """the scaling attributes of data set a equal those of b (values; the per-dimension original minima / maxima element-wise)"""
    fa, fb = a.fields, b.fields
    out = []
    for k in ATTRS:
        if k not in fa or k not in fb:
            return False
        out.append(fa[k].term == fb[k].term)
    if "_scaled" not in fa or not isinstance(fa.get("_original_min"), Seq) or not isinstance(fa.get("_original_max"), Seq):
        return False
    out.append(fa["_scaled"] == fb["_scaled"] if not (isinstance(fa["_scaled"], bool) and isinstance(fb["_scaled"], bool)) else z3.BoolVal(fa["_scaled"] == fb["_scaled"]))
    for k in ("_original_min", "_original_max"):
        x, y = fa[k].to_symbolic(), fb[k].to_symbolic()
        out.append(z3.And(x.arr == y.arr, (x.len() == y.len()) if not (isinstance(x.len(), int) and isinstance(y.len(), int)) else z3.BoolVal(x.len() == y.len())))
    return z3.And(*out)


class DataSetInit(Contract):
    file, qualname = FILE, "DataSet.__init__"
    trusted = True
    note = "constructor: stores the given (samples, labels) pair as the data of the new set (numpy validation not modelled)"

    def inputs(self, S):
        return {"self": Obj("DataSet", {}), "raw_data": Seq("tuple", [S.seq("s", 0, U), S.seq("l", 0, R)])}

    def init_fields(self, S, cenv):
        raw = cenv["raw_data"]
        from pyvc.values import Opaque
        f = {"_data": raw, "_dim": S.int("newdim"), "_scaled": False, "_original_min": S.seq("new.original_min", 0, R, kind="array"),
             "_original_max": S.seq("new.original_max", 0, R, kind="array")}
        for a in ATTRS:
            f[a] = Opaque(S.const("new" + a, U))
        return f


class GetLength(Contract):
    file, qualname = FILE, "DataSet.get_length"
    trusted = True
    note = "number of samples == number of rows of the sample array (size/dim with the class's own consistency assert)"

    def inputs(self, S):
        return {"self": dataset(S)}

    def result(self, S, env):
        return env["self"].fields["_data"].items[0].len()


class UpdateInternal(Contract):
    """DataSet._update_internal: afterwards the given set carries the receiver's scaling attributes (for a scaled receiver the original minima / maxima
    as its OWN arrays); neither set's samples or labels are touched; the given set is returned"""
    file, qualname = FILE, "DataSet._update_internal"

    def inputs(self, S):
        return {"self": dataset(S), "to_update": dataset(S, "2")}

    def havoc(self, S, cenv, tag):
        # caller-side effect (proved below as the function's own postcondition): attributes of the argument become the receiver's
        t, s_ = cenv["to_update"].fields, cenv["self"].fields
        for a in ATTRS:
            t[a] = s_[a]
        t["_scaled"] = s_["_scaled"]
        for k in ("_original_min", "_original_max"):
            src = s_[k].to_symbolic()
            t[k] = Seq("array", None, src.len(), src.arr)

    def result(self, S, env):
        return env["to_update"]

    def post(self, S, old, env, result):
        t, s_ = env["to_update"], env["self"]
        own = all(t.fields.get(k) is not s_.fields.get(k) for k in ("_original_min", "_original_max"))
        scaled = old["self"].fields["_scaled"]
        return [Cl("argument-carries-the-receivers-scaling-attributes", attrs_equal(t, old["self"]), prop=True),
                Cl("returns-the-argument", result is env["to_update"]),
                Cl("original-extrema-are-own-copies-when-scaled", z3.Implies(scaled, z3.BoolVal(own)) if not isinstance(scaled, bool) else (own or not scaled)),
                Cl("data-of-both-sets-untouched", z3.And(*[a.to_symbolic().arr == b.to_symbolic().arr for x in ("self", "to_update")
                                                          for a, b in zip(env[x].fields["_data"].items, old[x].fields["_data"].items)]))]


class SplitPieces(Contract):
    file, qualname = FILE, "DataSet.split_pieces"

    def inputs(self, S):
        return {"self": dataset(S), "percentage": S.real("percentage")}

    def post(self, S, old, env, result):
        ok = isinstance(result, Seq) and result.concrete and len(result.items) == 2 and all(isinstance(x, Obj) and isinstance(x.fields.get("_data"), Seq) for x in result.items)
        if not ok:
            return [Cl("returns-two-sets", False, prop=True)]
        s, l = [x.to_symbolic() for x in old["self"].fields["_data"].items]
        n = s.len()
        (s0, l0), (s1, l1) = [[y.to_symbolic() for y in x.fields["_data"].items] for x in result.items]
        k = s0.len()
        i = z3.Int("spi")
        V = lambda x: z3.IntVal(x) if isinstance(x, int) else x  # noqa
        k, n = V(k), V(n)
        return [Cl("returns-two-sets", True, prop=True),
                Cl("pieces-cover-the-set-without-overlap", z3.And(k >= 0, k <= n, V(l0.len()) == k, V(s1.len()) == n - k, V(l1.len()) == n - k), prop=True),
                Cl("first-piece-is-the-prefix-labels-attached", z3.ForAll([i], z3.Implies(z3.And(i >= 0, i < k), z3.And(z3.Select(s0.arr, i) == z3.Select(s.arr, i), z3.Select(l0.arr, i) == z3.Select(l.arr, i)))), prop=True),
                Cl("second-piece-is-the-suffix-labels-attached", z3.ForAll([i], z3.Implies(z3.And(i >= 0, i < n - k), z3.And(z3.Select(s1.arr, i) == z3.Select(s.arr, i + k), z3.Select(l1.arr, i) == z3.Select(l.arr, i + k)))), prop=True),
                Cl("both-pieces-carry-the-scaling-attributes", z3.And(attrs_equal(result.items[0], old["self"]), attrs_equal(result.items[1], old["self"])), prop=True),
                Cl("receiver-data-unchanged", z3.And(*[a.to_symbolic().arr == b.to_symbolic().arr for a, b in zip(env["self"].fields["_data"].items, old["self"].fields["_data"].items)]))]


CONTRACTS = [DataSetInit(), GetLength(), UpdateInternal(), SplitPieces()]
LEMMAS = []
ASSUMPTIONS = ["samples are opaque rows (no arithmetic on them in split_pieces)", "round(x) is a deterministic integer within 1/2 of x",
               "scaling / revert / shuffle / concatenate / remove: numpy + sklearn based, layer B only"]


# --------------------------------------------------------------------------- concatenate / list_concatenate: rows and labels are appended in order, attributes carried
SAMESC = z3.Function("same_scaling", z3.BoolSort(), U, U, z3.BoolSort(), U, U, z3.BoolSort())


def samesc(a, b):
    fa, fb = a.fields, b.fields
    tb = lambda x: x if not isinstance(x, bool) else z3.BoolVal(x)  # noqa
    return SAMESC(tb(fa["_scaled"]), fa["_scaling_range"].term, fa["_scaling_factor"].term, tb(fb["_scaled"]), fb["_scaling_range"].term, fb["_scaling_factor"].term)


class SameScaling(Contract):
    file, qualname = FILE, "DataSet.same_scaling"
    trusted = True
    note = "compares the scaled flags, scaling ranges and scaling factors of two sets (numpy / Iterable based): an uninterpreted predicate of these six values, reflexive"

    def inputs(self, S):
        return {"self": dataset(S), "to_check": dataset(S, "2")}

    def result(self, S, env):
        s, r, f = z3.Bool("rs"), z3.Const("rr", U), z3.Const("rf", U)
        S.assume(z3.ForAll([s, r, f], SAMESC(s, r, f, s, r, f)), "def:same_scaling-reflexive")
        return samesc(env["self"], env["to_check"])


class IsEmpty(Contract):
    file, qualname = FILE, "DataSet.is_empty"
    trusted = True
    note = "sample array has size 0, i.e. the set has no rows"

    def inputs(self, S):
        return {"self": dataset(S)}

    def result(self, S, env):
        n = env["self"].fields["_data"].items[0].len()
        return (n == 0) if not isinstance(n, int) else (n == 0)


def rows(ds):
    return [x.to_symbolic() for x in ds.fields["_data"].items]


def appended(res, a, b):
    """res == a ++ b for samples and labels alike (labels stay attached to their samples)"""
    (rs, rl), (as_, al), (bs, bl) = rows(res), rows(a), rows(b)
    VV = lambda x: z3.IntVal(x) if isinstance(x, int) else x  # noqa
    na, nb = VV(as_.len()), VV(bs.len())
    i = z3.Int("ci")
    return z3.And(VV(rs.len()) == na + nb, VV(rl.len()) == na + nb,
                  z3.ForAll([i], z3.Implies(z3.And(i >= 0, i < na), z3.And(z3.Select(rs.arr, i) == z3.Select(as_.arr, i), z3.Select(rl.arr, i) == z3.Select(al.arr, i)))),
                  z3.ForAll([i], z3.Implies(z3.And(i >= 0, i < nb), z3.And(z3.Select(rs.arr, na + i) == z3.Select(bs.arr, i), z3.Select(rl.arr, na + i) == z3.Select(bl.arr, i)))))


class Concatenate(Contract):
    """DataSet.concatenate: the result holds the receiver's rows followed by the argument's rows with their labels, carries the receiver's scaling attributes,
    and neither input is modified; data sets with different scalings are refused"""
    file, qualname = FILE, "DataSet.concatenate"
    inline = ("DataSet.get_dim", "get_dim", "DataSet.__getitem__", "__getitem__")
    total = False       # refusing (ValueError) is part of the contract: different dimensions of two non-empty sets, different scalings

    def inputs(self, S):
        return {"self": dataset(S), "other_dataset": dataset(S, "2")}

    def post_raise(self, S, old, env, exc_name):
        if exc_name != "ValueError":
            return None
        a, b = old["self"], old["other_dataset"]
        na, nb = a.fields["_data"].items[0].len(), b.fields["_data"].items[0].len()
        return [Cl("refusal-leaves-both-sets-untouched", z3.And(*[x.to_symbolic().arr == y.to_symbolic().arr for k in ("self", "other_dataset")
                                                                 for x, y in zip(env[k].fields["_data"].items, old[k].fields["_data"].items)]), prop=True),
                Cl("refused-only-for-different-dimensions-or-scalings", z3.Or(z3.And(a.fields["_dim"] != b.fields["_dim"], na != 0, nb != 0), z3.Not(samesc(a, b)),
                                                                              z3.Not(samesc(a, a))))]

    def post(self, S, old, env, result):
        a, b = old["self"], old["other_dataset"]
        if result is env["self"] or result is env["other_dataset"]:
            # degenerate branch: one of the sets is empty and has another dimension; the other one is handed back
            other = b if result is env["self"] else a
            return [Cl("an-input-is-returned-only-when-the-other-one-is-empty", other.fields["_data"].items[0].len() == 0, prop=True)]
        ok = isinstance(result, Obj) and isinstance(result.fields.get("_data"), Seq) and len(result.fields["_data"].items) == 2
        if not ok:
            return [Cl("returns-a-data-set", False, prop=True)]
        return [Cl("returns-a-data-set", True, prop=True),
                Cl("rows-of-the-receiver-then-rows-of-the-argument-labels-attached", appended(result, a, b), prop=True),
                Cl("result-carries-the-receivers-scaling-attributes", attrs_equal(result, a), prop=True),
                Cl("inputs-untouched", z3.And(*[x.to_symbolic().arr == y.to_symbolic().arr for k in ("self", "other_dataset")
                                                for x, y in zip(env[k].fields["_data"].items, old[k].fields["_data"].items)]), prop=True),
                Cl("different-scalings-are-refused", samesc(a, b), prop=True)]

    @staticmethod
    def model_to_input(model):
        return {"kind": "C18.concatenate"}


CONTRACTS += [SameScaling(), IsEmpty(), Concatenate()]
ASSUMPTIONS += ["np.concatenate of two sequences is their concatenation in order (prelude); same_scaling is an uninterpreted reflexive predicate of (scaled flag, scaling range, scaling factor) of the two sets"]
