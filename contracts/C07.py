"""Sidecar contracts for C07: extend-split areas (sparseSpACE/RefinementObject.py: RefinementObjectExtendSplit).
The split functions are loop-free for a fixed dimension: they are verified for each d in {1,2,3} with fully symbolic
coordinates (complete for those d; the bound on d is stated in the evidence)."""
import itertools
import z3

from pyvc.book import Contract
from pyvc.engine import Cl
from pyvc.values import Seq, Obj

FILE = "sparseSpACE/RefinementObject.py"
INLINE = ("RefinementObjectExtendSplit.__init__", "ErrorInfo.__init__", "Grid.is_high_order_grid", "is_high_order_grid", "Grid.get_mid_point", "Grid1d.get_mid_point", "get_mid_point",
          "RefinementObjectExtendSplit.set_twin", "set_twin")


def V(x):
    return z3.IntVal(x) if isinstance(x, int) else x


def area(S, dim, **over):
    start = Seq("list", [S.real("s%d" % k) for k in range(dim)])
    end = Seq("list", [S.real("e%d" % k) for k in range(dim)])
    grid = Obj("TrapezoidalGrid", dict(boundary=True, dim=dim, grids=Seq("list", [Obj("TrapezoidalGrid1D", dict(boundary=True)) for _ in range(dim)])))
    f = dict(start=start, end=end, dim=dim, coarseningValue=S.int("coarseningValue"), needExtendScheme=S.int("needExtendScheme"),
             numberOfRefinementsBeforeExtend=S.int("numberOfRefinementsBeforeExtend"), evaluations=0, value=None, levelvec_dict={}, grid=grid,
             twins=Seq("list", [None] * dim), error=None, twinErrors=Seq("list", [None] * dim), splitSingleDim=False, automatic_extend_split=False,
             parent_info=Obj("ErrorInfo", dict(parent=None, level_parent=-1, num_points_split_parent=None, benefit_extend=None, benefit_split=None,
                                              extend_error_correction=None, last_refinement_split=False)),
             switch_to_parent_estimation=False, children=Seq("list", []))
    f.update(over)
    return Obj("RefinementObjectExtendSplit", f)


def model_to_input_dim(dim):
    def conv(model):
        from pyvc import modelparse as mp
        g = lambda k, d=0: mp.tofloat(mp.num(model.get(k, str(d))))  # noqa
        return {"kind": "C07.split", "dim": dim, "start": [g("s%d" % k) for k in range(dim)], "end": [g("e%d" % k, 1) for k in range(dim)],
                "coarsening": g("coarseningValue"), "needExtendScheme": g("needExtendScheme"), "nrbe": g("numberOfRefinementsBeforeExtend", 2)}
    return conv


def wf(o):
    f = o.fields
    d = f["dim"]
    return [("box-nondegenerate", z3.And(*[f["start"].items[k] < f["end"].items[k] for k in range(d)])),
            ("coarsening-nonneg", f["coarseningValue"] >= 0), ("splits-nonneg", f["needExtendScheme"] >= 0),
            ("refinements-before-extend-nonneg", f["numberOfRefinementsBeforeExtend"] >= 0)]


def box(o):
    f = o.fields
    s, e = f["start"], f["end"]
    if not (isinstance(s, Seq) and isinstance(e, Seq)):
        return None
    s, e = (s if s.concrete else None), (e if e.concrete else None)
    if s is None or e is None:
        return None
    return list(zip(s.items, e.items))


def no_shared_boxes(parent, children, fields=("start", "end", "levelvec_dict")):
    """no two areas (parent, children) share one of the given mutable containers"""
    boxes = [parent.fields.get(f) for f in fields]
    for c in children:
        boxes += [c.fields.get(f) for f in fields]
    boxes = [b for b in boxes if b is not None]
    return all(boxes[i] is not boxes[j] for i in range(len(boxes)) for j in range(i + 1, len(boxes)))


def ownership_clauses(parent, children):
    # the per-area collision table is filled IN PLACE by add_level() during every evaluation of the area: two areas sharing it skip each other's
    # component grids (C07: local coefficients no longer sum to 1) -> property clause.  The coordinate lists are never changed in place anywhere in
    # the library, so sharing them is only a hazard: auxiliary clause.
    return [Cl("children-own-their-collision-tables", no_shared_boxes(parent, children, ("levelvec_dict",)), prop=True),
            Cl("children-own-their-coordinate-lists", no_shared_boxes(parent, children, ("start", "end")))]


def tiling_clauses(parent_box, children, dim):
    """children: list of boxes [(s_k, e_k)]"""
    inside = []
    for b in children:
        for k in range(dim):
            inside += [parent_box[k][0] <= b[k][0], b[k][0] < b[k][1], b[k][1] <= parent_box[k][1]]
    disjoint = []
    for b1, b2 in itertools.combinations(children, 2):
        disjoint.append(z3.Or(*[z3.Or(b1[k][1] <= b2[k][0], b2[k][1] <= b1[k][0]) for k in range(dim)]))
    vol = lambda b: _prod([b[k][1] - b[k][0] for k in range(dim)])  # noqa
    total = sum([vol(b) for b in children][1:], vol(children[0]))
    return [Cl("children-inside-parent-and-nondegenerate", z3.And(*inside), prop=True),
            Cl("children-have-pairwise-disjoint-interiors", z3.And(*disjoint) if disjoint else True, prop=True),
            Cl("children-volumes-sum-to-parent-volume", total == vol(parent_box), prop=True)]


def _prod(xs):
    r = xs[0]
    for x in xs[1:]:
        r = r * x
    return r


class SplitSingleDim(Contract):
    file, qualname = FILE, "RefinementObjectExtendSplit.split_area_single_dim"
    inline = INLINE

    def __init__(self, dim, d):
        self.dim, self.d = dim, d
        self.label = "RefinementObjectExtendSplit.split_area_single_dim[dim=%d,d=%d]" % (dim, d)
        self.model_to_input = model_to_input_dim(dim)

    def inputs(self, S):
        return {"self": area(S, self.dim), "d": self.d}

    def pre(self, S, env):
        return wf(env["self"])

    def applies(self, receiver, args):
        return receiver.fields.get("dim") == self.dim and len(args) == 1 and isinstance(args[0], int) and args[0] == self.d

    def result(self, S, env):
        # caller-side shape (refine with splitSingleDim): two fresh areas with their own coordinate lists; the twin lists are copies of the
        # parent's with the two new areas as each other's twin in dimension d
        dim, d = self.dim, self.d
        p = env["self"].fields
        kids = []
        for i in range(2):
            tw = Seq("list", list(p["twins"].items)) if isinstance(p.get("twins"), Seq) and p["twins"].concrete else Seq("list", [None] * dim)
            kids.append(Obj("RefinementObjectExtendSplit", dict(start=Seq("list", [S.real("k%d.s%d" % (i, k)) for k in range(dim)]),
                                                                end=Seq("list", [S.real("k%d.e%d" % (i, k)) for k in range(dim)]), dim=dim,
                                                                coarseningValue=S.int("k%d.coarseningValue" % i), needExtendScheme=S.int("k%d.needExtendScheme" % i),
                                                                numberOfRefinementsBeforeExtend=p["numberOfRefinementsBeforeExtend"], levelvec_dict={}, grid=p["grid"],
                                                                twins=tw, twinErrors=Seq("list", [None] * dim), splitSingleDim=p.get("splitSingleDim"),
                                                                automatic_extend_split=p.get("automatic_extend_split"), children=Seq("list", []))))
        kids[0].fields["twins"].items[d] = kids[1]
        kids[1].fields["twins"].items[d] = kids[0]
        return Seq("list", kids)

    def post(self, S, old, env, result):
        so = old["self"].fields
        pb = box(old["self"])
        ok = isinstance(result, Seq) and result.concrete and len(result.items) == 2 and all(isinstance(x, Obj) and box(x) is not None and len(box(x)) == self.dim for x in result.items)
        if not ok:
            return [Cl("returns-two-areas", False)]
        cb = [box(x) for x in result.items]
        d = self.d
        out = [Cl("returns-two-areas", True)] + tiling_clauses(pb, cb, self.dim)
        same = [z3.And(cb[i][k][0] == pb[k][0], cb[i][k][1] == pb[k][1]) for i in range(2) for k in range(self.dim) if k != d]
        # prop: the tiling clauses, coarsening never negative, own collision tables.  How the parent is cut (which dimension, where) and the exact
        # bookkeeping are auxiliary: a refutation there is replayed natively and only a broken tiling / negative coarsening counts
        out += [Cl("only-dimension-d-is-split", z3.And(*same) if same else True),
                Cl("split-in-d-at-an-inner-point", z3.And(cb[0][d][0] == pb[d][0], cb[0][d][1] == cb[1][d][0], cb[1][d][1] == pb[d][1],
                                                          pb[d][0] < cb[0][d][1], cb[0][d][1] < pb[d][1])),
                Cl("children-coarsening-never-negative", z3.And(*[c.fields["coarseningValue"] >= 0 for c in result.items]), prop=True),
                Cl("children-keep-coarsening", z3.And(*[c.fields["coarseningValue"] == so["coarseningValue"] for c in result.items])),
                Cl("children-count-the-split", z3.And(*[c.fields["needExtendScheme"] == so["needExtendScheme"] + 1 for c in result.items])),
                Cl("parent-box-unchanged", z3.And(*[z3.And(a == b, c == dd) for (a, c), (b, dd) in zip(box(env["self"]), pb)])),
                # what the caller-side shape `result()` promises to refine(): the children's twin lists are their own copies of the parent's list with the
                # two halves as each other's twin in dimension d
                Cl("children-twins-are-copies-of-the-parents-with-each-other-in-d", self.twins_ok(old["self"], env["self"], result.items)),
                ] + ownership_clauses(env["self"], result.items)
        return out

    def twins_ok(self, parent_old, parent, kids):
        pt = parent_old.fields.get("twins")
        if not (isinstance(pt, Seq) and pt.concrete and len(pt.items) == self.dim):
            return False
        for i, k in enumerate(kids):
            kt = k.fields.get("twins")
            if not (isinstance(kt, Seq) and kt.concrete and len(kt.items) == self.dim) or kt is parent.fields.get("twins") or kt is kids[1 - i].fields.get("twins"):
                return False
            for j in range(self.dim):
                want = kids[1 - i] if j == self.d else pt.items[j]
                got = kt.items[j]
                # the pre-state snapshot holds clones: objects are identified by their name across snapshots
                if not (got is want or (isinstance(got, Obj) and isinstance(want, Obj) and got.name == want.name)):
                    return False
        return True


class SplitArbitraryDim(Contract):
    file, qualname = FILE, "RefinementObjectExtendSplit.split_area_arbitrary_dim"
    inline = INLINE

    def __init__(self, dim):
        self.dim = dim
        self.label = "RefinementObjectExtendSplit.split_area_arbitrary_dim[dim=%d]" % dim
        self.model_to_input = model_to_input_dim(dim)

    def applies(self, receiver, args):
        return receiver.fields.get("dim") == self.dim

    def inputs(self, S):
        return {"self": area(S, self.dim)}

    def pre(self, S, env):
        return wf(env["self"])

    def result(self, S, env):
        # used when refine() is verified modularly
        dim = self.dim
        kids = []
        for i in range(2 ** dim):
            start = Seq("array", [S.real("c%d.s%d" % (i, k)) for k in range(dim)])
            end = Seq("array", [S.real("c%d.e%d" % (i, k)) for k in range(dim)])
            kids.append(Obj("RefinementObjectExtendSplit", dict(start=start, end=end, dim=dim, coarseningValue=S.int("c%d.coarseningValue" % i),
                                                                needExtendScheme=S.int("c%d.needExtendScheme" % i))))
        return Seq("list", kids)

    def post(self, S, old, env, result):
        so = old["self"].fields
        pb = box(old["self"])
        n = 2 ** self.dim
        ok = isinstance(result, Seq) and result.concrete and len(result.items) == n and all(isinstance(x, Obj) and box(x) is not None and len(box(x)) == self.dim for x in result.items)
        if not ok:
            return [Cl("returns-2^d-areas", False)]
        cb = [box(x) for x in result.items]
        half = [z3.And(*[z3.Or(z3.And(b[k][0] == pb[k][0], 2 * b[k][1] == pb[k][0] + pb[k][1]),
                               z3.And(2 * b[k][0] == pb[k][0] + pb[k][1], b[k][1] == pb[k][1])) for k in range(self.dim)]) for b in cb]
        return [Cl("returns-2^d-areas", True)] + tiling_clauses(pb, cb, self.dim) + [
            Cl("children-are-products-of-half-intervals", z3.And(*half)),
            Cl("children-coarsening-never-negative", z3.And(*[c.fields["coarseningValue"] >= 0 for c in result.items]), prop=True),
            Cl("children-keep-coarsening", z3.And(*[c.fields["coarseningValue"] == so["coarseningValue"] for c in result.items])),
            Cl("children-count-the-split", z3.And(*[c.fields["needExtendScheme"] == so["needExtendScheme"] + 1 for c in result.items])),
            Cl("parent-box-unchanged", z3.And(*[z3.And(a == b, c == dd) for (a, c), (b, dd) in zip(box(env["self"]), pb)])),
            ] + ownership_clauses(env["self"], result.items)


class RefineExtendSplit(Contract):
    """non-automatic policy, splitting in all dimensions (splitSingleDim False): split while fewer than
    numberOfRefinementsBeforeExtend splits were made, extend afterwards"""
    file, qualname = FILE, "RefinementObjectExtendSplit.refine"
    inline = INLINE

    def __init__(self, dim):
        self.dim = dim
        self.label = "RefinementObjectExtendSplit.refine[dim=%d,policy=split-then-extend]" % dim
        self.model_to_input = model_to_input_dim(dim)

    def inputs(self, S):
        return {"self": area(S, self.dim)}

    def pre(self, S, env):
        return wf(env["self"])

    @staticmethod
    def extend_cond(so):
        return so["needExtendScheme"] >= so["numberOfRefinementsBeforeExtend"]

    def split_counts(self):
        return (2 ** self.dim,)

    def post(self, S, old, env, result):
        so = old["self"].fields
        pb = box(old["self"])
        ok = isinstance(result, Seq) and result.concrete and len(result.items) == 3 and isinstance(result.items[0], Seq) and result.items[0].concrete
        if not ok:
            return [Cl("returns-triple", False)]
        new, lmax_inc, upd = result.items
        extend = self.extend_cond(so)
        if len(new.items) == 1:
            c = new.items[0]
            cb = box(c)
            c0 = so["coarseningValue"]
            ones = isinstance(lmax_inc, Seq) and lmax_inc.concrete and len(lmax_inc.items) == self.dim and all(x == 1 for x in lmax_inc.items)
            return [Cl("returns-triple", True),
                    # the decision rule and the exact bookkeeping are auxiliary (the statement of C07 fixes the outcome's shape, not the policy)
                    Cl("extend-chosen-by-the-policy", extend),
                    Cl("extend-keeps-the-box", z3.And(*[z3.And(a == b, cc == dd) for (a, cc), (b, dd) in zip(cb, pb)]), prop=True),
                    Cl("extend-coarsening-never-negative", c.fields["coarseningValue"] >= 0, prop=True),
                    Cl("extend-decrements-coarsening-not-below-zero", c.fields["coarseningValue"] == z3.If(c0 == 0, 0, c0 - 1)),
                    Cl("scheme-grows-exactly-when-coarsening-was-zero",
                       z3.And(z3.Implies(c0 == 0, z3.BoolVal(ones and upd == 1)), z3.Implies(c0 != 0, z3.BoolVal(lmax_inc is None and upd is None)))),
                    Cl("extend-keeps-split-count", c.fields["needExtendScheme"] == so["needExtendScheme"])]
        if len(new.items) in self.split_counts():
            cb = [box(x) for x in new.items]
            return [Cl("returns-triple", True),
                    Cl("split-chosen-by-the-policy", z3.Not(extend))] + tiling_clauses(pb, cb, self.dim) + [
                Cl("split-coarsening-never-negative", z3.And(*[c.fields["coarseningValue"] >= 0 for c in new.items]), prop=True),
                Cl("split-keeps-coarsening", z3.And(*[c.fields["coarseningValue"] == so["coarseningValue"] for c in new.items])),
                Cl("split-does-not-touch-the-scheme", lmax_inc is None and upd is None)]
        return [Cl("returns-triple", False)]


class RefineExtendSplitAuto(RefineExtendSplit):
    """automatic policy (automatic_extend_split True): the area is extended when the extend benefit of the parent comparison (plus the
    absolute error correction when parent estimation is on) is smaller than the split benefit, and split otherwise.  Whatever the
    benefits are, the outcome is one of the two well-formed refinements (C07: tiling, coarsening never negative)."""
    inline = INLINE + ("ErrorInfo.get_split_benefit", "get_split_benefit", "ErrorInfo.get_extend_benefit", "get_extend_benefit",
                       "ErrorInfo.get_extend_error_correction", "get_extend_error_correction")

    def __init__(self, dim):
        RefineExtendSplit.__init__(self, dim)
        self.label = "RefinementObjectExtendSplit.refine[dim=%d,policy=automatic]" % dim

    def inputs(self, S):
        pi = Obj("ErrorInfo", dict(parent=None, level_parent=S.int("level_parent"), num_points_split_parent=S.int("num_points_split_parent"),
                                   benefit_extend=S.real("benefit_extend"), benefit_split=S.real("benefit_split"),
                                   extend_error_correction=S.real("extend_error_correction"), last_refinement_split=False))
        return {"self": area(S, self.dim, automatic_extend_split=True, parent_info=pi, switch_to_parent_estimation=S.bool("switch_to_parent_estimation"))}

    @staticmethod
    def extend_cond(so):
        pi = so["parent_info"].fields
        corr = z3.If(pi["extend_error_correction"] >= 0, pi["extend_error_correction"], -pi["extend_error_correction"])
        return pi["benefit_extend"] + z3.If(so["switch_to_parent_estimation"], corr, 0) < pi["benefit_split"]


class RefineExtendSplitSingle(RefineExtendSplit):
    """splitSingleDim True: the area is split in every dimension whose twin error reaches 0.9 of the largest one (get_split_dims), one
    dimension after the other; the 2^k resulting areas tile the parent.  split_area_single_dim, get_split_dims and set_twin are inlined from
    the real source (all loops run over concrete ranges for a fixed dimension and are unrolled)."""
    inline = INLINE + ("RefinementObjectExtendSplit.split_area_single_dim", "split_area_single_dim", "RefinementObjectExtendSplit.get_split_dims", "get_split_dims")

    def __init__(self, dim):
        RefineExtendSplit.__init__(self, dim)
        self.label = "RefinementObjectExtendSplit.refine[dim=%d,policy=split-then-extend,splitSingleDim]" % dim

    def inputs(self, S):
        dim = self.dim
        twins = [Obj("RefinementObjectExtendSplit", dict(twins=Seq("list", [None] * dim), twinErrors=Seq("list", [None] * dim))) for _ in range(dim)]
        return {"self": area(S, dim, splitSingleDim=True, twinErrors=Seq("list", [S.real("twinError%d" % k) for k in range(dim)]), twins=Seq("list", twins))}

    def pre(self, S, env):
        te = env["self"].fields["twinErrors"].items
        return wf(env["self"]) + [("twin-errors-nonneg", z3.And(*[t >= 0 for t in te]))]

    def split_counts(self):
        return tuple(2 ** k for k in range(1, self.dim + 1))


class UpdateES(Contract):
    file, qualname = FILE, "RefinementObjectExtendSplit.update"

    def inputs(self, S):
        return {"self": area(S, 2), "update_info": S.int("update_info")}

    def pre(self, S, env):
        return wf(env["self"]) + [("update-nonneg", env["update_info"] >= 0)]

    def post(self, S, old, env, result):
        return [Cl("coarsening-never-negative", env["self"].fields["coarseningValue"] >= 0, prop=True),
                Cl("coarsening-increased", env["self"].fields["coarseningValue"] == old["self"].fields["coarseningValue"] + old["update_info"]),
                Cl("collision-table-reset", env["self"].fields["levelvec_dict"] == {})]


CONTRACTS = [SplitSingleDim(dim, d) for dim in (1, 2, 3) for d in range(dim)] + [SplitArbitraryDim(dim) for dim in (1, 2, 3)] \
    + [RefineExtendSplit(dim) for dim in (1, 2)] + [RefineExtendSplitAuto(dim) for dim in (1, 2)] + [RefineExtendSplitSingle(dim) for dim in (1, 2)] + [UpdateES()]
LEMMAS = []
ASSUMPTIONS = ["split functions verified for dimension d in {1,2,3} (loop-free unrolling, complete for those d; coordinates fully symbolic)",
               "grid.get_mid_point is the unweighted midpoint (Grid.get_mid_point inlined from the real source)",
               "refine() verified for d in {1,2} under its three policies; the parent benefits / twin errors that drive the automatic and single-dimension policies are arbitrary reals (their computation is layer B)",
               "coarsen_grid (local combination), point assignment: layer B only"]


# --------------------------------------------------------------------------- point assignment kernel: closed-box membership
from pyvc.book import Loop  # noqa: E402

I_, R_ = z3.IntSort(), z3.RealSort()


class Contains(Contract):
    """RefinementObjectExtendSplit.contains (any dimension): True exactly for the points of the closed box [start, end] (get_points_in_areas_recursive hands
    every evaluation point to the FIRST child whose closed box contains it and removes it from the rest, so each point lands in exactly one leaf)"""
    file, qualname = FILE, "RefinementObjectExtendSplit.contains"

    def inputs(self, S):
        dim = S.int("dim")
        S.assume(dim >= 1)
        o = Obj("RefinementObjectExtendSplit", dict(dim=dim, start=S.seq("start", dim, R_, kind="array"), end=S.seq("end", dim, R_, kind="array")))
        return {"self": o, "point": S.seq("point", dim, R_, kind="tuple")}

    @staticmethod
    def inside(o, pt, hi):
        k = z3.Int("ck")
        return z3.ForAll([k], z3.Implies(z3.And(k >= 0, k < hi), z3.And(z3.Select(pt, k) >= z3.Select(o["start"].arr, k), z3.Select(pt, k) <= z3.Select(o["end"].arr, k))))

    def inv(self, S, env, g):
        old = S.ex.old
        c = env["contained"]
        c = c if not isinstance(c, bool) else z3.BoolVal(c)
        return [("all-coordinates-so-far-inside", z3.And(c, self.inside(old["self"].fields, old["point"].arr, g["k"]))),
                ("inputs-untouched", z3.And(env["point"].arr == old["point"].arr, env["self"].fields["start"].arr == old["self"].fields["start"].arr,
                                            env["self"].fields["end"].arr == old["self"].fields["end"].arr))]

    @property
    def loops(self):
        return {0: Loop(inv=lambda S, env, g: self.inv(S, env, g))}

    def post(self, S, old, env, result):
        r = result if not isinstance(result, bool) else z3.BoolVal(result)
        return [Cl("true-exactly-for-the-points-of-the-closed-box", r == self.inside(old["self"].fields, old["point"].arr, old["self"].fields["dim"]), prop=True)]


CONTRACTS += [Contains()]
