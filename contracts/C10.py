"""Sidecar contracts for C10: Lagrange basis functions are cardinal on their knots (sparseSpACE/BasisFunctions.py: LagrangeBasis).
Loop-free for a fixed number of knots: verified for n in {2,3,4} knots, every index, knots fully symbolic distinct reals.
Hierarchisation (linear solves), B-splines, restricted/modified variants: layer B only."""
import z3

from pyvc.book import Contract
from pyvc.engine import Cl
from pyvc.values import Obj, Seq
from pyvc import values as Vv

FILE = "sparseSpACE/BasisFunctions.py"


def distinct(ks):
    return z3.And(*[ks[i] != ks[j] for i in range(len(ks)) for j in range(i + 1, len(ks))]) if len(ks) > 1 else z3.BoolVal(True)


class LagrangeInit(Contract):
    file, qualname = FILE, "LagrangeBasis.__init__"

    def __init__(self, n, idx):
        self.n, self.idx = n, idx
        self.label = "LagrangeBasis.__init__[knots=%d,index=%d]" % (n, idx)

    def inputs(self, S):
        ks = [S.real("x%d" % i) for i in range(self.n)]
        return {"self": Obj("LagrangeBasis", {}), "p": self.n - 1, "index": self.idx, "knots": Seq("array", ks)}

    def pre(self, S, env):
        return [("knots-distinct", distinct(env["knots"].items))]

    def post(self, S, old, env, result):
        ks = old["knots"].items
        prod = z3.RealVal(1)
        for i in range(self.n):
            if i != self.idx:
                prod = prod * (ks[self.idx] - ks[i])
        f = env["self"].fields.get("factor")
        if f is None:
            return [Cl("sets-factor", False, prop=True)]
        fl = env["self"].fields
        stored = fl.get("p") == old["p"] and fl.get("index") == old["index"] and fl.get("knots") is env["knots"]
        return [Cl("normalisation-factor-is-the-reciprocal-of-the-node-polynomial", Vv.to_z3(f, True) * prod == 1, prop=True),
                Cl("degree-index-and-knots-stored", bool(stored))]


class LagrangeCall(Contract):
    file, qualname = FILE, "LagrangeBasis.__call__"

    def __init__(self, n, idx, at):
        self.n, self.idx, self.at = n, idx, at
        self.label = "LagrangeBasis.__call__[knots=%d,index=%d,x=knot %d]" % (n, idx, at)

    def inputs(self, S):
        ks = [S.real("x%d" % i) for i in range(self.n)]
        return {"self": Obj("LagrangeBasis", dict(p=self.n - 1, index=self.idx, knots=Seq("array", ks), factor=S.real("factor"))), "x": ks[self.at]}

    def pre(self, S, env):
        f = env["self"].fields
        ks = f["knots"].items
        prod = z3.RealVal(1)
        for i in range(self.n):
            if i != self.idx:
                prod = prod * (ks[self.idx] - ks[i])
        return [("knots-distinct", distinct(ks)), ("factor-from-constructor", f["factor"] * prod == 1)]

    def post(self, S, old, env, result):
        return [Cl("one-at-own-knot-zero-at-the-others", Vv.to_z3(result, True) == (1 if self.at == self.idx else 0), prop=True)]


CONTRACTS = [LagrangeInit(n, i) for n in (2, 3, 4) for i in range(n)] + [LagrangeCall(n, i, k) for n in (2, 3, 4) for i in range(n) for k in range(n)]
LEMMAS = []
ASSUMPTIONS = ["machine floats treated as reals (A-REAL)", "number of knots fixed to 2..4 (loop-free unrolling); knots symbolic distinct reals",
               "unique solvability of the collocation systems, B-spline recursion, restricted/modified Lagrange bases, derivatives/integrals: layer B only"]


# --------------------------------------------------------------------------- any number of knots: loop invariants over the ghost product
from pyvc.book import Loop  # noqa: E402
from pyvc import prelude as P  # noqa: E402
from pyvc import lemmas as L  # noqa: E402

I_, R_ = z3.IntSort(), z3.RealSort()


def inv_factors(x, idx):
    """array i -> 1/(x_idx - x_i)  (1 at i == idx): the factors of the normalisation constant"""
    i = z3.Int("fi")
    return z3.Lambda([i], z3.If(i == idx, z3.RealVal(1), 1 / (z3.Select(x, idx) - z3.Select(x, i))))


def num_factors(x, idx, at):
    """array i -> (at - x_i)  (1 at i == idx): the factors of the node polynomial evaluated at `at`"""
    i = z3.Int("ni")
    return z3.Lambda([i], z3.If(i == idx, z3.RealVal(1), at - z3.Select(x, i)))


def knots_distinct(x, n):
    i, j = z3.Ints("ki kj")
    return z3.ForAll([i, j], z3.Implies(z3.And(i >= 0, i < n, j >= 0, j < n, i != j), z3.Select(x, i) != z3.Select(x, j)), patterns=[z3.MultiPattern(z3.Select(x, i), z3.Select(x, j))])


def any_basis(S, with_factor):
    n = S.int("n")
    S.assume(n >= 1)
    idx = S.int("index")
    S.assume(z3.And(idx >= 0, idx < n))
    for ax in P.prod_axioms():
        S.assume(ax, "def:Prod")
    knots = S.seq("knots", n, R_, kind="array")
    f = dict(p=S.int("p"), index=idx, knots=knots)
    if with_factor:
        f["factor"] = S.real("factor")
    return Obj("LagrangeBasis", f), knots, idx, n


class LagrangeInitAny(Contract):
    file, qualname = FILE, "LagrangeBasis.__init__"
    label = "LagrangeBasis.__init__[any number of knots]"

    def inputs(self, S):
        _, knots, idx, n = any_basis(S, False)
        return {"self": Obj("LagrangeBasis", {}), "p": S.int("p"), "index": idx, "knots": knots}

    def pre(self, S, env):
        return [("knots-distinct", knots_distinct(env["knots"].arr, env["knots"].len()))]

    def inv(self, S, env, g):
        x = S.ex.old["knots"].arr
        idx = S.ex.old["index"]
        f = env["self"].fields
        return [("factor-so-far", Vv.to_z3(f["factor"], True) == P.PRODR(inv_factors(x, idx), 0, g["k"])),
                ("fields", z3.And(f["knots"].arr == x, f["index"] == idx))]

    @property
    def loops(self):
        return {0: Loop(inv=lambda S, env, g: self.inv(S, env, g))}

    def post(self, S, old, env, result):
        f = env["self"].fields
        if "factor" not in f:
            return [Cl("sets-factor", False)]
        return [Cl("normalisation-factor-is-the-product-of-the-reciprocal-knot-distances",
                   Vv.to_z3(f["factor"], True) == P.PRODR(inv_factors(old["knots"].arr, old["index"]), 0, old["knots"].len()), prop=True)]


def prod_zero_stmt(a, n, j):
    return z3.Implies(z3.And(j >= 0, j < n, z3.Select(a, j) == 0), P.PRODR(a, 0, n) == 0)


def prod_inverse_stmt(a, b, n):
    i = z3.Int("pii")
    return z3.Implies(z3.And(n >= 0, z3.ForAll([i], z3.Implies(z3.And(i >= 0, i < n), z3.Select(a, i) * z3.Select(b, i) == 1))), P.PRODR(a, 0, n) * P.PRODR(b, 0, n) == 1)


def _prod_zero_lemma():
    a = z3.Const("a", z3.ArraySort(I_, R_))
    m, j = z3.Ints("m j")
    ax = P.prod_axioms()
    fixed = [j >= 0, z3.Select(a, j) == 0]
    claim = lambda k: z3.Implies(j < k, P.PRODR(a, 0, k) == 0)  # noqa
    return [(ax + fixed, claim(z3.IntVal(0))), (ax + fixed + [m >= 0, claim(m)], claim(m + 1))]


def _prod_inverse_lemma():
    a = z3.Const("a", z3.ArraySort(I_, R_))
    b = z3.Const("b", z3.ArraySort(I_, R_))
    m, i = z3.Ints("m i")
    ax = P.prod_axioms()
    pw = lambda k: z3.ForAll([i], z3.Implies(z3.And(i >= 0, i < k), z3.Select(a, i) * z3.Select(b, i) == 1))  # noqa
    claim = lambda k: P.PRODR(a, 0, k) * P.PRODR(b, 0, k) == 1  # noqa
    return [(ax, claim(z3.IntVal(0))), (ax + [m >= 0, z3.Implies(pw(m), claim(m)), pw(m + 1)], claim(m + 1))]


class LagrangeCallAny(Contract):
    """any number of distinct knots, evaluation at one of the knots: 1 at the own knot, 0 at every other knot"""
    file, qualname = FILE, "LagrangeBasis.__call__"
    label = "LagrangeBasis.__call__[any number of knots, x = a knot]"

    def inputs(self, S):
        slf, knots, idx, n = any_basis(S, True)
        at = S.int("at")
        S.assume(z3.And(at >= 0, at < n))
        return {"self": slf, "x": z3.Select(knots.arr, at), "_at": at}

    def pre(self, S, env):
        f = env["self"].fields
        x, n = f["knots"].arr, f["knots"].len()
        return [("knots-distinct", knots_distinct(x, n)),
                ("factor-from-the-constructor", f["factor"] == P.PRODR(inv_factors(x, f["index"]), 0, n))]

    def inv(self, S, env, g):
        f = S.ex.old["self"].fields
        return [("node-polynomial-so-far", Vv.to_z3(env["result"], True) == P.PRODR(num_factors(f["knots"].arr, f["index"], S.ex.old["x"]), 0, g["k"])),
                ("fields", z3.And(env["self"].fields["knots"].arr == f["knots"].arr, env["self"].fields["index"] == f["index"], env["self"].fields["factor"] == f["factor"]))]

    @property
    def loops(self):
        return {0: Loop(inv=lambda S, env, g: self.inv(S, env, g))}

    def post(self, S, old, env, result):
        f = old["self"].fields
        x, n, idx, at = f["knots"].arr, f["knots"].len(), f["index"], old["_at"]
        num, inv = num_factors(x, idx, old["x"]), inv_factors(x, idx)
        r = Vv.to_z3(result, True)
        return [Cl("value-is-node-polynomial-times-normalisation", r == P.PRODR(num, 0, n) * P.PRODR(inv, 0, n)),
                Cl("one-at-its-own-knot", z3.Implies(at == idx, r == 1), prop=True, by=[("prod-inverse", prod_inverse_stmt(num, inv, n))]),
                Cl("zero-at-every-other-knot", z3.Implies(at != idx, r == 0), prop=True, by=[("prod-zero", prod_zero_stmt(num, n, at))])]


CONTRACTS += [LagrangeInitAny(), LagrangeCallAny()]
LEMMAS += [L.SmtLemma("prod-zero", _prod_zero_lemma, note="a product with a zero factor is zero (induction)"),
           L.SmtLemma("prod-inverse", _prod_inverse_lemma, note="products of pointwise reciprocal arrays are reciprocal (induction, nonlinear step)")]
ASSUMPTIONS += ["any-number-of-knots contracts: ghost Prod (recursion axioms), the index and the evaluation knot are symbolic"]
