"""Sidecar contracts for C10: Lagrange basis functions are cardinal on their knots (sparseSpACE/BasisFunctions.py: LagrangeBasis).
Loop-free for a fixed number of knots: verified for n in {2,3,4} knots, every index, knots fully symbolic distinct reals.
Hierarchisation (linear solves), B-splines, restricted/modified variants: layer B only."""
import z3

from pyvc.book import Contract
from pyvc.engine import Cl
from pyvc.values import Obj, Seq
from pyvc import values as Vv

FILE = "sparseSpACE/BasisFunctions.py"


def distinct(ks):
    return z3.And(*[ks[i] != ks[j] for i in range(len(ks)) for j in range(i + 1, len(ks))]) if len(ks) > 1 else z3.BoolVal(True)


class LagrangeInit(Contract):
    file, qualname = FILE, "LagrangeBasis.__init__"

    def __init__(self, n, idx):
        self.n, self.idx = n, idx
        self.label = "LagrangeBasis.__init__[knots=%d,index=%d]" % (n, idx)

    def inputs(self, S):
        ks = [S.real("x%d" % i) for i in range(self.n)]
        return {"self": Obj("LagrangeBasis", {}), "p": self.n - 1, "index": self.idx, "knots": Seq("array", ks)}

    def pre(self, S, env):
        return [("knots-distinct", distinct(env["knots"].items))]

    def post(self, S, old, env, result):
        ks = old["knots"].items
        prod = z3.RealVal(1)
        for i in range(self.n):
            if i != self.idx:
                prod = prod * (ks[self.idx] - ks[i])
        f = env["self"].fields.get("factor")
        if f is None:
            return [Cl("sets-factor", False, prop=True)]
        fl = env["self"].fields
        stored = fl.get("p") == old["p"] and fl.get("index") == old["index"] and fl.get("knots") is env["knots"]
        return [Cl("normalisation-factor-is-the-reciprocal-of-the-node-polynomial", Vv.to_z3(f, True) * prod == 1, prop=True),
                Cl("degree-index-and-knots-stored", bool(stored))]


class LagrangeCall(Contract):
    file, qualname = FILE, "LagrangeBasis.__call__"

    def __init__(self, n, idx, at):
        self.n, self.idx, self.at = n, idx, at
        self.label = "LagrangeBasis.__call__[knots=%d,index=%d,x=knot %d]" % (n, idx, at)

    def inputs(self, S):
        ks = [S.real("x%d" % i) for i in range(self.n)]
        return {"self": Obj("LagrangeBasis", dict(p=self.n - 1, index=self.idx, knots=Seq("array", ks), factor=S.real("factor"))), "x": ks[self.at]}

    def pre(self, S, env):
        f = env["self"].fields
        ks = f["knots"].items
        prod = z3.RealVal(1)
        for i in range(self.n):
            if i != self.idx:
                prod = prod * (ks[self.idx] - ks[i])
        return [("knots-distinct", distinct(ks)), ("factor-from-constructor", f["factor"] * prod == 1)]

    def post(self, S, old, env, result):
        return [Cl("one-at-own-knot-zero-at-the-others", Vv.to_z3(result, True) == (1 if self.at == self.idx else 0), prop=True)]


CONTRACTS = [LagrangeInit(n, i) for n in (2, 3, 4) for i in range(n)] + [LagrangeCall(n, i, k) for n in (2, 3, 4) for i in range(n) for k in range(n)]
LEMMAS = []
ASSUMPTIONS = ["machine floats treated as reals (A-REAL)", "number of knots fixed to 2..4 (loop-free unrolling); knots symbolic distinct reals",
               "unique solvability of the collocation systems, B-spline recursion, restricted/modified Lagrange bases, derivatives/integrals: layer B only"]
