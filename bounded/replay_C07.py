"""native replay handlers for C07 counter-models (extend-split area splitting)"""
import itertools
from fractions import Fraction
from bounded.replay_models import handler


def _tiling_violations(parent, kids, dim):
    bad = []
    F = Fraction
    vol = lambda b: __import__("functools").reduce(lambda x, y: x * y, [F(e) - F(s) for s, e in b], F(1))  # noqa
    for b in kids:
        for k in range(dim):
            if not (parent[k][0] <= b[k][0] < b[k][1] <= parent[k][1]):
                bad.append("child %r not inside parent %r / degenerate" % (b, parent))
    for b1, b2 in itertools.combinations(kids, 2):
        if not any(b1[k][1] <= b2[k][0] or b2[k][1] <= b1[k][0] for k in range(dim)):
            bad.append("children %r and %r overlap" % (b1, b2))
    if sum(vol(b) for b in kids) != vol(parent):
        bad.append("volumes of the children do not sum to the parent's volume")
    return bad


@handler("C07.split")
def c07_split(inp, obligation):
    from sparseSpACE.RefinementObject import RefinementObjectExtendSplit
    from sparseSpACE.Grid import TrapezoidalGrid
    dim = int(inp["dim"])
    start, end = [float(x) for x in inp["start"]], [float(x) for x in inp["end"]]
    grid = TrapezoidalGrid(a=start, b=end)
    o = RefinementObjectExtendSplit(start, end, grid, number_of_refinements_before_extend=int(inp.get("nrbe", 2)),
                                    coarseningValue=int(inp.get("coarsening", 0)), needExtendScheme=int(inp.get("needExtendScheme", 0)), splitSingleDim=False)
    parent = list(zip(start, end))
    bad = []
    kinds = [("arbitrary", lambda: o.split_area_arbitrary_dim())] + [("single%d" % d, (lambda d=d: o.split_area_single_dim(d))) for d in range(dim)] \
        + [("refine", lambda: o.refine()[0])]
    for name, fn in kinds:
        try:
            kids = fn()
        except Exception as e:  # noqa
            bad.append("%s raised %s: %s" % (name, type(e).__name__, e))
            continue
        boxes = [list(zip([float(x) for x in k.start], [float(x) for x in k.end])) for k in kids]
        if name == "refine" and len(kids) == 1:
            if boxes[0] != parent:
                bad.append("extend changed the box")
            if kids[0].coarseningValue != max(o.coarseningValue - 1, 0):
                bad.append("extend coarsening %r" % kids[0].coarseningValue)
            continue
        bad += ["%s: %s" % (name, b) for b in _tiling_violations(parent, boxes, dim)]
        if any(k.coarseningValue != o.coarseningValue for k in kids):
            bad.append("%s: children changed the coarsening value" % name)
        owners = [o] + list(kids)
        for i_ in range(len(owners)):
            for j_ in range(i_ + 1, len(owners)):
                # the collision table is written in place by add_level(); the coordinate lists are never changed in place (sharing them is harmless)
                if owners[i_].levelvec_dict is owners[j_].levelvec_dict:
                    bad.append("%s: two areas share one levelvec_dict object (add_level of one silently fills the other's collision table)" % name)
    return bool(bad), {"start": start, "end": end, "violations": bad[:6]}
