"""C20 bounded stand-in: the real Regression operation solves the regularised least-squares problem on every component grid.

Reference (hat basis values, gradient Gram matrix) = the plain-numpy helpers of bounded/C16.py; nothing of /repo is re-implemented
and no repo function is its own oracle: the normal-equation clause uses the reference design matrix and, for matrix 'C', the smoothing
matrix the real code returns for that grid, which is compared with the reference gradient Gram matrix by its own clause on the same grid.
"""
import itertools
import random
import traceback

from bounded.api import quiet, close
from bounded import C16 as ref

BOUND = ("boundary-free hat basis on [0,1]^d, d<=3; data sets of 3..60 samples with arbitrary ranges (random / pre-images of dyadic grid lines "
         "/ clustered), generic noisy non-constant targets >= -1 (one clause: targets below -1); regularisation in {0,1e-3,0.1}, matrix 'C' or 'I'; "
         "(a) direct: every uniform level vector with levels 1..4 and N<=120 ('C') / N<=400 (else), anisotropic included, and seeded bisection-tree "
         "stripes (point level <=5, N<=100) with training set := whole scaled data set, through evaluate_levelvec / "
         "solve_regression_dimension_wise(_smooth); (b) Regression.train(test share in {0.1,0.2,0.4}, lmin in {1,2}, lmax<=4 (d=1), <=3/4 (d=2), "
         "<=2/3 (d=3)) and (c) Regression.train_spatially_adaptive(margin in {0.5,0.7,0.9}, max_evaluations in {0,10,25,40}) followed by "
         "optimize_coefficients(_spatially_adaptive) options 1,2,3; (d) histories: 2..3 trainings (train or train_spatially_adaptive) on ONE object with "
         "different test shares {0.1,0.2,0.4,0.6} and regularisations, compared with a fresh object; default construction is attempted in every case, all other clauses use "
         "an operation constructed with rangee=(0.05,0.95) given as a tuple")
BOUND += "; four fixed uniform grids in 4 and 5 dimensions (matrix C, lambda 1e-3); fault / magnitude additions: regularisation 1e-9 in the lambda set; residual also judged against lambda*|M alpha|"
RULE = BOUND + "; one case = one (data set, targets, regularisation, matrix, grid or training call); all cases non-trivial (>=1 basis function, >=1 training sample)"
BUDGET = {"quick": 60.0, "thorough": 840.0}

CLAUSES = {
    "B.ctor.default": "Regression(data, targets, regularization, regularization_matrix) with default construction arguments returns normally",
    "B.ctor.targets": "Regression(...) returns normally for real-valued targets including values below -1",
    "B.design.basis": "design matrix == hat basis values at the training points (build_A_matrix / build_A_matrix_dimension_wise), abs 1e-12",
    "B.C.gram_uniform": "build_C_matrix(levelvec) == Gram matrix of the basis gradients (exact reference), rel 1e-10",
    "B.C.gram_dimwise": "build_C_matrix_dimension_wise(stripes) == Gram matrix of the basis gradients (exact reference), rel 1e-8",
    "B.C.psd": "smoothing matrix is exactly symmetric and (when it passed the Gram clause) its eigenvalues are >= -1e-10 * max(1, largest)",
    "B.normal.eq": "surpluses of the component grid satisfy (A^T A/m + lambda M) alpha = A^T y/m (A^T A alpha = A^T y when lambda = 0), "
                   "A / M = the design / smoothing (or identity) matrix of this grid as returned by the real code and compared with the "
                   "reference by B.design.basis / B.C.*; residual <= 1e-8 * (||L|| ||alpha|| + ||r||)",
    "B.opticom.sum_one": "every optimize_coefficients(_spatially_adaptive) option returns and leaves coefficients summing to 1 (1e-9)",
    "B.run.returns": "the real entry points return normally on valid input",
    "B.hist.idempotent": "build_A_matrix / build_C_matrix / test() called twice on the same trained object return identical values",
    "B.hist.report_stable": "surplus arrays handed out by an earlier training on the same object still equal the copy taken then",
    "B.hist.fresh_equal": "after several trainings (different test share / regularisation) on ONE object, scheme and surpluses equal those of a "
                          "fresh object trained once with the last arguments (rel 1e-9); every training also satisfies all clauses above for "
                          "its own training set (witness classes 'retrain...')",
}

REG = "sparseSpACE.GridOperation:Regression."
ML = ref.ML
RANGE = (0.05, 0.95)


def make_regression_data(d, desc):
    """desc = {"kind", "M", "seed"}; raw data in an arbitrary box (the constructor scales it), targets >= -1, noisy, non-constant"""
    import numpy as np
    rs = np.random.RandomState(desc["seed"] % (2 ** 32))
    M, kind = desc["M"], desc["kind"]
    T = rs.rand(M, d)                                  # position in the unit cube before the affine distortion
    if kind == "gridlines" and M >= 2:
        # after scaling to [0.05, 0.95] many coordinates are dyadic: t = (g - 0.05) / 0.9 with extremes 0 and 1 present
        lev = rs.randint(1, 5, size=(M, d))
        g = np.round((0.05 + 0.9 * T) * 2.0 ** lev) / 2.0 ** lev
        snap = rs.rand(M, d) < 0.6
        T = np.where(snap, (g - 0.05) / 0.9, T)
        T = np.clip(T, 0.0, 1.0)
        T[0, :] = 0.0
        T[1, :] = 1.0
    elif kind == "clustered":
        T = 0.3 * T + 0.7 * rs.rand(d) * (rs.rand(M, 1) < 0.8)
    scale = 10.0 ** rs.uniform(-1, 1.5, size=d) if kind != "gridlines" else np.ones(d)
    shift = rs.uniform(-5, 5, size=d) if kind != "gridlines" else np.zeros(d)
    X = shift + scale * T
    w = rs.randn(d)
    y = np.sin(3.0 * (T @ w)) + 0.5 * (T ** 2).sum(axis=1) + 0.2 * rs.randn(M)
    y = y - y.min() - 0.75                             # min = -0.75 >= -1
    y[rs.randint(M)] += 0.37                           # certainly not constant
    return X, y


def random_data_desc(rng, mmin=3, mmax=60):
    return {"kind": rng.choice(["random", "random", "gridlines", "clustered"]), "M": rng.randint(mmin, mmax), "seed": rng.randrange(2 ** 31)}


def new_regression(ctx, X, y, lam, matrix):
    """default construction (clause B.ctor.default), then the operation used for all other clauses (explicit tuple range)"""
    import numpy as np
    from sparseSpACE.GridOperation import Regression
    from sparseSpACE.Utils import log_levels, print_levels
    with ctx.guard("B.ctor.default", REG + "__init__", "default-rangee"):
        with quiet():
            Regression(np.array(X), np.array(y), lam, matrix)
    op = None
    with ctx.guard("B.run.returns", REG + "__init__", "tuple-rangee"):
        with quiet():
            op = Regression(np.array(X), np.array(y), lam, matrix, rangee=RANGE,
                            log_level=log_levels.ERROR, print_level=print_levels.ERROR)
    return op


def check_design(ctx, A_code, A_ref, site, tag, stripes=None, X=None):
    import numpy as np
    A_code = np.asarray(A_code, dtype=float)
    ok = A_code.shape == A_ref.shape and close(A_code, A_ref, rel=0, abs_=1e-12)
    wc = tag
    if not ok and A_code.shape == A_ref.shape and stripes is not None:
        wrong = np.abs(A_code - A_ref) > 1e-12
        # known floating-point defect of hat_function_non_symmetric_completely_vectorized: a sample one rounding error below a grid
        # coordinate gets both linear pieces (factor 2); anything else is a different failure
        if not np.any(wrong & ~ref.near_below_mask(stripes, X)):
            wc = "sample-ulp-below-gridpoint"
    ctx.check("B.design.basis", ok, site, wc, "design matrix differs from hat values: shape %s vs %s, max %.3e"
              % (A_code.shape, A_ref.shape, np.max(np.abs(A_code - A_ref)) if A_code.shape == A_ref.shape else float("nan")))
    return A_code if A_code.shape == A_ref.shape else None


def defect7_matrix(lv):
    """what build_C_matrix returns if the mass factors of summand k are taken at level lv[k] instead of lv[m] (naming of the witness only)"""
    stripes = ref.uniform_stripes(lv)
    G = [ref.gram1d(s) for s in stripes]
    S = [ref.stiff1d(s) for s in stripes]
    total = 0.0
    for k in range(len(lv)):
        total = total + ref.kron_all([S[m] if m == k else G[m] * 2.0 ** (lv[m] - lv[k]) for m in range(len(lv))])
    return total


def defect8_matrix(stripes):
    """model of the two known errors of build_C_matrix_dimension_wise (naming of the witness only): (a) the mass factors of summand d are
    taken in dimension d instead of the other dimensions (and applied twice for different points), (b) different points are always
    treated as neighbours in the mass factor and hats whose supports only touch are treated as overlapping in the stiffness factor"""
    import numpy as np
    dim = len(stripes)
    S, Mx = [], []
    for st in stripes:
        st = np.asarray(st, dtype=float)
        p, l, r = st[1:-1], st[:-2], st[2:]
        n = len(p)
        Sd, Md = np.zeros((n, n)), np.zeros((n, n))
        for i in range(n):
            for j in range(n):
                if i == j:
                    Sd[i, j] = 1.0 / (p[i] - l[i]) + 1.0 / (r[i] - p[i])
                    Md[i, j] = (r[i] - l[i]) / 3.0
                else:
                    Md[i, j] = (abs(p[i] - p[j]) / 6.0) ** 2      # "temp_res *= integral" is executed twice for different points
                    Sd[i, j] = 0.0 if (r[i] < l[j] or r[j] < l[i]) else -1.0 / abs(p[i] - p[j])
        S.append(Sd)
        Mx.append(Md)
    idx = list(itertools.product(*[range(len(st) - 2) for st in stripes]))
    I = np.array(idx)
    total = np.zeros((len(idx), len(idx)))
    for d in range(dim):
        sd = S[d][I[:, d][:, None], I[:, d][None, :]]
        md = Mx[d][I[:, d][:, None], I[:, d][None, :]]
        total += sd * md ** (dim - 1)
    return total


def check_C(ctx, C, stripes, uniform, lv=None):
    """gram + psd clauses for one smoothing matrix; returns True if it may be used as M in the normal-equation clause"""
    import numpy as np
    Cref = ref.gradient_gram(stripes)
    site = REG + ("build_C_matrix" if uniform else "build_C_matrix_dimension_wise")
    clause = "B.C.gram_uniform" if uniform else "B.C.gram_dimwise"
    C = np.asarray(C, dtype=float)
    if C.shape != Cref.shape:
        ctx.check(clause, False, site, "shape", "shape %s, expected %s" % (C.shape, Cref.shape))
        return False
    rel = 1e-10 if uniform else 1e-8
    scale = float(np.max(np.abs(Cref)))
    wrong = ~(np.abs(C - Cref) <= rel * np.maximum(np.abs(C), np.abs(Cref)) + 1e-13 * scale)
    wc = "uniform" if uniform else "dimwise"
    if np.any(wrong):
        if uniform:
            if len(set(lv)) > 1 and close(C, defect7_matrix(lv), rel=1e-10, abs_=1e-13 * scale):
                wc = "anisotropic-levelvec"            # mass factors taken at levelvec[k] instead of levelvec[m]
            else:
                wc = "uniform-other"
        else:
            adj = ref.adjacency_mask(stripes)
            if close(C, defect8_matrix(stripes), rel=1e-8, abs_=1e-12 * scale):
                wc = "nonadjacent-hats" if not np.any(wrong & adj) else "mass-factor-dimension-index"
            else:
                wc = "dimwise-other"
    ij = np.argwhere(wrong)
    msg = ""
    if len(ij):
        i, j = ij[0]
        msg = "%d wrong entries, e.g. C[%d,%d]=%r, gradient Gram=%r" % (len(ij), i, j, C[i, j], Cref[i, j])
    gram_ok = ctx.check(clause, not np.any(wrong), site, wc, msg)
    sym = bool(np.array_equal(C, C.T))
    ctx.check("B.C.psd", sym, site, ("uniform" if uniform else "dimwise") + "-asymmetric", "matrix is not exactly symmetric")
    if gram_ok:
        ev = np.linalg.eigvalsh(0.5 * (C + C.T))
        ctx.check("B.C.psd", ev[0] >= -1e-10 * max(1.0, ev[-1]), site, ("uniform" if uniform else "dimwise") + "-eigenvalue",
                  "smallest eigenvalue %r" % ev[0])
    return True


def check_normal(ctx, alphas, A_ref, y, lam, matrix, C_code, site, tag):
    """A_ref here is the design matrix the real code returns for this grid (compared with the hat values by B.design.basis)"""
    import numpy as np
    if A_ref is None:
        return
    alphas = np.asarray(alphas, dtype=float).reshape(-1)
    y = np.asarray(y, dtype=float).reshape(-1)
    m = len(y)
    n = A_ref.shape[1]
    if alphas.shape != (n,):
        ctx.check("B.normal.eq", False, site, tag + "-shape", "surplus vector has shape %s, grid has %d basis functions" % (alphas.shape, n))
        return
    if lam == 0:
        L, r = A_ref.T @ A_ref, A_ref.T @ y
        tag += "-lam0"
    else:
        if matrix == "I":
            Mx = np.eye(n)
        else:
            if C_code is None or np.shape(C_code) != (n, n):
                return                                  # reported by the C clauses
            Mx = np.asarray(C_code, dtype=float)
        L, r = A_ref.T @ A_ref / m + lam * Mx, A_ref.T @ y / m
        tag += "-" + matrix
    res = float(np.linalg.norm(L @ alphas - r))
    scale = float(np.linalg.norm(L, 2) * np.linalg.norm(alphas) + np.linalg.norm(r))
    ctx.check("B.normal.eq", np.all(np.isfinite(alphas)) and res <= 1e-8 * max(scale, 1e-300), site, tag,
              "normal-equation residual %.3e, scale %.3e (m=%d, n=%d)" % (res, scale, m, n))
    if lam != 0:
        # the regularisation term itself must be part of the solved system: the residual is small compared with lambda * |M alpha| (for a tiny lambda the
        # relative test above cannot tell the regularised solution from the plain least-squares one)
        reg = float(lam * np.linalg.norm(Mx @ alphas))
        ctx.check("B.normal.eq", res <= 1e-3 * reg + 1e-13 * scale, site, tag + "-regularisation-term",
                  "normal-equation residual %.3e is not small against the regularisation term lambda*|M alpha| = %.3e (lambda=%g, scale %.3e)" % (res, reg, lam, scale))


def run_opticom(ctx, call, scheme, option, sa):
    """one optimize_coefficients option: must return and leave coefficients summing to one"""
    import numpy as np
    try:
        with quiet():
            call(option)
    except (KeyboardInterrupt, SystemExit, MemoryError):
        raise
    except Exception as e:
        frames = [f for f in traceback.extract_tb(e.__traceback__) if f.filename.endswith("GridOperation.py")]
        fn = frames[-1].name if frames else "optimize_coefficients"
        wc = "raises-array-to-scalar" if "setting an array element with a sequence" in str(e) else "raises"
        ctx.check("B.opticom.sum_one", False, REG + fn, wc, "option %d%s: %s: %s" % (option, " (spatially adaptive)" if sa else "", type(e).__name__, e))
        return
    s = float(np.sum([np.asarray(cg.coefficient, dtype=float).reshape(-1)[0] for cg in scheme]))
    ctx.check("B.opticom.sum_one", abs(s - 1.0) <= 1e-9, REG + ("optimize_coefficients_spatially_adaptive" if sa else "optimize_coefficients"),
              "option%d-sum" % option, "option %d: coefficients sum to %r" % (option, s))


# ------------------------------------------------------------------------------------------------
# cases
# ------------------------------------------------------------------------------------------------
def case_direct_uniform(ctx, case):
    import numpy as np
    from sparseSpACE.ComponentGridInfo import ComponentGridInfo
    d, lv, lam, matrix = case["d"], [int(x) for x in case["lv"]], case["lam"], case["matrix"]
    X, y = make_regression_data(d, case["data"])
    op = new_regression(ctx, X, y, lam, matrix)
    if op is None:
        return
    op.training_data = op.data
    op.training_target_values = op.target_values
    stripes = ref.uniform_stripes(lv)
    A_ref = ref.basis_matrix(stripes, op.training_data)
    alphas = None
    with ctx.guard("B.run.returns", REG + "evaluate_levelvec", "uniform"):
        with quiet():
            alphas = op.evaluate_levelvec(ComponentGridInfo(list(lv), 1))
    A_code = None
    with ctx.guard("B.run.returns", REG + "build_A_matrix", "uniform"):
        with quiet():
            A = op.build_A_matrix(list(lv))
        A_code = check_design(ctx, A, A_ref, REG + "build_A_matrix", "uniform", stripes, op.training_data)
    C = None
    if matrix == "C" or case.get("check_C"):
        with ctx.guard("B.run.returns", REG + "build_C_matrix", "uniform"):
            with quiet():
                C = op.build_C_matrix(list(lv))
            check_C(ctx, C, stripes, True, lv)
    if alphas is not None:
        check_normal(ctx, alphas, A_code, op.training_target_values, lam, matrix, C, REG + ("solve_regression" if lam == 0 else "solve_regression_smooth"), "uniform")


def case_direct_tree(ctx, case):
    import numpy as np
    from sparseSpACE.ComponentGridInfo import ComponentGridInfo
    d, lam, matrix = case["d"], case["lam"], case["matrix"]
    stripes, levels = case["grid"]
    X, y = make_regression_data(d, case["data"])
    op = new_regression(ctx, X, y, lam, matrix)
    if op is None:
        return
    op.training_data = op.data
    op.training_target_values = op.target_values
    A_ref = ref.basis_matrix(stripes, op.training_data)
    cg = ComponentGridInfo([max(l) for l in levels], 1)
    alphas = None
    fn = "solve_regression_dimension_wise" if lam == 0 else "solve_regression_dimension_wise_smooth"
    with ctx.guard("B.run.returns", REG + fn, "dimwise"):
        with quiet():
            alphas = getattr(op, fn)(stripes, levels, cg)
    A_code = None
    with ctx.guard("B.run.returns", REG + "build_A_matrix_dimension_wise", "dimwise"):
        with quiet():
            A = op.build_A_matrix_dimension_wise(stripes, levels)
        A_code = check_design(ctx, A, A_ref, REG + "build_A_matrix_dimension_wise", "dimwise", stripes, op.training_data)
    C = None
    with ctx.guard("B.run.returns", REG + "build_C_matrix_dimension_wise", "dimwise"):
        with quiet():
            C = op.build_C_matrix_dimension_wise(stripes, levels)
        check_C(ctx, C, stripes, False)
    if alphas is not None:
        check_normal(ctx, alphas, A_code, op.training_target_values, lam, matrix, C, REG + fn, "dimwise")


def check_trained(ctx, op, combi, lam, matrix, tag):
    """design matrix, smoothing matrix and normal equations on every component grid of a StandardCombi returned by train()"""
    import numpy as np
    for cg in combi.scheme:
        lv = [int(x) for x in cg.levelvector]
        stripes = ref.uniform_stripes(lv)
        A_ref = ref.basis_matrix(stripes, op.training_data)
        alphas = op.surpluses.get(tuple(lv))
        if alphas is None:
            ctx.check("B.run.returns", False, REG + "evaluate_levelvec", "missing-surplus", "no surpluses stored for %s" % (lv,))
            continue
        C = None
        if matrix == "C" and lam != 0 and ref.num_points(stripes) <= 120:
            with ctx.guard("B.run.returns", REG + "build_C_matrix", tag):
                with quiet():
                    op.grid.numPoints = 2 ** np.asarray(lv, dtype=int) - 1
                    C = op.build_C_matrix(list(lv))
                    C2 = op.build_C_matrix(list(lv))
                check_C(ctx, C, stripes, True, lv)
                ctx.check("B.hist.idempotent", np.array_equal(np.asarray(C), np.asarray(C2)), REG + "build_C_matrix", tag, "second call differs")
        A_code = None
        with ctx.guard("B.run.returns", REG + "build_A_matrix", tag):
            with quiet():
                op.grid.numPoints = 2 ** np.asarray(lv, dtype=int) - 1
                A = op.build_A_matrix(list(lv))
                A2 = op.build_A_matrix(list(lv))
            A_code = check_design(ctx, A, A_ref, REG + "build_A_matrix", tag, stripes, op.training_data)
            ctx.check("B.hist.idempotent", np.array_equal(np.asarray(A), np.asarray(A2)), REG + "build_A_matrix", tag, "second call differs")
        check_normal(ctx, alphas, A_code, op.training_target_values, lam, matrix, C, REG + ("solve_regression" if lam == 0 else "solve_regression_smooth"), tag)


def check_trained_sa(ctx, op, sa, lam, matrix, tag):
    import numpy as np
    for cg in sa.scheme:
        lv = tuple(int(x) for x in cg.levelvector)
        stripes, levels, _ = sa.get_point_coord_for_each_dim(cg.levelvector)
        stripes = [[float(x) for x in s] for s in stripes]
        A_ref = ref.basis_matrix(stripes, op.training_data)
        alphas = op.surpluses.get(lv)
        if alphas is None:
            ctx.check("B.run.returns", False, REG + "calculate_operation_dimension_wise", "missing-surplus", "no surpluses stored for %s" % (lv,))
            continue
        C = None
        if matrix == "C" and lam != 0:
            with ctx.guard("B.run.returns", REG + "build_C_matrix_dimension_wise", tag):
                with quiet():
                    C = op.build_C_matrix_dimension_wise(stripes, levels)
                check_C(ctx, C, stripes, False)
        A_code = None
        with ctx.guard("B.run.returns", REG + "build_A_matrix_dimension_wise", tag):
            with quiet():
                A = op.build_A_matrix_dimension_wise(stripes, levels)
            A_code = check_design(ctx, A, A_ref, REG + "build_A_matrix_dimension_wise", tag, stripes, op.training_data)
        check_normal(ctx, alphas, A_code, op.training_target_values, lam, matrix, C,
                     REG + ("solve_regression_dimension_wise" if lam == 0 else "solve_regression_dimension_wise_smooth"), tag + "-dimwise")


def case_train(ctx, case):
    d, lam, matrix = case["d"], case["lam"], case["matrix"]
    X, y = make_regression_data(d, case["data"])
    op = new_regression(ctx, X, y, lam, matrix)
    if op is None:
        return
    combi = None
    with ctx.guard("B.run.returns", REG + "train", "standard"):
        with quiet():
            combi = op.train(case["p_test"], case["lmin"], case["lmax"])
    if combi is None:
        return
    check_trained(ctx, op, combi, lam, matrix, "train")
    for option in case.get("options", [1, 2, 3]):
        run_opticom(ctx, lambda o: op.optimize_coefficients(combi, o), combi.scheme, option, False)


def case_train_sa(ctx, case):
    d, lam, matrix = case["d"], case["lam"], case["matrix"]
    X, y = make_regression_data(d, case["data"])
    op = new_regression(ctx, X, y, lam, matrix)
    if op is None:
        return
    sa = None
    with ctx.guard("B.run.returns", REG + "train_spatially_adaptive", "dimwise"):
        with quiet():
            sa = op.train_spatially_adaptive(case["p_test"], case["margin"], 1e-9, case["max_evaluations"])
    if sa is None:
        return
    check_trained_sa(ctx, op, sa, lam, matrix, "train")
    for option in case.get("options", [1, 2, 3]):
        run_opticom(ctx, lambda o: op.optimize_coefficients_spatially_adaptive(sa, o), sa.scheme, option, True)


def case_retrain(ctx, case):
    """history on ONE Regression object: several trainings with different arguments (test share, regularisation); after each one every
    component grid must satisfy the clauses for the CURRENT training set; the last state must equal that of a fresh object trained once
    with the last arguments; surpluses handed out by earlier trainings must not change"""
    import numpy as np
    from sparseSpACE.GridOperation import Regression
    from sparseSpACE.Utils import log_levels, print_levels
    d, matrix, sa_mode = case["d"], case["matrix"], case["how"] == "train_sa"
    X, y = make_regression_data(d, case["data"])
    op = new_regression(ctx, X, y, case["runs"][0]["lam"], matrix)
    if op is None:
        return
    site = REG + ("train_spatially_adaptive" if sa_mode else "train")
    handed, result = [], None

    def train(o, r):
        if sa_mode:
            return o.train_spatially_adaptive(r["p_test"], case["margin"], 1e-9, case["max_evaluations"])
        return o.train(r["p_test"], case["lmin"], case["lmax"])
    for k, r in enumerate(case["runs"]):
        op.regularization = r["lam"]
        result = None
        with ctx.guard("B.run.returns", site, "retrain%d" % k):
            with quiet():
                result = train(op, r)
        if result is None:
            return
        tag = "train" if k == 0 else "retrain"
        (check_trained_sa if sa_mode else check_trained)(ctx, op, result, r["lam"], matrix, tag)
        for cg in result.scheme:
            v = op.surpluses.get(tuple(int(x) for x in cg.levelvector))
            if isinstance(v, np.ndarray):
                handed.append((k, tuple(int(x) for x in cg.levelvector), v, v.copy()))
        if not sa_mode:
            with ctx.guard("B.run.returns", REG + "test", tag):
                with quiet():
                    e1, e2 = op.test(result), op.test(result)
                ctx.check("B.hist.idempotent", e1 == e2, REG + "test", tag, "test error %r then %r on the same trained object" % (e1, e2))
    bad = [(k, lv) for k, lv, obj, cp in handed if not np.array_equal(obj, cp)]
    ctx.check("B.hist.report_stable", not bad, site, "retrain", "surplus arrays handed out by earlier trainings were modified later: %s" % bad[:4])
    # fresh object, trained once with the last arguments
    last = case["runs"][-1]
    fresh = fres = None
    with ctx.guard("B.run.returns", site, "fresh"):
        with quiet():
            fresh = Regression(np.array(X), np.array(y), last["lam"], matrix, rangee=RANGE, log_level=log_levels.ERROR, print_level=print_levels.ERROR)
            fres = train(fresh, last)
    if fres is None:
        return
    s_old = sorted((tuple(int(x) for x in cg.levelvector), float(cg.coefficient)) for cg in result.scheme)
    s_new = sorted((tuple(int(x) for x in cg.levelvector), float(cg.coefficient)) for cg in fres.scheme)
    okay = s_old == s_new
    worst = 0.0
    if okay:
        for lv, _ in s_old:
            a0, a1 = np.asarray(op.surpluses[lv], dtype=float), np.asarray(fresh.surpluses[lv], dtype=float)
            if a0.shape != a1.shape:
                okay = False
                break
            worst = max(worst, float(np.max(np.abs(a0 - a1) / (1.0 + np.abs(a1)))) if a0.size else 0.0)
        okay = okay and worst <= 1e-9
    ctx.check("B.hist.fresh_equal", okay, site, "retrain-sa" if sa_mode else "retrain",
              "state after %d trainings on one object differs from a fresh object trained once with the last arguments "
              "(schemes equal: %s, largest relative surplus difference %.3e)" % (len(case["runs"]), s_old == s_new, worst))


def case_targets(ctx, case):
    """construction with targets below -1 (explicit tuple range, so that only the target handling is exercised)"""
    import numpy as np
    from sparseSpACE.GridOperation import Regression
    X, y = make_regression_data(case["d"], case["data"])
    y = y - case["shift"]
    with ctx.guard("B.ctor.targets", REG + "__init__", "target-below-minus-one" if np.min(y) < -1 else "target-above-minus-one"):
        with quiet():
            Regression(np.array(X), np.array(y), case["lam"], case["matrix"], rangee=RANGE)


LAMBDAS = (0.0, 1e-3, 0.1, 1e-9)      # 1e-9: a positive regularisation below numpy's default absolute tolerance (missed seed C20_9)


@ref.single_thread
def run(ctx):
    import time
    rng = ctx.rng
    quick = ctx.quick()
    tsec = {}
    t0 = time.time()
    # ---- (a) direct, uniform: every level vector once per repetition
    lvs = []
    for d in (1, 2, 3):
        for lv in itertools.product(range(1, 5), repeat=d):
            n = 1
            for l in lv:
                n *= 2 ** l - 1
            if n <= 400:
                lvs.append((d, lv, n))
    reps = 1 if quick else 6
    for rep in range(reps):
        for d, lv, n in lvs:
            if ctx.out_of_time(0.4):
                break
            if n <= (64 if quick else 120):
                matrix, lam = rng.choice(["C", "C", "I"]), rng.choice(LAMBDAS)
            else:
                if quick and rng.random() < 0.6:
                    continue
                matrix, lam = rng.choice([("I", 1e-3), ("I", 0.1), ("C", 0.0), ("I", 0.0)])
            case = {"kind": "direct_uniform", "d": d, "lv": list(lv), "lam": lam, "matrix": matrix, "data": random_data_desc(rng),
                    "check_C": n <= (64 if quick else 120)}
            ctx.case(case)
            case_direct_uniform(ctx, case)
    # dimensions 4 and 5 (the regression classes take any dimension): small level vectors with levels >= 2 in the slow-running dimensions, where grid
    # neighbours lie far apart in the lexicographic numbering (missed seed C20_a: a band bound that is exact up to three dimensions)
    for d, lv in ((4, (2, 2, 1, 1)), (4, (2, 2, 2, 2)), (4, (1, 2, 1, 2)), (5, (2, 1, 2, 1, 1))):
        if quick and lv == (2, 2, 2, 2) and ctx.out_of_time(0.3):
            continue
        case = {"kind": "direct_uniform", "d": d, "lv": list(lv), "lam": 1e-3, "matrix": "C", "data": random_data_desc(rng), "check_C": True}
        ctx.case(case)
        case_direct_uniform(ctx, case)
    tsec["direct_uniform"] = time.time() - t0
    t0 = time.time()
    # ---- (a) direct, bisection-tree stripes
    n_tree = 80 if quick else 1000
    for k in range(n_tree):
        if ctx.out_of_time(0.6):
            break
        d = rng.choice([1, 2, 2, 3])
        while True:
            stripes, levels = ref.random_tree_grid(rng, d)
            if ref.num_points(stripes) <= (60 if quick else 100):
                break
        case = {"kind": "direct_tree", "d": d, "grid": [stripes, levels], "lam": rng.choice(LAMBDAS), "matrix": rng.choice(["C", "C", "I"]),
                "data": random_data_desc(rng)}
        ctx.case(case)
        case_direct_tree(ctx, case)
    tsec["direct_tree"] = time.time() - t0
    t0 = time.time()
    # ---- (b) standard training + coefficient optimisation
    # levels 2..4 without regularisation: the error-weighted raw coefficient sum of option 3 is NEGATIVE for these data sets (seed C20_6 normalised by |sum|)
    for sd in ((3,) if quick else (3, 7, 11)):
        case = {"kind": "train", "d": 2, "lam": 0.0, "matrix": "C", "p_test": 0.2, "lmin": 2, "lmax": 4, "data": {"kind": "plain", "M": 80, "seed": sd}, "options": [3]}
        ctx.case(case)
        case_train(ctx, case)
    n_train = 30 if quick else 300
    for k in range(n_train):
        if ctx.out_of_time(0.8):
            break
        d = rng.choice([1, 2, 2, 3])
        lam, matrix = rng.choice(LAMBDAS), rng.choice(["C", "C", "I"])
        lmin = rng.choice([1, 1, 2])
        small = {1: 4, 2: 3, 3: 2}[d]
        lmax = max(lmin, rng.randint(2, small))
        options = [1, 2, 3]
        if rng.random() < 0.25 and d >= 2:                 # larger levels: the regularisation term of option 1 would cost minutes
            lmax = small + 1
            options = [2, 3] if lam != 0 else [1, 2, 3]
        case = {"kind": "train", "d": d, "lam": lam, "matrix": matrix, "p_test": rng.choice([0.1, 0.2, 0.4]), "lmin": min(lmin, lmax), "lmax": lmax,
                "data": random_data_desc(rng, mmin=12), "options": options}
        ctx.case(case)
        case_train(ctx, case)
    tsec["train"] = time.time() - t0
    t0 = time.time()
    # ---- (c) dimension-wise training + coefficient optimisation
    n_sa = 20 if quick else 250
    for k in range(n_sa):
        if ctx.out_of_time(0.95):
            break
        d = rng.choice([2, 2, 3]) if k % 5 else 1
        case = {"kind": "train_sa", "d": d, "lam": rng.choice(LAMBDAS), "matrix": rng.choice(["C", "C", "I"]), "p_test": rng.choice([0.1, 0.2, 0.4]),
                "margin": rng.choice([0.5, 0.7, 0.9]), "max_evaluations": rng.choice([0, 10, 25, 40] if d < 3 else [0, 10, 25]),
                "data": random_data_desc(rng, mmin=12), "options": [1, 2, 3]}
        ctx.case(case)
        case_train_sa(ctx, case)
    tsec["train_sa"] = time.time() - t0
    # ---- histories on one object: train twice / three times with other arguments
    t0 = time.time()
    for k in range(12 if quick else 100):
        if ctx.out_of_time(0.97):
            break
        sa_mode = k % 4 == 3
        d = rng.choice([1, 2, 2, 3]) if not sa_mode else rng.choice([1, 2, 2])
        lams = [rng.choice([1e-3, 0.1, 0.1, 0.0])]
        lams.append(lams[0] if rng.random() < 0.6 else rng.choice(LAMBDAS))
        ps = rng.sample([0.1, 0.2, 0.4, 0.6], 2)
        runs = [{"p_test": ps[0], "lam": lams[0]}, {"p_test": ps[1], "lam": lams[1]}]
        if rng.random() < 0.4:
            runs.append({"p_test": ps[1], "lam": rng.choice([1e-2, 0.1, 1e-3])})      # same split, other regularisation
        small = {1: 4, 2: 3, 3: 2}[d]
        case = {"kind": "retrain", "how": "train_sa" if sa_mode else "train", "d": d, "matrix": rng.choice(["C", "I"]), "runs": runs,
                "lmin": 1, "lmax": rng.randint(2, small), "margin": rng.choice([0.5, 0.9]), "max_evaluations": rng.choice([10, 25]),
                "data": random_data_desc(rng, mmin=30)}
        ctx.case(case)
        case_retrain(ctx, case)
    tsec["retrain"] = time.time() - t0
    # ---- targets below -1
    for k in range(3 if quick else 12):
        d = rng.choice([1, 2, 3])
        case = {"kind": "targets", "d": d, "lam": rng.choice(LAMBDAS), "matrix": rng.choice(["C", "I"]), "shift": rng.choice([0.0, 0.5, 3.0, 100.0]) if k else 3.0,
                "data": random_data_desc(rng)}
        ctx.case(case)
        case_targets(ctx, case)
    ctx.note("section seconds: %s" % {k: round(v, 1) for k, v in tsec.items()})


@ref.single_thread
def replay(ctx, case):
    {"direct_uniform": case_direct_uniform, "direct_tree": case_direct_tree, "train": case_train, "train_sa": case_train_sa, "retrain": case_retrain,
     "targets": case_targets}[case["kind"]](ctx, case)
