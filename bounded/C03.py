"""C03 bounded stand-in: after every refinement step of the REAL dimension-wise strategy the component grids form a valid
nested combination (adversarial refinement histories through the public ErrorCalculator API)."""
import itertools
import numpy as np

from bounded import _dimwise_common as C
from bounded.api import close, quiet

BUDGET = {"quick": 60.0, "thorough": 840.0}
BOUND = ("SpatiallyAdaptiveSingleDimensions2 + GlobalTrapezoidalGrid, d in {2,3}, (lmin,lmax) in {(1,2),(1,3),(2,3)} (+ four fixed (2,4) histories, versions 2/3), versions "
         "{6,2,3,7,8}, rebalancing on/off (safety factor in {0,0.1,0.3}), boundary on/off, margin in {0.5,0.9,1.0}, 4 domains (unit, "
         "[-3,6]^d, anisotropic, non-dyadic), 3-6 refinement steps of the real performSpatiallyAdaptiv loop (tol=-1) driven by seeded "
         "adversarial errors per interval (arbitrary subsets >= margin*max incl. ties, zeros, all-zero rounds, single interval, "
         "one-sided and deepest-first histories); every (version x rebalancing x boundary) combination at least once, the rest "
         "seeded random; f = hash-based random table function with values in [1,2); all component grids of the current scheme, all "
         "points of the combined grid")
BOUND += "; round-10 additions: after every step the tensor-grid entry point interpolate_grid at the product of the combined grid's coordinates (at most 2500 points) against __call__"
RULE = BOUND + ("; a case is one configuration + oracle seed; the clauses are evaluated on the initial scheme and after every refine(); "
                "non-trivial = at least one refinement step was performed")
CLAUSES = {
    "B.run.completes": "the real loop and the observed queries (get_point_coord_for_each_dim, get_points_component_grid, __call__) return normally",
    "B.grid1d.sorted": "for every component grid and dimension the 1-D point list of get_point_coord_for_each_dim is strictly ascending",
    "B.grid1d.endpoints": "with boundary points: every 1-D point list starts at a[d] and ends at b[d]",
    "B.grid1d.level_only": "the 1-D point list of dimension d is the same for all component grids with the same level in d (and for repeated queries in any order)",
    "B.grid1d.monotone": "for levels l < l' present in dimension d: points(d,l) is a subset of points(d,l')",
    "B.grid.tensor": "get_points_component_grid(levelvec) is the tensor product of the 1-D lists (without the two end points if boundary is off), without duplicates",
    "B.combi.coeff_sum": "for every point of the combined grid the coefficients of the component grids containing it sum to exactly 1",
    "B.combi.interpolation": "the combined interpolant __call__ equals f at every point of the combined grid (rel 1e-9, abs 1e-12; f in [1,2))",
}


class Obs(C.Observer):
    def __init__(self, ctx):
        self.ctx = ctx

    def tag(self, sa):
        c = self.case
        return "v%d-%s-%s" % (c["version"], "reb" if c["rebalancing"] else "noreb", "bnd" if c["boundary"] else "nobnd")

    def state(self, sa, step):
        ctx = self.ctx
        tag = self.tag(sa)
        dim = sa.dim
        boundary = bool(self.case["boundary"])
        scheme = [(tuple(int(x) for x in g.levelvector), g.coefficient) for g in sa.scheme]
        lists = {}    # levelvector -> list of 1-D lists
        ok_run = True
        with ctx.guard("B.run.completes", C.SITE_COORD, "raises-coords-" + tag):
            for lv, _ in scheme:
                lists[lv] = [list(x) for x in sa.get_point_coord_for_each_dim(list(lv))[0]]
        if len(lists) != len(scheme):
            return
        # second pass in reverse order (statefulness / cache dependence)
        second = {}
        with ctx.guard("B.run.completes", C.SITE_COORD, "raises-coords-" + tag):
            for lv, _ in reversed(scheme):
                second[lv] = [list(x) for x in sa.get_point_coord_for_each_dim(list(lv))[0]]
        bad_sorted, bad_ends = [], []
        by_level = {}
        bad_level = []
        for lv, _ in scheme:
            for d in range(dim):
                pts = lists[lv][d]
                if len(pts) < 2 or not all(pts[i] < pts[i + 1] for i in range(len(pts) - 1)):
                    bad_sorted.append((lv, d, pts[:10]))
                if boundary and (len(pts) < 2 or pts[0] != sa.a[d] or pts[-1] != sa.b[d]):
                    bad_ends.append((lv, d, pts[:1], pts[-1:]))
                key = (d, lv[d])
                ref = by_level.setdefault(key, (lv, pts))
                if ref[1] != pts:
                    bad_level.append((d, lv[d], ref[0], lv, ref[1][:10], pts[:10]))
                if lv in second and second[lv][d] != pts:
                    bad_level.append((d, lv[d], lv, "repeated query differs", pts[:10], second[lv][d][:10]))
        ctx.check("B.grid1d.sorted", not bad_sorted, C.SITE_COORD, "unsorted-" + tag, "step %d: %s" % (step, bad_sorted[:2]))
        if boundary:
            ctx.check("B.grid1d.endpoints", not bad_ends, C.SITE_COORD, "endpoints-" + tag, "step %d a=%s b=%s: %s" % (step, list(sa.a), list(sa.b), bad_ends[:2]))
        ctx.check("B.grid1d.level_only", not bad_level, C.SITE_COORD, "level-only-" + tag,
                  "step %d lmax %s: (d, level, levelvec1, levelvec2, points1, points2) %s" % (step, list(sa.lmax), bad_level[:2]))
        bad_mono = []
        for d in range(dim):
            lvls = sorted(l for (dd, l) in by_level if dd == d)
            for l1, l2 in zip(lvls, lvls[1:]):
                s1, s2 = set(by_level[(d, l1)][1]), set(by_level[(d, l2)][1])
                if not s1 <= s2:
                    bad_mono.append((d, l1, l2, sorted(s1 - s2)[:5]))
        ctx.check("B.grid1d.monotone", not bad_mono, C.SITE_COORD, "monotone-" + tag,
                  "step %d lmax %s: (d, l, l', points of l missing in l') %s" % (step, list(sa.lmax), bad_mono[:3]))
        # component grids as point sets
        coeff_sum = {}
        bad_tensor = []
        n_ok = 0
        for lv, c in scheme:
            with ctx.guard("B.run.completes", C.SITE_POINTS, "raises-points-" + tag):
                got = sa.get_points_component_grid(list(lv))
                n_ok += 1
                one_d = [x if boundary else x[1:-1] for x in lists[lv]]
                expect = set(itertools.product(*one_d))
                got_set = set(tuple(p) for p in got)
                n_exp = 1
                for x in one_d:
                    n_exp *= len(x)
                if got_set != expect or len(got) != n_exp:
                    bad_tensor.append((lv, len(got), n_exp, sorted(got_set ^ expect)[:3]))
                for p in got_set:
                    coeff_sum[p] = coeff_sum.get(p, 0) + c
        if n_ok != len(scheme):
            return
        ctx.check("B.grid.tensor", not bad_tensor, C.SITE_POINTS, "tensor-" + tag, "step %d: (levelvec, #returned, #expected, symmetric difference) %s" % (step, bad_tensor[:2]))
        bad_sum = [(p, s) for p, s in coeff_sum.items() if s != 1]
        ctx.check("B.combi.coeff_sum", not bad_sum, C.SITE_POST, "coeffsum-" + tag,
                  "step %d lmax %s scheme %s: %d of %d points, e.g. %s" % (step, list(sa.lmax), scheme[:12], len(bad_sum), len(coeff_sum), bad_sum[:3]))
        pts = sorted(coeff_sum)
        if not pts:
            raise C.HarnessError("empty combined grid")
        vals = None
        with ctx.guard("B.run.completes", C.SITE_CALL, "raises-call-" + tag):
            with quiet():
                vals = sa(pts)
        if vals is None:
            return
        bad_int = []
        for p, v in zip(pts, vals):
            fv = self.f(p)
            if len(v) != 1 or not close(v[0], fv, rel=1e-9, abs_=1e-12):
                bad_int.append((p, float(v[0]), fv))
        ctx.check("B.combi.interpolation", not bad_int, C.SITE_CALL, "interp-" + tag,
                  "step %d lmax %s: %d of %d points differ, e.g. (point, combi, f) %s" % (step, list(sa.lmax), len(bad_int), len(pts), bad_int[:3]))
        # the tensor-grid entry point of the same interpolant (interpolate_grid: per-dimension coordinate lists), asked after EVERY step on the same object: it must
        # agree with __call__ at the product points, which contain every point of the combined grid (missed seed C03_a: point stripes cached per level vector)
        d_ = len(pts[0])
        coords = [sorted(set(p[i] for p in pts)) for i in range(d_)]
        while int(np.prod([len(c) for c in coords])) > 2500:
            k_ = int(np.argmax([len(c) for c in coords]))
            coords[k_] = coords[k_][::2]
        prod = list(itertools.product(*coords))
        gvals = None
        with ctx.guard("B.run.completes", C.SITE_CALL, "raises-interpolate-grid-" + tag):
            with quiet():
                gvals = np.asarray(sa.interpolate_grid([np.array(c) for c in coords]), dtype=float)
                cvals = np.asarray(sa(prod), dtype=float)
        if gvals is not None:
            okg = gvals.shape == cvals.shape and bool(np.all(np.abs(gvals - cvals) <= 1e-9 * (1 + np.abs(cvals))))
            ctx.check("B.combi.interpolation", okg, C.SITE_CALL, "interp-grid-" + tag,
                      "step %d lmax %s: interpolate_grid differs from __call__ at the product points (shapes %s / %s, max difference %s)"
                      % (step, list(sa.lmax), gvals.shape, cvals.shape, float(np.max(np.abs(gvals - cvals))) if gvals.shape == cvals.shape else None))


def run_case(ctx, case):
    obs = Obs(ctx)
    sa, steps = C.run_adaptive(ctx, case, obs, "B.run.completes")
    return steps


def anchor_cases():
    """fixed, seed independent histories: start levels with lmin >= 2 and lmax = lmin + 2 under the level-independent coarsening versions 2 / 3, refined one-sidedly
    / deepest-first so that a region stays two levels coarser than lmax (the level-lmin component grids then differ from the level-(lmin+1) ones only through the
    subtraction value; found by missed seed C03_7)"""
    for version in (2, 3):
        for style, oseed in (("deep", 631685690), ("edge_left", 77)):
            yield {"kind": "adaptive", "d": 2, "lmin": 2, "lmax": 4, "version": version, "rebalancing": 0, "safety": 0.3, "boundary": 1, "margin": 0.9, "steps": 4,
                   "domain": "unit", "style": style, "oseed": oseed}


def run(ctx):
    quick = ctx.quick()
    for case in anchor_cases():
        ctx.case(case)
        run_case(ctx, case)
    for case in C.covering_cases(ctx.rng, quick):
        if ctx.out_of_time(0.65 if quick else 0.85):
            ctx.note("covering cases cut by the time budget")
            break
        ctx.case(case)
        run_case(ctx, case)
    n = 0
    while not ctx.out_of_time(0.65 if quick else 0.85) and n < (400 if quick else 100000):
        case = C.random_case(ctx.rng, quick)
        ctx.case(case)
        run_case(ctx, case)
        n += 1


def replay(ctx, case):
    run_case(ctx, case)
