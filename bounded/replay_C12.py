"""native replay handlers for C12 counter-models"""
from bounded.replay_models import handler


@handler("C12.call_single")
def c12_call_single(inp, obligation):
    import numpy as np
    from sparseSpACE.Function import GenzCornerPeak
    bad = []
    for pt in [(0.3, 0.4), (0.0, 1.0)]:
        f = GenzCornerPeak(coeffs=[1.0, 2.0])
        if not inp.get("do_cache", True):
            f.deactivate_caching()
        expected = np.asarray(f.eval(pt)).reshape(-1)
        try:
            got = f(pt)
            got2 = f(pt)
        except Exception as e:  # noqa
            bad.append("f(%r) with do_cache=%r raised %s: %s" % (pt, inp.get("do_cache", True), type(e).__name__, e))
            continue
        if not (np.allclose(got, expected) and np.allclose(got2, expected) and np.shape(got) == (f.output_length(),)):
            bad.append("f(%r)=%r, eval=%r" % (pt, got, expected))
        if inp.get("do_cache", True) and f.get_f_dict_size() != 1:
            bad.append("counter %d after evaluating one distinct point" % f.get_f_dict_size())
    return bool(bad), {"do_cache": inp.get("do_cache", True), "violations": bad}


def _gauss_box(f, start, end, n=6):
    """tensor Gauss-Legendre quadrature (exact for the polynomial degrees used here)"""
    import itertools
    import numpy as np
    xs, ws = np.polynomial.legendre.leggauss(n)
    total = 0.0
    for idx in itertools.product(range(n), repeat=len(start)):
        p, w = [], 1.0
        for d, i in enumerate(idx):
            h = 0.5 * (end[d] - start[d])
            p.append(start[d] + h * (xs[i] + 1.0))
            w *= ws[i] * h
        total += w * float(np.asarray(f(tuple(p))).reshape(-1)[0])
    return total


@handler("C12.poly")
def c12_poly(inp, obligation):
    """polynomial test functions: the real eval against the stated polynomial, the real analytic integral against Gauss quadrature of the real eval"""
    import numpy as np
    import sparseSpACE.Function as F
    d, k = int(inp["dim"]), inp.get("degree")
    coeffs = [float(c) for c in inp["coeffs"]]
    cls = getattr(F, inp["cls"])
    f = cls(coeffs) if k is None else cls(coeffs, degree=int(k))
    bad = []
    if inp["method"] == "eval":
        x = [float(v) for v in inp["x"]]
        kk = 1 if k is None else int(k)
        terms = [coeffs[i] * x[i] ** kk for i in range(d)]
        want = float(np.sum(terms)) if inp["cls"] == "FunctionMultilinear" else float(np.prod(terms))
        got = float(np.asarray(f.eval(tuple(x))).reshape(-1)[0])
        if abs(got - want) > 1e-9 * max(1.0, abs(want)):
            bad.append("eval(%r) = %r, stated polynomial = %r" % (x, got, want))
    else:
        s, e = [float(v) for v in inp["start"]], [float(v) for v in inp["end"]]
        got = f.getAnalyticSolutionIntegral(s, e)
        if got is None:
            bad.append("analytic integral returned None")
        else:
            got = float(np.asarray(got).reshape(-1)[0])
            want = _gauss_box(f.eval, s, e)
            if abs(got - want) > 1e-9 * max(1.0, abs(want)):
                bad.append("analytic integral over %r..%r = %r, Gauss quadrature of eval = %r" % (s, e, got, want))
    return bool(bad), {"class": inp["cls"], "coeffs": coeffs, "violations": bad}


@handler("C12.constant")
def c12_constant(inp, obligation):
    import numpy as np
    from sparseSpACE.Function import ConstantValue
    v = float(inp.get("value") or 1.0) or 1.0
    bad = []
    for s, e in [([0.0], [2.0]), ([0.0, 1.0], [2.0, 4.0]), ([-1.0, 0.0, 0.5], [1.0, 3.0, 1.0])]:
        f = ConstantValue(v)
        got = f.getAnalyticSolutionIntegral(s, e)
        want = v * float(np.prod(np.array(e) - np.array(s)))
        if got is None or abs(float(got) - want) > 1e-12 * max(1.0, abs(want)):
            bad.append("ConstantValue(%r) over %r..%r: analytic integral %r, value * volume %r" % (v, s, e, got, want))
    return bool(bad), {"violations": bad}


@handler("C12.call_empty")
def c12_call_empty(inp, obligation):
    import numpy as np
    from sparseSpACE.Function import GenzCornerPeak, FunctionCantileverBeamD
    bad = []
    for f in (GenzCornerPeak(coeffs=[1.0, 2.0]), FunctionCantileverBeamD()):
        for batch in ([], np.empty((0, 2))):
            got = f(batch)
            if np.shape(got) != (0, f.output_length()):
                bad.append("%s(%r) has shape %r, expected (0, %d)" % (type(f).__name__, batch, np.shape(got), f.output_length()))
            if f.get_f_dict_size() != 0:
                bad.append("counter %d after an empty batch" % f.get_f_dict_size())
    return bool(bad), {"violations": bad}
