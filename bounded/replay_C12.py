"""native replay handlers for C12 counter-models"""
from bounded.replay_models import handler


@handler("C12.call_single")
def c12_call_single(inp, obligation):
    import numpy as np
    from sparseSpACE.Function import GenzCornerPeak
    bad = []
    for pt in [(0.3, 0.4), (0.0, 1.0)]:
        f = GenzCornerPeak(coeffs=[1.0, 2.0])
        if not inp.get("do_cache", True):
            f.deactivate_caching()
        expected = np.asarray(f.eval(pt)).reshape(-1)
        try:
            got = f(pt)
            got2 = f(pt)
        except Exception as e:  # noqa
            bad.append("f(%r) with do_cache=%r raised %s: %s" % (pt, inp.get("do_cache", True), type(e).__name__, e))
            continue
        if not (np.allclose(got, expected) and np.allclose(got2, expected) and np.shape(got) == (f.output_length(),)):
            bad.append("f(%r)=%r, eval=%r" % (pt, got, expected))
        if inp.get("do_cache", True) and f.get_f_dict_size() != 1:
            bad.append("counter %d after evaluating one distinct point" % f.get_f_dict_size())
    return bool(bad), {"do_cache": inp.get("do_cache", True), "violations": bad}
