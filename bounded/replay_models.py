"""Replay of a solver counter-model on the REAL function:  /venv/bin/python bounded/replay_models.py in.json out.json
in.json = {"property","obligation","site","input": {"kind": <handler>, ...}}.  The handler builds native arguments, calls the real
function from the /repo working tree and evaluates the runtime form of the refuted clause.  reproduced=True means the real code
violates the clause on that input."""
import json
import os
import sys
import traceback

HERE = os.path.dirname(os.path.abspath(__file__))
sys.path.insert(0, os.path.dirname(HERE))
from bounded import api  # noqa: E402

HANDLERS = {}


def handler(kind):
    def deco(f):
        HANDLERS[kind] = f
        return f
    return deco


@handler("C03.modify")
def c03_modify(inp, obligation):
    from sparseSpACE.spatiallyAdaptiveSingleDimension2 import SpatiallyAdaptiveSingleDimensions2 as K
    o = object.__new__(K)
    o.dim, o.lmin, o.lmax = inp["dim"], list(inp["lmin"]), list(inp["lmax"])
    d, l = inp["d"], inp["levelvec"][inp["d"]]
    r = K.modify_according_to_levelvec(o, inp["m"], d, inp["max_level"], list(inp["levelvec"]))
    out = {"result": r}
    bad = []
    if inp.get("_property") == "C04" and not (l - r >= o.lmin[d]):      # exactness of the initial scheme: C04's clause, not C03's
        bad.append("selected level %d below lmin %d" % (l - r, o.lmin[d]))
    if not (r >= 0):
        bad.append("negative subtraction value %d" % r)
    if inp.get("levelvec_b") is not None:
        lb = inp["levelvec_b"][d]
        rb = K.modify_according_to_levelvec(o, inp["m"], d, inp["max_level"], list(inp["levelvec_b"]))
        out["result_b"] = rb
        if lb == l + 1 and not (l - r <= lb - rb):
            bad.append("selected level decreases with the component level: f(%d)=%d > f(%d)=%d" % (l, l - r, lb, lb - rb))
        if lb == l and r != rb:
            bad.append("result depends on other entries of the level vector")
    out["violations"] = bad
    return bool(bad), out


def main():
    inp = json.load(open(sys.argv[1]))
    res = {"reproduced": False}
    try:
        api.use_repo()
        for name in sorted(os.listdir(HERE)):
            if name.startswith("replay_") and name.endswith(".py") and name != "replay_models.py":
                __import__("bounded." + name[:-3])
        import bounded.replay_models as rm   # the registry lives in the imported module, not in __main__
        i = inp.get("input") or {}
        if isinstance(i, dict):
            i["_property"] = inp.get("property")
        h = rm.HANDLERS.get(i.get("kind"))
        if h is None:
            res["detail"] = "no native replay handler for %r" % i.get("kind")
        else:
            ob = inp.get("obligation") or ""
            try:
                with api.quiet():
                    ok, detail = h(i, ob)
                res = {"reproduced": bool(ok), "detail": detail}
                if "returns-normally#" in ob:
                    res = {"reproduced": False, "detail": {"note": "the real function returned normally on this input", "handler": detail}}
            except Exception as e:  # noqa
                # obligation `returns-normally#<Exc>`: the contract says the real function does not raise under its precondition
                exc = ob.split("returns-normally#")[1].split("@")[0] if "returns-normally#" in ob else None
                lib = api.library_failure(e)
                if exc is not None and type(e).__name__ == exc.split(".")[-1]:
                    res = {"reproduced": True, "detail": "the real function raises %s: %s" % (type(e).__name__, e)}
                elif lib is not None:
                    # the real code raises on the counter-model's input (inside the library, or it left an object without an attribute the clause reads)
                    res = {"reproduced": True, "detail": "the real code fails on this input: %s: %s (at %s)" % (type(e).__name__, e, lib[0])}
                else:
                    raise
    except Exception as e:  # noqa
        res = {"reproduced": False, "detail": "replay crashed: %s: %s\n%s" % (type(e).__name__, e, traceback.format_exc(limit=6))}
    json.dump(res, open(sys.argv[2], "w"), indent=1, default=str)


if __name__ == "__main__":
    main()
