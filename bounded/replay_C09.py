"""native replay handlers for C09 counter-models (GlobalTrapezoidalGrid.compute_weights)"""
from bounded.replay_models import handler


def reference_weights(x, modified):
    n = len(x)
    h = [x[i + 1] - x[i] for i in range(n - 1)]
    if not modified:
        return [(h[j - 1] / 2 if j > 0 else 0.0) + (h[j] / 2 if j < n - 1 else 0.0) for j in range(n)]
    # integrals of the modified (linearly extrapolating) basis functions, computed from the definition:
    # integral of the piecewise-linear interpolant with linear extrapolation on [x0,x2] and [x_{n-3},x_{n-1}], per nodal unit vector
    w = []
    for j in range(n):
        f = [1.0 if i == j else 0.0 for i in range(n)]
        if j == 0 or j == n - 1:
            w.append(0.0)
            continue
        if n == 3:
            w.append(x[2] - x[0])
            continue
        total = 0.0
        # left: line through (x1,f1),(x2,f2) on [x0,x2]   (for n==4 the line through the two inner points on the whole interval)
        def line_int(xa, fa, xb, fb, lo, hi):
            s = (fb - fa) / (xb - xa)
            return fa * (hi - lo) + s * ((hi - xa) ** 2 - (lo - xa) ** 2) / 2
        if n == 4:
            w.append(line_int(x[1], f[1], x[2], f[2], x[0], x[3]))
            continue
        total += line_int(x[1], f[1], x[2], f[2], x[0], x[2])
        for i in range(2, n - 3):
            total += h[i] * (f[i] + f[i + 1]) / 2
        total += line_int(x[n - 3], f[n - 3], x[n - 2], f[n - 2], x[n - 3], x[n - 1])
        w.append(total)
    return w


@handler("C09.weights")
def c09_weights(inp, obligation):
    import numpy as np
    from sparseSpACE.Grid import GlobalTrapezoidalGrid
    x = [float(v) for v in inp["grid"]]
    bad = []
    try:
        w = list(GlobalTrapezoidalGrid.compute_weights(np.array(x), x[0], x[-1], bool(inp["modified"])))
    except AssertionError as e:
        return True, {"grid": x, "violations": ["self-assert of compute_weights fired: %s" % e]}
    ref = reference_weights(x, bool(inp["modified"]))
    scale = max(abs(x[-1] - x[0]), 1e-300)
    for j, (a, b) in enumerate(zip(w, ref)):
        if abs(a - b) > 1e-9 * scale:
            bad.append("weight %d is %r, integral of the basis function is %r" % (j, a, b))
    if len(w) != len(x):
        bad.append("%d weights for %d points" % (len(w), len(x)))
    if not inp["modified"] and any(v < -1e-15 * scale for v in w):
        bad.append("negative weight")
    return bool(bad), {"grid": x, "modified": inp["modified"], "weights": w, "violations": bad[:5]}


@handler("C09.set_grid")
def c09_set_grid(inp, obligation):
    """the real GlobalGrid.set_grid (GlobalTrapezoidalGrid) on sorted refinement-tree-like point sets of several sizes per dimension: the grid keeps the handed-in
    points (without the two boundary points when they are off) and each kept point keeps its own weight and level; the counts agree"""
    import numpy as np
    from sparseSpACE.Grid import GlobalTrapezoidalGrid
    nd, boundary = int(inp["ndim"]), bool(inp["boundary"])
    rng = np.random.RandomState(7)
    bad = []
    sizes = [3, 4, 5, 9] if not boundary else [2, 3, 5, 9]
    for trial in range(12):
        a, b = np.zeros(nd), np.ones(nd) * 2.0
        pts, lvs = [], []
        for d in range(nd):
            n = sizes[(trial + d) % len(sizes)]
            inner = np.sort(rng.uniform(0.05, 1.95, n - 2)) if n > 2 else np.array([])
            pts.append(np.concatenate(([0.0], inner, [2.0])))
            lvs.append(np.array([0] + list(rng.randint(1, 5, n - 2)) + [0]))
        g = GlobalTrapezoidalGrid(a, b, boundary=boundary)
        g.set_grid([p.copy() for p in pts], [l.copy() for l in lvs])
        for d in range(nd):
            ref_w = np.asarray(g.compute_1D_quad_weights(pts[d], a[d], b[d], d, grid_levels_1D=lvs[d]), dtype=float)
            sl = slice(None) if boundary else slice(1, -1)
            want = (pts[d][sl], ref_w[sl], lvs[d][sl])
            got = (np.asarray(g.coordinate_array[d], float), np.asarray(g.weights[d], float), np.asarray(g.levels[d]))
            names = ("points", "weights", "levels")
            for nm, w_, g_ in zip(names, want, got):
                if len(w_) != len(g_) or not np.allclose(np.asarray(w_, float), np.asarray(g_, float)):
                    bad.append("dimension %d of %d, %d points, boundary=%r: kept %s %r, expected %r" % (d, nd, len(pts[d]), boundary, nm, np.asarray(g_).tolist(), np.asarray(w_).tolist()))
            if int(g.numPoints[d]) != len(want[0]) or int(g.numPointsWithBoundary[d]) != len(pts[d]):
                bad.append("dimension %d: reports %r points (%r with boundary), keeps %d of %d" % (d, g.numPoints[d], g.numPointsWithBoundary[d], len(want[0]), len(pts[d])))
        if bad:
            break
    return bool(bad), {"violations": bad[:4]}
