"""C15 bounded stand-in: runtime contracts on the real GlobalTrapezoidalGridWeighted / UncertaintyQuantification.

Part W (weights, midpoints): real UncertaintyQuantification (distribution set-up) + real GlobalTrapezoidalGridWeighted;
refinement-tree grids are grown interval by interval (dyadic or with the real weighted midpoint) and handed to the real
set_grid() at several stages of the growth *on the same grid/operation objects* (as the refinement does, so that the
moment caches are exercised).  Oracles: closed-form cdf of the distribution (erfc / piecewise quadratic / linear) and the
textbook trapezoidal weights, both written here.
Part M (moments): the real dimension-wise refinement on a vector-valued model (g, c*g+e, K) and the real
calculate_expectation_and_variance; the oracle is the algebra E[cg+e]=cE[g]+e, Var[cg+e]=c^2 Var[g].
"""
import json
import math
import random
import numpy as np
from bounded.api import quiet, close, _jsonable

BUDGET = {"quick": 70.0, "thorough": 840.0}

BOUND = ("distributions: Uniform on 5 intervals, Triangle on 5 (interval, peak) pairs (+ the dedicated family Triangle(10, 10.01, 10.5)), Normal with 4 (mu, sigma) pairs on (-inf,inf), two half-infinite "
         "and two finite intervals; d in {1,2} (d=2: equal intervals where the two dimensions carry the same distribution description, plus one "
         "dedicated family with the same description on different intervals); boundary flag on/off where the support allows (infinite ends: off); "
         "refinement-tree grids with 3..40 points per dimension grown by random / one-sided interval splitting (no interval refined more than 20 times), dyadic or weighted-midpoint, handed to "
         "set_grid at <=4 stages of the growth; quick 70, thorough ~2500 weight cases (time-limited to 40% of the budget) (each: staged set_grid on tree A, tree B of the same size on the same objects, tree A again, brand-new objects). Moments: real SpatiallyAdaptiveSingleDimensions2 + "
         "ErrorCalculatorSingleDimVolumeGuided, d in {1,2} (thorough: also 3), lmax in {2,3}, max_evaluations in 8..160 (refinement histories of 0..6+ "
         "steps), 35% of the runs continued to a second stop with continue_adaptive_refinement, 4 model shapes g, random c, e, K; every stop is queried "
         "4-5 times (default path twice, node-based path, moment queries, default path again) and the stored solutions of all evaluations once; "
         "quick 30 (+3 repeated at the end), thorough ~700 (+12) runs")
BOUND += "; fault / magnitude additions: at the second stop of two-stop moment cases: cache emptied, node-based query hit by a model fault at its third evaluation, query repeated"
RULE = (BOUND + "; a case is one (distribution set-up, boundary flag, tree seed) resp. one (set-up, model, c, e, K, refinement limits); non-trivial = at "
        "least 4 points in some dimension resp. at least one refinement beyond the initial scheme. Tolerances: weight sums abs tol_w = 1e-12 + 200*eps*max(1,|x|)/h_min (the code's w2 = (M1-M0*x1)/h amplifies the rounding of the moments by 1/h; "
        "1e-12..1e-8 in this universe); uniform weights rel 1e-9 + tol_w; "
        "equal-probability split |P_left - P_right| <= 1e-12 + 1e-9 * (P_left + P_right) (oracle cdf); moments: |E1 - (c E0 + e)| <= 1e-9 * (|c| G + |e|), "
        "|Var1 - c^2 Var0| <= 1e-9 * (|c| G + |e|)^2, |E_K - K| <= 1e-9 |K|, Var_K <= 1e-9 K^2 with G = max |g| over all model evaluations")

CLAUSES = {
    "B.w.returns": "set_grid / get_mid_point return normally on a sorted refinement-tree grid of a supported distribution",
    "B.w.nonneg": "every 1-D weight is >= 0",
    "B.w.sum": "1-D weights sum to the probability of the covered interval by the oracle cdf (= 1 whenever the grid spans the support) with boundary points; to 1 (renormalised) without boundary points",
    "B.w.uniform": "uniform distribution: weights == trapezoidal weights / (b - a) (own formula and the real GlobalTrapezoidalGrid); without boundary: inner trapezoidal weights renormalised to sum 1",
    "B.mid.inside": "get_mid_point(l, r, d) lies strictly inside (l, r)",
    "B.mid.equal_prob": "get_mid_point(l, r, d) splits (l, r) into two parts of equal probability (oracle cdf)",
    "B.grid.component": "after real refinement every component grid's point weights are >= 0 and sum to 1; the combined weights sum to 1",
    "B.w.idempotent": "history: get_mid_point asked twice gives the same point; set_grid with the same tree after the grid object served another tree of the same size gives the same weights; a brand-new operation+grid gives the same weights; weight arrays handed out earlier are unchanged",
    "B.mom.combined_rule": "at every stop E == sum_i w_i g(x_i) and Var == |sum_i w_i g(x_i)^2 - E^2| for the public combined rule get_points_and_weights() (model evaluated by the harness), for all three components",
    "B.mom.idempotent": "every further statistics query on the same evaluated instance (after the node-based query, node-based calculate_expectation / calculate_moment, get_points_and_weights) returns the values of the first query; get_result() is unchanged by the queries; calculate_multiple_expectation_and_variance twice gives the same",
    "B.mom.report_stable": "E / Var objects handed out by a query (kept without copying) still hold the reported values after later queries and after continue_adaptive_refinement",
    "B.mom.repeatable": "the same configuration run again later in the same process (other configurations in between) on fresh objects gives the same E, Var and point count",
    "B.mom.returns": "refinement and calculate_expectation_and_variance return normally",
    "B.mom.affine_E": "E[c g + e] == c E[g] + e",
    "B.mom.affine_Var": "Var[c g + e] == c^2 Var[g]",
    "B.mom.var_nonneg": "every variance component is >= 0",
    "B.mom.constant": "constant model: expectation == K, variance == 0",
}

S_W = "sparseSpACE.Grid:GlobalTrapezoidalGridWeighted.compute_weights"
S_MID = "sparseSpACE.Grid:GlobalTrapezoidalGridWeighted.get_mid_point"
S_MOM = "sparseSpACE.GridOperation:UncertaintyQuantification.calculate_expectation_and_variance"
INF = float("inf")
MAX_DEPTH = 20      # no interval of a generated tree is refined more than 20 times (width >= 2^-20 of the domain for dyadic trees)


# ----------------------------------------------------------------------------------------------------------------
# oracle distributions
# ----------------------------------------------------------------------------------------------------------------
def oracle_cdf(spec, a, b):
    kind = spec[0]
    if kind == "Uniform":
        return lambda x: min(1.0, max(0.0, (x - a) / (b - a)))
    if kind == "Triangle":
        m = spec[1]

        def cdf(x):
            if x <= a:
                return 0.0
            if x >= b:
                return 1.0
            if x <= m:
                return (x - a) ** 2 / ((b - a) * (m - a))
            return 1.0 - (b - x) ** 2 / ((b - a) * (b - m))
        return cdf
    mu, sigma = spec[1], spec[2]
    return lambda x: 0.5 * math.erfc(-(x - mu) / (sigma * math.sqrt(2.0)))


def spans_support(spec, a, b):
    return spec[0] in ("Uniform", "Triangle") or (a == -INF and b == INF)


UNIFORM = [(0.0, 1.0), (-1.0, 3.0), (2.5, 2.75), (-1000.0, 500.0), (-0.3, 0.1)]
TRIANGLE = [(0.0, 1.0, 0.3), (-2.0, 5.0, 4.5), (0.0, 1.0, 0.5), (-3.0, -1.0, -1.2), (1.0, 3.0, 1.25)]
NORMAL = [(0.2, 1.0), (0.0, 2.0), (2.9e7, 1.45e6), (500.0, 100.0)]


def sample_dim(rng, moderate=False):
    """One dimension: (spec tuple, a, b, may_have_boundary)."""
    k = rng.random()
    if k < 0.3:
        a, b = rng.choice(UNIFORM[:3] if moderate else UNIFORM)
        return ("Uniform",), a, b
    if k < 0.6:
        a, b, m = rng.choice(TRIANGLE[:3] if moderate else TRIANGLE)
        return ("Triangle", m), a, b
    mu, sigma = rng.choice(NORMAL[:2] if moderate else NORMAL)
    r = rng.random()
    if r < 0.45:
        a, b = -INF, INF
    elif r < 0.55:
        a, b = -INF, mu + 2.0 * sigma
    elif r < 0.65:
        a, b = mu - sigma, INF
    elif r < 0.85:
        a, b = mu - 3.0 * sigma, mu + 3.0 * sigma
    else:
        a, b = mu - sigma, mu + 4.0 * sigma
    return ("Normal", mu, sigma), a, b


def sample_setup(rng, d, moderate=False):
    dims = []
    for k in range(d):
        while True:
            spec, a, b = sample_dim(rng, moderate)
            clash = [x for x in dims if x[0] == spec and (x[1], x[2]) != (a, b)]
            if not clash:
                break
        dims.append((spec, a, b))
    infinite = any(math.isinf(x[1]) or math.isinf(x[2]) for x in dims)
    boundary = False if infinite else rng.random() < 0.6
    return {"dist": [list(x[0]) for x in dims], "a": [x[1] for x in dims], "b": [x[2] for x in dims], "boundary": boundary}


def _f(x):
    return float(x)      # accepts the strings 'inf' / '-inf' written by the JSON encoder


def build(setup, model=None, out_len=1):
    """Real operation + real weighted grid for a set-up dict."""
    from sparseSpACE.GridOperation import UncertaintyQuantificationTesting as UncertaintyQuantification   # subclass: adds calculate_multiple_expectation_and_variance
    from sparseSpACE.Grid import GlobalTrapezoidalGridWeighted
    from sparseSpACE.Function import FunctionCustom
    a = np.array([_f(x) for x in setup["a"]])
    b = np.array([_f(x) for x in setup["b"]])
    dist = [tuple(_f(v) if i > 0 else v for i, v in enumerate(s)) for s in setup["dist"]]
    f = FunctionCustom(model or (lambda c: [1.0]), output_dim=out_len)
    op = UncertaintyQuantification(f, list(dist), a, b)
    grid = GlobalTrapezoidalGridWeighted(a, b, op, boundary=bool(setup["boundary"]))
    op.set_grid(grid)
    return f, op, grid, a, b, dist


# ----------------------------------------------------------------------------------------------------------------
# part W
# ----------------------------------------------------------------------------------------------------------------
def trapezoid(g):
    n = len(g)
    return [0.5 * ((g[i] - g[i - 1] if i > 0 else 0.0) + (g[i + 1] - g[i] if i < n - 1 else 0.0)) for i in range(n)]


def check_mid(ctx, grid, l, r, k, cdf, wc):
    done = False
    with ctx.guard("B.w.returns", S_MID, wc + "raises"):
        with quiet():
            mid = grid.get_mid_point(l, r, k)
        done = True
    if not done:
        return None
    with ctx.guard("B.w.returns", S_MID, wc + "raises-second-call"):
        with quiet():
            mid2 = grid.get_mid_point(l, r, k)
        ctx.check("B.w.idempotent", mid2 == mid, S_MID, wc + "midpoint-second-call", "get_mid_point(%r, %r, %d): first %r, second %r" % (l, r, k, mid, mid2))
    inside = l < mid < r
    ctx.check("B.mid.inside", inside, S_MID, wc + "outside", "get_mid_point(%r, %r, %d) = %r" % (l, r, k, mid))
    if not inside:
        return None
    pl, pr = cdf(mid) - cdf(l), cdf(r) - cdf(mid)
    ctx.check("B.mid.equal_prob", abs(pl - pr) <= 1e-12 + 1e-9 * (pl + pr), S_MID, wc + "unequal",
              "get_mid_point(%r, %r, %d) = %r: P(left)=%r P(right)=%r" % (l, r, k, mid, pl, pr))
    return float(mid)


def check_weights(ctx, grid, grids, a, b, dist, boundary, wc):
    from sparseSpACE.Grid import GlobalTrapezoidalGrid
    d = len(grids)
    done = False
    with ctx.guard("B.w.returns", S_W, wc + "+".join(sorted(set(x[0] for x in dist))) + "/raises"):
        with quiet():
            grid.set_grid([list(g) for g in grids], [[0] * len(g) for g in grids])
        done = True
    if not done:
        return None
    result = [np.array([float(x) for x in grid.weights[k]]) for k in range(d)]
    wc0 = wc
    for k in range(d):
        wc = wc0 + dist[k][0] + "/"
        g = grids[k]
        w = np.array([float(x) for x in grid.weights[k]])
        n_expected = len(g) if boundary else len(g) - 2
        ok_len = len(w) == n_expected
        ctx.check("B.w.sum", ok_len, S_W, wc + "count", "%d weights for %d points (boundary=%s)" % (len(w), len(g), boundary))
        if not ok_len:
            continue
        ctx.check("B.w.nonneg", bool(np.all(w >= 0.0)), S_W, wc + "negative", "weights %s" % w)
        cdf = oracle_cdf(dist[k], a[k], b[k])
        # rounding: each interval's w2 = (M1 - M0*x1)/(x2 - x1) amplifies the absolute rounding error (~eps*max(1,|x|)) of the moments by 1/h
        fin = [x for x in g if not math.isinf(x)]
        hmin = min([y - x for x, y in zip(fin[:-1], fin[1:])] or [INF])
        tol = 1e-12 + 200.0 * 2.3e-16 * max(1.0, max(abs(x) for x in fin)) / hmin
        if boundary:
            mass = cdf(g[-1]) - cdf(g[0])
            tag = "sum-spanning" if spans_support(dist[k], a[k], b[k]) else "sum-truncated"
        else:
            mass, tag = 1.0, "sum-renormalised"
        ctx.check("B.w.sum", abs(float(np.sum(w)) - mass) <= tol, S_W, wc + tag,
                  "%s on %s, boundary=%s: sum of weights %r, expected %r" % (dist[k], g, boundary, float(np.sum(w)), mass))
        if dist[k][0] == "Uniform":
            t = np.array(trapezoid(g))
            if boundary:
                exp = t / (b[k] - a[k])
                with quiet():
                    real = np.array(GlobalTrapezoidalGrid.compute_weights(list(g), a[k], b[k], False), dtype=float) / (b[k] - a[k])
                ok = close(w, exp, 1e-9, tol) and close(w, real, 1e-9, tol)
            else:
                exp = t[1:-1] / np.sum(t[1:-1])
                ok = close(w, exp, 1e-9, tol)
            ctx.check("B.w.uniform", ok, S_W, wc + "uniform", "grid %s boundary=%s: weights %s, trapezoidal/(b-a) %s" % (g, boundary, w, exp))
    return result


def run_weights(ctx, setup, tree, n, seed, family=""):
    rng = random.Random("%s|%s|%s|%s" % (seed, tree, n, json.dumps(_jsonable(setup), sort_keys=True)))
    wc = (family + "/") if family else ""
    with quiet():
        f, op, grid, a, b, dist = build(setup)
    d = len(a)
    boundary = bool(setup["boundary"])
    cdfs = [oracle_cdf(dist[k], a[k], b[k]) for k in range(d)]
    targets0 = [max(3, rng.randint(3, n)) if k > 0 else n for k in range(d)]
    stages = sorted(set([3, max(3, n // 3), max(3, (2 * n) // 3), n]))

    def grow(style, staged):
        """Grow one refinement tree per dimension up to the target sizes; returns the 1-D grids."""
        grids = [[float(a[k]), float(b[k])] for k in range(d)]
        depth = [[0] for k in range(d)]          # depth[k][i]: refinement depth of the interval (grids[k][i], grids[k][i+1])
        targets = list(targets0)
        size = 2
        while size < max(targets):
            for k in range(d):
                g = grids[k]
                if len(g) >= targets[k]:
                    continue
                cand = [i for i in range(len(g) - 1) if depth[k][i] < MAX_DEPTH]
                if style == "left" and rng.random() < 0.8:
                    i = cand[0]
                elif style == "right" and rng.random() < 0.8:
                    i = cand[-1]
                elif style == "ends" and rng.random() < 0.67:
                    i = rng.choice([cand[0], cand[-1]])
                else:
                    i = rng.choice(cand)
                l, r = g[i], g[i + 1]
                mid = check_mid(ctx, grid, l, r, k, cdfs[k], wc + dist[k][0] + "/")
                if tree == "dyadic" and not (math.isinf(l) or math.isinf(r)):
                    mid = 0.5 * (l + r)
                if mid is None or not l < mid < r:
                    depth[k][i] = MAX_DEPTH      # violation already recorded; do not try this interval again
                    if all(x >= MAX_DEPTH for x in depth[k]):
                        targets[k] = len(g)
                    continue
                g.insert(i + 1, float(mid))
                depth[k][i] += 1
                depth[k].insert(i + 1, depth[k][i])
            size += 1
            if staged and size in stages and all(len(g) >= 3 for g in grids):
                check_weights(ctx, grid, grids, a, b, dist, boundary, wc)
        return grids

    style = rng.choice(["random", "random", "left", "right", "ends"])
    grids = grow(style, True)
    first = check_weights(ctx, grid, grids, a, b, dist, boundary, wc)
    if first is None:
        return
    refs = [grid.weights[k] for k in range(d)]          # the arrays the grid handed out, not copied
    # history: the same grid / operation objects serve another tree of the same size, then the first tree again
    other = grow(rng.choice(["random", "left", "right", "ends"]), False)
    if check_weights(ctx, grid, other, a, b, dist, boundary, wc) is None:
        return
    kinds = "+".join(sorted(set(x[0] for x in dist)))
    done = False
    with ctx.guard("B.w.returns", S_W, wc + kinds + "/raises-again"):
        with quiet():
            grid.set_grid([list(g) for g in grids], [[0] * len(g) for g in grids])
            again = [np.array([float(x) for x in grid.weights[k]]) for k in range(d)]
            f2, op2, grid2, a2, b2, dist2 = build(setup)
            grid2.set_grid([list(g) for g in grids], [[0] * len(g) for g in grids])
            fresh = [np.array([float(x) for x in grid2.weights[k]]) for k in range(d)]
        done = True
    if done:
        for k in range(d):
            wk = wc + dist[k][0] + "/"
            ctx.check("B.w.idempotent", again[k].shape == first[k].shape and close(again[k], first[k], 1e-13, 1e-16), S_W, wk + "same-tree-after-other-tree",
                      "grid %s: weights %s, after serving another tree %s" % (grids[k], first[k], again[k]))
            ctx.check("B.w.idempotent", fresh[k].shape == first[k].shape and close(fresh[k], first[k], 1e-13, 1e-16), S_W, wk + "fresh-object-differs",
                      "grid %s: weights of the used objects %s, of brand-new objects %s" % (grids[k], first[k], fresh[k]))
            now = np.array([float(x) for x in refs[k]])
            ctx.check("B.w.idempotent", now.shape == first[k].shape and bool(np.array_equal(now, first[k])), S_W, wk + "earlier-weights-changed",
                      "weights handed out for %s were %s and are now %s" % (grids[k], first[k], now))


    # history: a SECOND weighted grid with the other boundary setting on the SAME operation (the distributions are shared by every grid built from one
    # operation) is given the same point sets: its weights must be those of a brand-new operation + grid with that setting (missed seed C15_7)
    finite = not any(math.isinf(float(x)) for x in list(a) + list(b))
    if finite and all(len(g) > 3 for g in grids):
        from sparseSpACE.Grid import GlobalTrapezoidalGridWeighted
        other_flag = not boundary
        done = False
        with ctx.guard("B.w.returns", S_W, wc + kinds + "/second-grid-raises"):
            with quiet():
                g_same = GlobalTrapezoidalGridWeighted(a, b, op, boundary=other_flag)
                g_same.set_grid([list(g) for g in grids], [[0] * len(g) for g in grids])
                w_same = [np.array([float(x) for x in g_same.weights[k]]) for k in range(d)]
                f3, op3, grid3, a3, b3, dist3 = build(dict(setup, boundary=other_flag))
                grid3.set_grid([list(g) for g in grids], [[0] * len(g) for g in grids])
                w_new = [np.array([float(x) for x in grid3.weights[k]]) for k in range(d)]
            done = True
        if done:
            for k in range(d):
                ctx.check("B.w.idempotent", w_same[k].shape == w_new[k].shape and close(w_same[k], w_new[k], 1e-13, 1e-16), S_W, wc + dist[k][0] + "/second-grid-other-boundary-flag",
                          "grid %s, boundary=%s on an operation that already served boundary=%s: weights %s, a brand-new operation gives %s" % (grids[k], other_flag, boundary, w_same[k], w_new[k]))


def weights_case(ctx, setup, tree, n, seed, family=""):
    ctx.case({"kind": "w", "setup": setup, "tree": tree, "n": n, "seed": seed, "family": family}, nontrivial=n >= 4)
    run_weights(ctx, setup, tree, n, seed, family)


# ----------------------------------------------------------------------------------------------------------------
# part M
# ----------------------------------------------------------------------------------------------------------------
def model_g(name):
    if name == "exp":
        return lambda x: math.exp(0.3 * x[0]) + 0.2 * x[0] * x[-1]
    if name == "poly":
        return lambda x: 1.0 + x[0] - 0.5 * x[-1] ** 2
    if name == "step":
        return lambda x: math.exp(-x[0] ** 2 + 2.0 * (1.0 if x[-1] > 0.1 else -1.0))
    if name == "abs":
        return lambda x: abs(x[0] - 0.3) + 0.1 * x[-1]
    raise KeyError(name)


def check_stats(ctx, E, V, c, e, K, G, spanning, path):
    """The statement's relations for one (E, Var) answer; `path` names the query that produced it."""
    sfx = ("/" + path) if path else ""
    s = abs(c) * G + abs(e)
    ctx.check("B.mom.var_nonneg", bool(np.all(V >= 0.0)), S_MOM, "negative" + sfx, "Var %s" % V)
    ctx.check("B.mom.affine_E", abs(E[1] - (c * E[0] + e)) <= 1e-9 * s, S_MOM, "affine-E" + sfx,
              "E[g]=%r E[cg+e]=%r c=%r e=%r (difference %.3e, tolerance %.1e)" % (E[0], E[1], c, e, E[1] - (c * E[0] + e), 1e-9 * s))
    ctx.check("B.mom.affine_Var", abs(V[1] - c * c * V[0]) <= 1e-9 * s * s, S_MOM, "affine-Var" + sfx,
              "Var[g]=%r Var[cg+e]=%r c=%r e=%r (difference %.3e, tolerance %.1e)" % (V[0], V[1], c, e, V[1] - c * c * V[0], 1e-9 * s * s))
    if spanning:
        ctx.check("B.mom.constant", abs(E[2] - K) <= 1e-9 * abs(K) and V[2] <= 1e-9 * K * K, S_MOM, "constant" + sfx,
                  "K=%r: E=%r Var=%r" % (K, E[2], V[2]))


def _arr(x):
    return np.array([float(v) for v in x], dtype=float)


def run_moments(ctx, setup, model, c, e, K, lmax, maxev, vw, maxev2=None):
    from sparseSpACE.spatiallyAdaptiveSingleDimension2 import SpatiallyAdaptiveSingleDimensions2
    from sparseSpACE.ErrorCalculator import ErrorCalculatorSingleDimVolumeGuided
    g = model_g(model)
    gmax = [0.0]

    def vec(x):
        v = g(x)
        gmax[0] = max(gmax[0], abs(v))
        return [v, c * v + e, K]
    store = {}
    done = False
    with ctx.guard("B.mom.returns", S_MOM, "raises"):
        with quiet():
            f, op, grid, a, b, dist = build(setup, vec, 3)
            op.set_expectation_variance_Function()
            ci = SpatiallyAdaptiveSingleDimensions2(a, b, operation=op, norm=2, use_volume_weighting=bool(vw), grid_surplusses=op.get_grid())
            ci.performSpatiallyAdaptiv(1, lmax, ErrorCalculatorSingleDimVolumeGuided(), tol=0, max_evaluations=maxev, print_output=False, do_plot=False,
                                       solutions_storage=store)
        done = True
    if not done:
        return None
    d = len(a)
    spanning = all(spans_support(dist[k], a[k], b[k]) for k in range(d)) or not setup["boundary"]
    kept = []         # (what, object handed out, copy at report time)
    summary = None
    for stop in range(2 if maxev2 else 1):
        tag = "" if stop == 0 else "stop2"
        pre = (tag + "-") if tag else ""
        if stop == 1:
            ok = False
            with ctx.guard("B.mom.returns", "sparseSpACE.spatiallyAdaptiveBase:SpatiallyAdaptivBase.continue_adaptive_refinement", "raises-continue"):
                with quiet():
                    ci.continue_adaptive_refinement(tol=0, max_evaluations=maxev2)
                ok = True
            if not ok:
                break
        surfaced, rep = False, None
        if stop == 1:
            # history with a fault at a particular point: the FIRST node-based query after the continuation (new nodes; the model's cache was emptied, as a user
            # does to bound memory) hits a model failure at its third evaluation; the caller repeats the query.  The repeated answer must be the answer of the
            # current grid (compared below with the same query asked later) -- missed seed C15_9: model values of the previous grid kept because "the nodes are
            # unchanged" since the aborted query
            from bounded._drivers_common import arm_fault, ModelFault
            with ctx.guard("B.mom.idempotent", S_MOM, pre + "raises-repeated-after-model-fault"):
                with quiet():
                    f.reset_dictionary()
                    arm_fault(f, 3)
                    try:
                        op.calculate_expectation_and_variance(ci, use_combiinstance_solution=False)
                    except ModelFault:
                        surfaced = True
                    finally:
                        for nm in ("eval", "eval_vectorized"):
                            f.__dict__.pop(nm, None)
                    rep = [_arr(x) for x in op.calculate_expectation_and_variance(ci, use_combiinstance_solution=False)]
        ok = False
        with ctx.guard("B.mom.returns", S_MOM, "raises" + ("/" + tag if tag else "")):
            with quiet():
                res0 = np.array(op.get_result(), dtype=float, copy=True)
                E_obj, V_obj = op.calculate_expectation_and_variance(ci)
            ok = True
        if not ok:
            break
        E, V = _arr(E_obj), _arr(V_obj)
        ok_shape = E.shape == (3,) and V.shape == (3,)
        ctx.check("B.mom.returns", ok_shape, S_MOM, "shape", "E %s Var %s" % (E, V))
        if not ok_shape:
            break
        kept.append(("E" + ("/" + tag if tag else ""), E_obj, E.copy()))
        kept.append(("Var" + ("/" + tag if tag else ""), V_obj, V.copy()))
        G = gmax[0]
        check_stats(ctx, E, V, c, e, K, G, spanning, tag)
        # definition: the public combined rule, model evaluated by the harness
        ok = False
        with ctx.guard("B.mom.combined_rule", "sparseSpACE.StandardCombi:StandardCombi.get_points_and_weights", "raises"):
            with quiet():
                P, W = ci.get_points_and_weights()
            ok = True
        if ok:
            vals = np.array([[g(tuple(p)), c * g(tuple(p)) + e, K] for p in P], dtype=float)
            W = np.asarray(W, dtype=float)
            m1 = W @ vals
            m2 = W @ vals ** 2
            sc = np.array([G, abs(c) * G + abs(e), abs(K)]) * float(np.sum(np.abs(W))) + 1e-300
            ctx.check("B.mom.combined_rule", bool(np.all(np.abs(E - m1) <= 1e-9 * sc)), S_MOM, pre + "E-vs-rule",
                      "E %s, combined rule gives %s (%d points)" % (E, m1, len(P)))
            ctx.check("B.mom.combined_rule", bool(np.all(np.abs(V - np.abs(m2 - m1 ** 2)) <= 1e-9 * sc * sc)), S_MOM, pre + "Var-vs-rule",
                      "Var %s, combined rule gives %s (%d points)" % (V, np.abs(m2 - m1 ** 2), len(P)))
        # the same question again, other queries in between
        ok = False
        with ctx.guard("B.mom.idempotent", S_MOM, pre + "raises-later-query"):
            with quiet():
                E2, V2 = [_arr(x) for x in op.calculate_expectation_and_variance(ci)]
                En, Vn = [_arr(x) for x in op.calculate_expectation_and_variance(ci, use_combiinstance_solution=False)]
                op.calculate_expectation(ci, use_combiinstance_solution=False)
                op.calculate_moment(ci, k=2, use_combiinstance_solution=False)
                E3, V3 = [_arr(x) for x in op.calculate_expectation_and_variance(ci)]
                res1 = np.array(op.get_result(), dtype=float, copy=True)
            ok = True
        if ok:
            ctx.check("B.mom.idempotent", close(E2, E, 1e-12, 0.0) and close(V2, V, 1e-12, 0.0), S_MOM, pre + "second-query",
                      "first query E %s Var %s; second query E %s Var %s" % (E, V, E2, V2))
            ctx.check("B.mom.idempotent", close(E3, E, 1e-12, 0.0) and close(V3, V, 1e-12, 0.0), S_MOM, pre + "query-after-other-queries",
                      "first query E %s Var %s; after node-based / moment queries E %s Var %s" % (E, V, E3, V3))
            ctx.check("B.mom.idempotent", res1.shape == res0.shape and bool(np.array_equal(res0, res1)), S_MOM, pre + "stored-result-changed",
                      "get_result() before the queries %s, after %s" % (res0, res1))
            check_stats(ctx, E2, V2, c, e, K, G, spanning, pre + "query2")
            check_stats(ctx, En, Vn, c, e, K, gmax[0], spanning, pre + "nodes-path")
            if rep is not None and surfaced:
                ctx.check("B.mom.idempotent", close(rep[0], En, 1e-10, 1e-13) and close(rep[1], Vn, 1e-10, 1e-13), S_MOM, pre + "nodes-path-repeated-after-model-fault",
                          "node-based query repeated after a model fault gave E %s Var %s; the same query asked afterwards E %s Var %s" % (rep[0], rep[1], En, Vn))
        for (what, obj, cp) in kept:
            now = _arr(obj)
            ctx.check("B.mom.report_stable", now.shape == cp.shape and bool(np.array_equal(now, cp)), S_MOM, "changed-" + what + ("-at-" + tag if tag else ""),
                      "%s handed out earlier was %s and is now %s" % (what, cp, now))
        summary = (E.copy(), V.copy(), int(ci.get_total_num_points()))
    if summary is None:
        return None
    E, V = summary[0], summary[1]
    G = gmax[0]
    # stored solutions of all evaluations of this run
    if store:
        ok = False
        with ctx.guard("B.mom.idempotent", "sparseSpACE.GridOperation:UncertaintyQuantificationTesting.calculate_multiple_expectation_and_variance", "raises-multiple"):
            with quiet():
                m_a = [(k, _arr(x), _arr(y)) for k, x, y in op.calculate_multiple_expectation_and_variance(store)]
                m_b = [(k, _arr(x), _arr(y)) for k, x, y in op.calculate_multiple_expectation_and_variance(store)]
            ok = True
        if ok:
            same = len(m_a) == len(m_b) and all(x[0] == y[0] and close(x[1], y[1], 1e-12, 0.0) and close(x[2], y[2], 1e-12, 0.0) for x, y in zip(m_a, m_b))
            ctx.check("B.mom.idempotent", same, S_MOM, "multiple-second-call", "first %s second %s" % (m_a[-1:], m_b[-1:]))
            for (k, Ek, Vk) in m_a[-3:]:
                if Ek.shape == (3,) and Vk.shape == (3,):
                    check_stats(ctx, Ek, Vk, c, e, K, G, spanning, "multiple")
            last = m_a[-1]
            ctx.check("B.mom.idempotent", close(last[1], E, 1e-12, 0.0) and close(last[2], V, 1e-12, 0.0), S_MOM, "multiple-last-vs-final",
                      "stored solution of the last evaluation gives E %s Var %s, the final query gave E %s Var %s" % (last[1], last[2], E, V))
    # the grids the real refinement produced
    ok_done = False
    with ctx.guard("B.grid.component", "sparseSpACE.spatiallyAdaptiveSingleDimension2:SpatiallyAdaptiveSingleDimensions2.get_points_and_weights_component_grid", "raises"):
        with quiet():
            per_grid = [(tuple(cg.levelvector), cg.coefficient, np.array(ci.get_points_and_weights_component_grid(cg.levelvector)[1], dtype=float)) for cg in ci.scheme]
        ok_done = True
    if ok_done and spanning:
        bad = [(lv, float(np.sum(w)), float(np.min(w))) for lv, co, w in per_grid if abs(float(np.sum(w)) - 1.0) > 1e-10 or np.min(w) < 0.0]
        tot = sum(co * float(np.sum(w)) for lv, co, w in per_grid)
        ctx.check("B.grid.component", not bad and abs(tot - 1.0) <= 1e-9, S_W, "component-grid",
                  "component grids (levelvector, sum of weights, min weight) %s; combined sum %r" % (bad[:3], tot))
    # real refinement intervals: the weighted midpoint of each of them
    for k in range(d):
        cdf = oracle_cdf(dist[k], a[k], b[k])
        objs = ci.refinement.get_refinement_container_for_dim(k).get_objects()
        for o in objs[:12]:
            check_mid(ctx, grid, float(o.start), float(o.end), k, cdf, dist[k][0] + "/")
    # after everything: the final query once more, and the objects handed out
    with ctx.guard("B.mom.idempotent", S_MOM, "raises-final-query"):
        with quiet():
            E4, V4 = [_arr(x) for x in op.calculate_expectation_and_variance(ci)]
        ctx.check("B.mom.idempotent", close(E4, E, 1e-12, 0.0) and close(V4, V, 1e-12, 0.0), S_MOM, "query-at-the-end",
                  "final stop: first query E %s Var %s; last query E %s Var %s" % (E, V, E4, V4))
    for (what, obj, cp) in kept:
        now = _arr(obj)
        ctx.check("B.mom.report_stable", now.shape == cp.shape and bool(np.array_equal(now, cp)), S_MOM, "changed-" + what + "-at-end",
                  "%s handed out earlier was %s and is now %s" % (what, cp, now))
    return summary


_EARLIER = {}


def moments_case(ctx, setup, model, c, e, K, lmax, maxev, vw, maxev2=None):
    desc = {"kind": "m", "setup": setup, "model": model, "c": c, "e": e, "K": K, "lmax": lmax, "maxev": maxev, "vw": vw, "maxev2": maxev2}
    ctx.case(desc, nontrivial=maxev >= 12)
    res = run_moments(ctx, setup, model, c, e, K, lmax, maxev, vw, maxev2)
    key = json.dumps(_jsonable(desc), sort_keys=True)
    if res is not None and key in _EARLIER:
        E0, V0, n0 = _EARLIER[key]
        ctx.check("B.mom.repeatable", n0 == res[2] and close(E0, res[0], 1e-12, 0.0) and close(V0, res[1], 1e-12, 0.0), S_MOM, "second-run-differs",
                  "first run: %d points E %s Var %s; run again later on fresh objects: %d points E %s Var %s" % (n0, E0, V0, res[2], res[0], res[1]))
    elif res is not None:
        _EARLIER[key] = res
    return desc


# ----------------------------------------------------------------------------------------------------------------
def run(ctx):
    rng = ctx.rng
    quick = ctx.quick()
    seed = ctx.seed
    # two dedicated families with fixed seeds (identical cases for every VERIF_SEED):
    # (1) the same distribution description on different intervals in the two dimensions
    for setup in [{"dist": [["Uniform"], ["Uniform"]], "a": [0.0, -1.0], "b": [1.0, 3.0], "boundary": True},
                  {"dist": [["Triangle", 0.3], ["Triangle", 0.3]], "a": [0.0, 0.0], "b": [1.0, 2.0], "boundary": True},
                  {"dist": [["Uniform"], ["Uniform"]], "a": [0.0, -1.0], "b": [1.0, 3.0], "boundary": False}]:
        for tree in ("dyadic", "weighted"):
            weights_case(ctx, setup, tree, 9, 0, family="same-spec-different-interval")
    # (2) a triangle whose peak lies close to one end of an interval that is narrow compared with its distance from the origin
    for d in (1, 2):
        for boundary in (True, False):
            setup = {"dist": [["Triangle", 10.01]] * d, "a": [10.0] * d, "b": [10.5] * d, "boundary": boundary}
            for tree in ("dyadic", "weighted"):
                for fs in (0, 1):
                    weights_case(ctx, setup, tree, 12, fs, family="offset-peak-triangle")
    # (3) four and five dimensions in which distribution descriptions REPEAT (always on the same interval): the library re-uses one distribution object per
    #     description, so the object of dimension k must be looked up by description, not by position among the distinct ones (seed C15_5)
    U1, T1, N1 = (["Uniform"], 0.0, 1.0), (["Triangle", 0.3], 0.0, 1.0), (["Normal", 0.2, 1.0], -2.8, 3.2)
    for pattern in ([N1, N1, U1, U1], [U1, T1, T1, U1, N1], [T1, T1, T1, N1], [U1, N1, U1, N1, T1]):
        setup = {"dist": [list(x[0]) for x in pattern], "a": [x[1] for x in pattern], "b": [x[2] for x in pattern], "boundary": True}
        weights_case(ctx, setup, "dyadic", 9, 0, family="repeated-descriptions")
        if not quick:
            weights_case(ctx, setup, "weighted", 7, 1, family="repeated-descriptions")
    # weights / midpoints
    nw = 70 if quick else 2500
    for i in range(nw):
        if ctx.out_of_time(0.4):
            ctx.note("weight part cut short after %d cases" % i)
            break
        d = 1 if rng.random() < 0.6 else 2
        setup = sample_setup(rng, d)
        n = rng.choice([3, 4, 5, 7, 9, 12, 17, 25, 33, 40])
        infinite = any(math.isinf(x) for x in setup["a"] + setup["b"])
        tree = "weighted" if infinite or rng.random() < 0.5 else "dyadic"
        weights_case(ctx, setup, tree, n, rng.randrange(10 ** 6))
    # moments
    nm = 30 if quick else 700
    first_cases = []
    _EARLIER.clear()
    for i in range(nm):
        if ctx.out_of_time(0.95):
            ctx.note("moment part cut short after %d runs" % i)
            break
        d = rng.choice([1, 2, 2] if quick else [1, 2, 2, 3])
        setup = sample_setup(rng, d, moderate=True)
        model = rng.choice(["exp", "poly", "step", "abs"])
        c = rng.choice([round(rng.uniform(-3.0, 3.0), 3), round(rng.uniform(-3.0, 3.0), 3), 0.0, 100.0])
        d_span = all(spans_support(tuple(setup["dist"][k]), setup["a"][k], setup["b"][k]) for k in range(d)) or not setup["boundary"]
        # Normal on a finite interval with boundary points: the rule integrates 1 to P([a,b]) < 1 (the library prints a warning);
        # only the homogeneous relations (e = 0) are demanded there, see notes
        e = rng.choice([round(rng.uniform(-5.0, 5.0), 3), round(rng.uniform(-5.0, 5.0), 3), 0.0]) if d_span else 0.0
        K = rng.choice([3.0, -0.5, 0.0, 1000.0])
        lmax = rng.choice([2, 2, 3])
        maxev = rng.choice([8, 12, 20, 30, 45, 70, 100, 160] if d < 3 else [12, 30, 60, 100])
        maxev2 = (maxev + rng.choice([10, 25, 60])) if rng.random() < 0.35 else None
        desc = moments_case(ctx, setup, model, c, e, K, lmax, maxev, rng.random() < 0.5, maxev2)
        if len(first_cases) < (3 if quick else 12):
            first_cases.append(desc)
    # the first configurations once more, after everything else ran in this process
    for desc in first_cases:
        if ctx.out_of_time(0.99):
            break
        moments_case(ctx, desc["setup"], desc["model"], desc["c"], desc["e"], desc["K"], desc["lmax"], desc["maxev"], desc["vw"], desc["maxev2"])


def replay(ctx, case):
    if case["kind"] == "w":
        run_weights(ctx, case["setup"], case["tree"], case["n"], case["seed"], case.get("family", ""))
    else:
        _EARLIER.clear()
        for _ in range(2):      # twice: the second run evaluates B.mom.repeatable
            moments_case(ctx, case["setup"], case["model"], case["c"], case["e"], case["K"], case["lmax"], case["maxev"], case["vw"], case.get("maxev2"))
