"""native replay handlers for C03 counter-models"""
from bounded.replay_models import handler


@handler("C03.subtraction")
def c03_subtraction(inp, obligation):
    """focused native search for the relational clauses of get_subtraction_value (coarsening versions 2 / 3): the real dimension-wise strategy with that version,
    start levels with lmin >= 2 as well as lmin = 1, one-sided / deepest-first / mixed adversarial histories without rebalancing; after every refine() the 1-D point
    sets must depend on (dimension, level) only and grow with the level (clauses B.grid1d.level_only / B.grid1d.monotone of the bounded layer, plus the
    coefficient sums and reproduction at grid points that follow from them)"""
    import random
    from bounded import api, C03 as H, _dimwise_common as C
    version = int(inp.get("version", 2))
    ctx = api.Ctx("C03", "quick", 0, 70.0)
    rng = random.Random(11)
    n = 0
    for levels in ((2, 3), (2, 4), (1, 3), (2, 3), (1, 2)):
        for style in ("edge_left", "deep", "edge_right", "mixed", "onedim"):
            if ctx.out_of_time(0.9) or ctx.violations:
                break
            case = C.random_case(rng, True, d=2, levels=levels, version=version, rebalancing=0, boundary=1, margin=0.9)
            case["style"], case["steps"], case["domain"] = style, 4, "unit"
            ctx.case(case)
            H.run_case(ctx, case)
            n += 1
    hits = [v for v in ctx.violations if v["clause"].startswith(("B.grid1d", "B.combi"))]
    bad = ["%s [%s]: %s" % (v["clause"], v["witness_class"], v["message"][:300]) for v in hits]
    return bool(bad), {"cases": n, "violations": bad[:4], "history": hits[0]["case"] if hits else None}


from bounded import replay_C06 as _r6  # noqa: E402,F401  (the refusal contract of RefinementContainer.refine is shared with C06: kind C06.refine_refused)
