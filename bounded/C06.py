"""C06 bounded stand-in: the refinement structures of the REAL dimension-wise strategy stay well formed under
adversarial refinement histories (benefit oracle passed through the public ErrorCalculator API)."""
import itertools

from bounded import _dimwise_common as C

BUDGET = {"quick": 60.0, "thorough": 840.0}
BOUND = ("SpatiallyAdaptiveSingleDimensions2 + GlobalTrapezoidalGrid, d in {2,3}, (lmin,lmax) in {(1,2),(1,3),(2,3)}, versions "
         "{6,2,3,7,8}, rebalancing on/off with safety factor in {0,0.1,0.3}, boundary on/off, margin in {0.5,0.9,1.0,0.0}, 4 domains "
         "(unit, [-3,6]^d, anisotropic, non-dyadic), 3-6 refinement steps of the real performSpatiallyAdaptiv loop (tol=-1) with "
         "seeded adversarial errors per interval (arbitrary subsets >= margin*max incl. ties at max, ties exactly at the threshold, "
         "values one ulp below it, zeros, all-zero rounds, single interval, one-sided and deepest-first histories); "
         "every (version x rebalancing x boundary) combination at least once, the rest seeded random; plus scripted histories: "
         "ALL sequences of single-interval refinements of dimension 0 (d=2, lmin=1, lmax=2, rebalancing on) of length <=3 (quick) / "
         "<=4, and length 5 while time permits (thorough), for each safety factor in {0,0.1,0.3}")
RULE = BOUND + ("; a case is one configuration + oracle seed (or script); the clauses are evaluated on the initial structure, after every "
                "rebalance(d) and after every refine(); non-trivial = at least one refinement step was performed")
CLAUSES = {
    "B.run.completes": "the real loop (evaluate, estimate, refine incl. the library's own structural asserts in rebalance/update) runs the requested steps without raising",
    "B.struct.tiling": "per dimension: first start == a[d], last end == b[d], start < end, end[i] == start[i+1] exactly (ascending, no gaps/overlaps)",
    "B.struct.shared_level": "adjacent intervals store the same level for their shared point",
    "B.struct.end_levels": "the points a[d] and b[d] have level 0",
    "B.struct.tree": "every inner point has level >= 1 and of the nearest lower-level points to its left and right the higher level is exactly level-1 (also after rebalance)",
    "B.struct.tree_children": "binary tree: between two inner points of equal level there is a point of lower level (a point has at most one child on each side); also after rebalance",
    "B.coarsen.value": "after refine(): coarsening_level == lmax[d] - max(levels of the interval) and >= 0",
    "B.coarsen.lmax": "after refine(): lmax[d] >= deepest point level present in dimension d",
    "B.step.selection": "refine() splits (one new point strictly inside) exactly the pre-existing intervals whose oracle benefit >= margin * max oracle benefit; all other intervals and all old points are unchanged",
}


def point_levels(objs):
    return [objs[0].levels[0]] + [o.levels[1] for o in objs]


def tree_violations(lv):
    bad = []
    n = len(lv)
    for j in range(1, n - 1):
        L = lv[j]
        left = next((lv[k] for k in range(j - 1, -1, -1) if lv[k] < L), None)
        right = next((lv[k] for k in range(j + 1, n) if lv[k] < L), None)
        if L < 1 or left is None or right is None or max(left, right) != L - 1:
            bad.append((j, L, left, right))
    return bad


def twin_violations(lv):
    """pairs of inner points of equal level without a lower-level point in between"""
    bad = []
    n = len(lv)
    for j in range(2, n - 1):
        for k in range(j - 1, 0, -1):
            if lv[k] < lv[j]:
                break
            if lv[k] == lv[j]:
                bad.append((k, j, lv[j]))
                break
    return bad


class Obs(C.Observer):
    def __init__(self, ctx):
        self.ctx = ctx

    def tag(self, when):
        c = self.case
        return "%s-%s" % (when, ("reb%s" % c.get("safety", 0.1)) if c["rebalancing"] else "noreb")

    def structure(self, sa, d, site, when):
        ctx = self.ctx
        objs = sa.refinement.get_refinement_container_for_dim(d).get_objects()
        tag = self.tag(when)
        ok = len(objs) > 0 and objs[0].start == sa.a[d] and objs[-1].end == sa.b[d] and all(o.start < o.end for o in objs) \
            and all(objs[i].end == objs[i + 1].start for i in range(len(objs) - 1))
        ctx.check("B.struct.tiling", ok, site, "tiling-" + tag, "dim %d intervals %s" % (d, [(o.start, o.end) for o in objs][:12]))
        bad = [i for i in range(len(objs) - 1) if objs[i].levels[1] != objs[i + 1].levels[0]]
        ctx.check("B.struct.shared_level", not bad, site, "shared-" + tag,
                  "dim %d: positions %s, levels %s" % (d, bad[:4], [tuple(o.levels) for o in objs][:14]))
        ctx.check("B.struct.end_levels", len(objs) > 0 and objs[0].levels[0] == 0 and objs[-1].levels[1] == 0, site, "ends-" + tag,
                  "dim %d levels %s" % (d, [tuple(o.levels) for o in objs][:14]))
        lv = point_levels(objs) if objs else []
        bad = tree_violations(lv)
        ctx.check("B.struct.tree", not bad, site, "tree-" + tag, "dim %d point levels %s: (index, level, left, right) %s" % (d, lv, bad[:3]))
        bad = twin_violations(lv)
        ctx.check("B.struct.tree_children", not bad, site, "twins-" + tag, "dim %d point levels %s: (index1, index2, level) %s" % (d, lv, bad[:3]))

    def state(self, sa, step):
        ctx = self.ctx
        site = C.SITE_POST if step else C.MOD + ".initialize_refinement"
        for d in range(sa.dim):
            self.structure(sa, d, site, "refine" if step else "init")
            objs = sa.refinement.get_refinement_container_for_dim(d).get_objects()
            bad = [(i, o.coarsening_level, tuple(o.levels)) for i, o in enumerate(objs)
                   if o.coarsening_level != sa.lmax[d] - max(o.levels) or o.coarsening_level < 0]
            ctx.check("B.coarsen.value", not bad, C.MOD + ".update_coarsening_values", self.tag("coarsening"),
                      "dim %d lmax %s: (index, coarsening, levels) %s" % (d, list(sa.lmax), bad[:4]))
            deepest = max(max(o.levels) for o in objs)
            ctx.check("B.coarsen.lmax", sa.lmax[d] >= deepest, C.MOD + ".raise_lmax", self.tag("lmax"),
                      "dim %d lmax %s deepest level %d" % (d, list(sa.lmax), deepest))

    def after_rebalance(self, sa, d):
        self.structure(sa, d, C.SITE_REBALANCE, "rebalance")

    def after_refine(self, sa, pre, step):
        ctx = self.ctx
        margin = self.case["margin"]
        big = max(x["err"] for row in pre for x in row)
        thr = big * margin
        if not any(x["err"] >= thr for row in pre for x in row):
            raise C.HarnessError("oracle produced an empty selection")
        for d, row in enumerate(pre):
            post = [(o.start, o.end) for o in sa.refinement.get_refinement_container_for_dim(d).get_objects()]
            j, ok, why = 0, True, ""
            for i, x in enumerate(row):
                s, e = x["start"], x["end"]
                if x["err"] >= thr:
                    if not (j + 1 < len(post) and post[j][0] == s and post[j + 1][1] == e and post[j][1] == post[j + 1][0]
                            and s < post[j][1] < e):
                        ok, why = False, "interval %d [%r,%r] benefit %r >= %r was not split once" % (i, s, e, x["err"], thr)
                        break
                    j += 2
                else:
                    if not (j < len(post) and post[j] == (s, e)):
                        ok, why = False, "interval %d [%r,%r] benefit %r < %r was changed" % (i, s, e, x["err"], thr)
                        break
                    j += 1
            if ok and j != len(post):
                ok, why = False, "extra intervals"
            kind = "thr-tie" if any(x["err"] == thr for x in row) else "plain"
            ctx.check("B.step.selection", ok, C.SITE_REFINE, "selection-%s-m%s" % (kind, margin),
                      "step %d dim %d: %s; before %s after %s" % (step, d, why, [(x["start"], x["end"], x["err"]) for x in row][:10], post[:12]))


def run_case(ctx, case):
    obs = Obs(ctx)
    sa, steps = C.run_adaptive(ctx, case, obs, "B.run.completes")
    return steps


def script_cases(length, safety):
    """all sequences of single-interval refinements of dimension 0; interval count grows by one per step"""
    n0 = 4  # 2**lmax intervals for lmax=2
    for seq in itertools.product(*[range(n0 + k) for k in range(length)]):
        yield {"kind": "script", "d": 2, "lmin": 1, "lmax": 2, "version": 6, "rebalancing": 1, "safety": safety, "boundary": 1,
               "margin": 0.9, "steps": length, "domain": "unit", "oseed": 7, "script": [[[0, i]] for i in seq]}


# multi-interval histories of dimension 0 in which a rebalancing rotation moves a leaf that sits at the maximum level
# (the lmax / coarsening bookkeeping must be refreshed AFTER rebalancing); fixed, seed independent, run in every tier
ANCHOR_SCRIPTS = [
    (0.0, [[1, 2, 3], [1, 3, 4, 5, 6]]),
    (0.0, [[0, 1, 2], [0, 1, 2, 3, 5]]),
    (0.0, [[0, 1, 2, 3], [0, 2, 4, 6], [1, 3, 5, 7, 9]]),
    (0.1, [[1, 2, 3], [4], [4], [1], [2, 4, 5], [2], [6, 9, 10], [16]]),
    (0.3, [[1, 2, 3], [1, 3, 4, 5, 6], [2, 4, 6, 8]]),
]


def anchor_cases():
    for safety, steps in ANCHOR_SCRIPTS:
        yield {"kind": "script", "d": 2, "lmin": 1, "lmax": 2, "version": 6, "rebalancing": 1, "safety": safety, "boundary": 1,
               "margin": 0.9, "steps": len(steps), "domain": "unit", "oseed": 7, "script": [[[0, i] for i in st] for st in steps]}


def run(ctx):
    quick = ctx.quick()
    for case in anchor_cases():
        ctx.case(case)
        run_case(ctx, case)
    for case in C.covering_cases(ctx.rng, quick):
        ctx.case(case)
        run_case(ctx, case)
    # scripted exhaustive histories (rebalancing by level rotation)
    ctx.exhaustive = False
    lengths = [3] if quick else [4, 5]
    for length in lengths:
        for safety in (0.0, 0.1, 0.3):
            for case in script_cases(length, safety):
                if ctx.out_of_time(0.45 if quick else 0.6):
                    ctx.note("scripted enumeration of length %d cut by the time budget" % length)
                    break
                ctx.case(case)
                run_case(ctx, case)
    # seeded random configurations
    n = 0
    while not ctx.out_of_time(0.85) and n < (60 if quick else 100000):
        case = C.random_case(ctx.rng, quick)
        ctx.case(case)
        run_case(ctx, case)
        n += 1


def replay(ctx, case):
    run_case(ctx, case)
