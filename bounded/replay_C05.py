"""native replay for C05 counter-models"""
from bounded.replay_models import handler


@handler("C05.report_stability")
def c05_report_stability(inp, obligation):
    import numpy as np
    from sparseSpACE.spatiallyAdaptiveSingleDimension2 import SpatiallyAdaptiveSingleDimensions2
    from sparseSpACE.GridOperation import Integration
    from sparseSpACE.Grid import GlobalTrapezoidalGrid
    from sparseSpACE.Function import GenzCornerPeak
    from sparseSpACE.ErrorCalculator import ErrorCalculatorSingleDimVolumeGuided
    a, b = np.zeros(2), np.ones(2)
    f = GenzCornerPeak(coeffs=np.array([3.0, 1.0]))
    op = Integration(f=f, grid=GlobalTrapezoidalGrid(a=a, b=b, boundary=True), dim=2, reference_solution=None)
    sa = SpatiallyAdaptiveSingleDimensions2(a, b, operation=op, rebalancing=False)
    res = sa.performSpatiallyAdaptiv(1, 2, ErrorCalculatorSingleDimVolumeGuided(), tol=-1, max_evaluations=20, print_output=False)
    reported = res[3]                       # kept WITHOUT copying, as a caller would
    copy_at_report = np.array(res[3], dtype=float).copy()
    sa.continue_adaptive_refinement(tol=-1, max_evaluations=80)
    bad = []
    if not np.array_equal(np.asarray(reported, dtype=float), copy_at_report):
        bad.append("the result reported at the first stop was %r, after continuing the same object reads %r" % (copy_at_report.tolist(), np.asarray(reported).tolist()))
    return bool(bad), {"violations": bad}
