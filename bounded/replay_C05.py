"""native replay for C05 counter-models"""
from bounded.replay_models import handler


@handler("C05.report_stability")
def c05_report_stability(inp, obligation):
    import numpy as np
    from sparseSpACE.spatiallyAdaptiveSingleDimension2 import SpatiallyAdaptiveSingleDimensions2
    from sparseSpACE.GridOperation import Integration
    from sparseSpACE.Grid import GlobalTrapezoidalGrid
    from sparseSpACE.Function import GenzCornerPeak
    from sparseSpACE.ErrorCalculator import ErrorCalculatorSingleDimVolumeGuided
    a, b = np.zeros(2), np.ones(2)
    f = GenzCornerPeak(coeffs=np.array([3.0, 1.0]))
    op = Integration(f=f, grid=GlobalTrapezoidalGrid(a=a, b=b, boundary=True), dim=2, reference_solution=None)
    sa = SpatiallyAdaptiveSingleDimensions2(a, b, operation=op, rebalancing=False)
    res = sa.performSpatiallyAdaptiv(1, 2, ErrorCalculatorSingleDimVolumeGuided(), tol=-1, max_evaluations=20, print_output=False)
    reported = res[3]                       # kept WITHOUT copying, as a caller would
    copy_at_report = np.array(res[3], dtype=float).copy()
    sa.continue_adaptive_refinement(tol=-1, max_evaluations=80)
    bad = []
    if not np.array_equal(np.asarray(reported, dtype=float), copy_at_report):
        bad.append("the result reported at the first stop was %r, after continuing the same object reads %r" % (copy_at_report.tolist(), np.asarray(reported).tolist()))
    return bool(bad), {"violations": bad}


def _component_sum_cases(kinds):
    """the real strategies run through the public API; at the stop the reported result is compared with the coefficient-weighted sum of the component
    results recomputed independently (clause B.comp.sum of the bounded layer, restricted to the strategy the refuted obligation belongs to)"""
    from bounded import api, C05 as H
    ctx = api.Ctx("C05", "quick", 0, 60.0)
    n = 0
    if "dimwise" in kinds:
        for case in H.anchor_cases():
            if case["cfg"]["strategy"] == "dimwise":
                ctx.case(case)
                H.dispatch(ctx, case)
                n += 1
    if "standard" in kinds:
        for case in H.gen_standard(ctx):
            if n >= 12 or ctx.out_of_time(0.8):
                break
            ctx.case(case)
            H.dispatch(ctx, case)
            n += 1
    hits = [v for v in ctx.violations if v["clause"] in ("B.comp.sum", "B.scratch.equal", "B.nodal.rule") and "doubles" not in v["witness_class"]]
    bad = ["%s @ %s [%s]: %s" % (v["clause"], v["site"], v["witness_class"], v["message"][:300]) for v in hits]
    return bool(bad), {"cases": n, "violations": bad[:5], "history": hits[0]["case"] if hits else None}


@handler("C05.dimwise_component")
def c05_dimwise_component(inp, obligation):
    return _component_sum_cases({"dimwise"})


@handler("C05.standard_component")
def c05_standard_component(inp, obligation):
    return _component_sum_cases({"standard"})
