"""Entry point of layer B:  /venv/bin/python bounded/run.py <ID> --tier T --seed N --out file.json [--replay case.json]"""
import argparse
import importlib
import json
import os
import sys
import traceback

HERE = os.path.dirname(os.path.abspath(__file__))
sys.path.insert(0, os.path.dirname(HERE))

from bounded import api  # noqa: E402

BUDGET = {"quick": 75.0, "thorough": 900.0}


library_failure = api.library_failure


def main():
    ap = argparse.ArgumentParser()
    ap.add_argument("prop")
    ap.add_argument("--tier", default="quick")
    ap.add_argument("--seed", type=int, default=0)
    ap.add_argument("--out", required=True)
    ap.add_argument("--replay")
    ap.add_argument("--budget", type=float)
    a = ap.parse_args()
    budget = a.budget or BUDGET[a.tier]
    ctx = api.Ctx(a.prop, a.tier, a.seed, budget)
    res = None
    mod = None
    try:
        api.use_repo()
        mod = importlib.import_module("bounded." + a.prop)
        if hasattr(mod, "BUDGET"):
            ctx.budget_s = a.budget or mod.BUDGET.get(a.tier, budget)
        if a.replay:
            case = json.load(open(a.replay))
            case = case.get("case", case)
            ctx.case(case)
            mod.replay(ctx, case)
        else:
            mod.run(ctx)
        res = ctx.result(mod.CLAUSES, mod.BOUND)
        res["rule"] = getattr(mod, "RULE", mod.BOUND)
    except Exception as e:
        lib = library_failure(e)
        if lib is not None and mod is not None:
            # the exception was raised INSIDE the library (or a library object lost an attribute the harness reads) in a scenario that the harness did
            # not wrap in a guard: on the unchanged tree this never happens, so it is a verdict about the code (clause B.library.raises), not a checker error
            site, wclass = lib
            ctx.violation("B.library.raises", site, wclass, "%s: %s\n%s" % (type(e).__name__, e, traceback.format_exc(limit=8)))
            clauses = dict(getattr(mod, "CLAUSES", {}))
            clauses["B.library.raises"] = "no scenario of the universe makes the library raise an exception that the unchanged library does not raise"
            res = ctx.result(clauses, getattr(mod, "BOUND", ""))
            res["rule"] = getattr(mod, "RULE", getattr(mod, "BOUND", ""))
            res["notes"] = list(res.get("notes", [])) + ["run aborted by an exception raised in the library; remaining cases not explored"]
        else:   # a crash of the harness itself is a checker error, never a verdict
            res = ctx.result({}, "")
            res["errors"].append("harness crashed: %s: %s\n%s" % (type(e).__name__, e, traceback.format_exc(limit=12)))
    with open(a.out, "w") as f:
        json.dump(res, f, indent=1)
    return 0


if __name__ == "__main__":
    sys.exit(main())
