"""Entry point of layer B:  /venv/bin/python bounded/run.py <ID> --tier T --seed N --out file.json [--replay case.json]"""
import argparse
import importlib
import json
import os
import sys
import traceback

HERE = os.path.dirname(os.path.abspath(__file__))
sys.path.insert(0, os.path.dirname(HERE))

from bounded import api  # noqa: E402

BUDGET = {"quick": 75.0, "thorough": 900.0}


def main():
    ap = argparse.ArgumentParser()
    ap.add_argument("prop")
    ap.add_argument("--tier", default="quick")
    ap.add_argument("--seed", type=int, default=0)
    ap.add_argument("--out", required=True)
    ap.add_argument("--replay")
    ap.add_argument("--budget", type=float)
    a = ap.parse_args()
    budget = a.budget or BUDGET[a.tier]
    ctx = api.Ctx(a.prop, a.tier, a.seed, budget)
    res = None
    try:
        api.use_repo()
        mod = importlib.import_module("bounded." + a.prop)
        if hasattr(mod, "BUDGET"):
            ctx.budget_s = a.budget or mod.BUDGET.get(a.tier, budget)
        if a.replay:
            case = json.load(open(a.replay))
            case = case.get("case", case)
            ctx.case(case)
            mod.replay(ctx, case)
        else:
            mod.run(ctx)
        res = ctx.result(mod.CLAUSES, mod.BOUND)
        res["rule"] = getattr(mod, "RULE", mod.BOUND)
    except Exception as e:  # a crash of the harness itself is a checker error, never a verdict
        res = ctx.result({}, "")
        res["errors"].append("harness crashed: %s: %s\n%s" % (type(e).__name__, e, traceback.format_exc(limit=12)))
    with open(a.out, "w") as f:
        json.dump(res, f, indent=1)
    return 0


if __name__ == "__main__":
    sys.exit(main())
