"""C19 bounded stand-in: runtime contracts on the real Classification (sparseSpACE.DEMachineLearning) over synthetic
labelled data sets, learning configurations and sequences of later __call__ / test_data / evaluate calls.

Independent oracles computed here: the scaling fixed at learning time (from the raw labelled samples or the user
supplied range), which samples are inside the learned range (known by construction of the query points), the
arg-max over the per-class density objects evaluated one point at a time at the oracle position, and the
wrong/total/percentage summary from the true labels."""
import contextlib
import io
import logging
import sys
import traceback

import numpy as np

M = "sparseSpACE.DEMachineLearning:Classification."

BOUND = ("dimension 1..3; K=2..3 classes labelled 0..K-1 (Gaussian blobs, well separated or overlapping, anisotropic), 12..30 samples per class, "
         "0 or ~15% unlabelled (-1) samples in the raw data, rows in random order; split_percentage in {1.0, 0.5..0.9}, split_evenly True/False, "
         "shuffle_data True/False; learned range = data range (default) or a user supplied box (enclosing the data, or cutting off a few samples); "
         "learning: perform_classification (levels 1..lmax, lmax 2..4, masslumping on/off, lambd 0 or 0.01) or perform_classification_dimension_wise "
         "(minimum_level 1, maximum_level 2..3, max_evaluations 20..80, reuse_old_values/rebalancing on/off); then a sequence of <= 5 operations from "
         "__call__ / test_data with 1..10 fresh samples that lie inside the learned range (incl. exact extreme samples), partly outside or entirely "
         "outside (>= 2% of the extent beyond the range), with and without unlabelled samples (every test_data call with a sample inside has at least "
         "one labelled sample inside), __call__ on get_learning_data(), evaluate() (queried twice), "
         "continue_dimension_wise_refinement (dimension-wise objects; max_evaluations 60..400) after which the stored test classes, evaluate() and all earlier __call__ data are "
         "re-evaluated against the refined estimators, a second differently configured Classification object built, trained and used in between; at the end all earlier __call__ "
         "data are evaluated again and every DataSet / summary / class array handed out earlier is compared with a copy taken when it was returned. Anchor cases: 5000/4500-sample "
         "queries, standard learning up to level 8 (component grids > 200 points). Every class "
         "occurs in the learning part (by construction); query DataSets are always fresh, unscaled objects")
BOUND += "; fault / magnitude additions: two directed dimension-wise cases whose first learning attempt fails at the last invocation of the user's error calculator, followed by a second attempt on the same object"
RULE = BOUND + "; one case = (data seed, configuration, operation list with their seeds); non-trivial = learning completed and at least one operation ran"
CLAUSES = {
    "B.class.density_kernel": "the hat evaluation the class densities are computed with (completely vectorised non-symmetric hat of the component-grid interpolation) equals the product of the "
                              "1-D piecewise-linear hats (own formula) at samples in general position AND at samples whose coordinates lie exactly on grid lines / at hat centres, abs 1e-12",
    "B.learn.completes": "Classification(...) and perform_classification(_dimension_wise) return normally on the stated configurations (precondition of all other clauses)",
    "B.scale.fixed": "get_dataset_range()/get_scale_factor() equal the range of the labelled raw samples (or the supplied box) and 0.99/extent; learning+testing data are "
                     "exactly the labelled raw samples inside the range at position (x-min)*0.99/extent+0.005 with their labels; every DataSet returned by __call__ and "
                     "all testing data stored later hold the samples at that same position (abs 1e-9)",
    "B.class.argmax": "density object k (get_density_estimation_results()) was estimated from exactly the learning samples labelled k; every class returned by __call__, appended by test_data or computed for the initial test split is an index k in range(K) whose density object "
                      "get_density_estimation_results()[0][k], evaluated alone (first three points singly, the others as one reversed batch) at the oracle positions, is maximal up to 1e-9*(1+max|density|)",
    "B.range.removed": "__call__/test_data keep exactly the samples inside the learned range, in order (the returned set / the appended classes cover these and no others); "
                       "if no sample is inside they raise ValueError and assign nothing",
    "B.range.reported": "when some but not all samples are outside, the call writes a message about the removal (contains 'remov' or 'out of bounds') to stdout or the 'util' logger",
    "B.test.summary": "test_data returns Total == number of labelled samples inside the range (unlabelled ones are set aside), Wrong == number of appended classes that differ "
                      "from the true labels, Percentage correct == 1-Wrong/Total (1e-12); evaluate() reports the same three numbers for all testing data accumulated so far, "
                      "also after a continued refinement, and gives the same answer when queried twice",
    "B.history.caller_array": "the sample array a caller hands to DataSet(...) still holds the caller's samples after __call__ (the same raw data may be wrapped and evaluated again "
                              "and must then receive the same classes: 'evaluating further data does not change the classes assigned to earlier data')",
    "B.history.stable": "after every operation the previously calculated test classes are an unchanged prefix of get_calculated_classes_testset(); evaluating earlier __call__ "
                        "data again returns the same classes and the per-class densities at the earlier positions are unchanged (1e-12) unless the estimators were refined in between "
                        "(then B.class.argmax is re-evaluated against the refined estimators instead); DataSets, summaries and class arrays handed to the caller earlier still equal "
                        "the copies taken when they were returned",
    "B.history.bookkeeping": "after test_data, get_testing_data() holds the initial test split followed by all labelled inside samples tested so far (same length as the calculated "
                             "classes), get_omitted_data() holds all unlabelled samples set aside so far, and evaluate() works on exactly these",
}


@contextlib.contextmanager
def capture():
    buf = io.StringIO()
    h = logging.StreamHandler(buf)
    lg = logging.getLogger("util")
    lg.addHandler(h)
    old = sys.stdout
    sys.stdout = buf
    try:
        yield buf
    finally:
        sys.stdout = old
        lg.removeHandler(h)


def guarded(ctx, d, clause, site, wc, fn):
    """run fn() with output captured; an exception is a violation of `clause`.  The IndexError of DataSet.same_scaling for 1-D sets with
    array-valued scaling range (C18 finding) gets its own site/witness_class.  Returns (ok, result, captured text)."""
    try:
        with capture() as buf:
            r = fn()
    except (KeyboardInterrupt, SystemExit, MemoryError):
        raise
    except Exception as e:  # noqa
        tb = traceback.format_exc(limit=10)
        if d == 1 and isinstance(e, IndexError) and "same_scaling" in tb:
            site, wc = "sparseSpACE.DEMachineLearning:DataSet.same_scaling", "dim1-array-valued-range"
        elif isinstance(e, IndexError) and "_print_evaluation" in tb and "density_testdata[wr]" in tb:
            # test_data(print_output=True, print_incorrect_points=True): the density slice handed to _print_evaluation is cut with the length
            # of the data INCLUDING unlabelled samples and is misaligned/too short when unlabelled samples were set aside
            clause, site, wc = "B.test.summary", M + "_print_evaluation", "density-slice-misaligned-with-unlabelled"
        ctx.check(clause, False, site, wc, "%s: %s\n%s" % (type(e).__name__, e, tb))
        return False, e, ""
    ctx.check(clause, True, site)
    return True, r, buf.getvalue()


# ------------------------------------------------------------------------------------------- data
def make_data(case):
    rs = np.random.RandomState(case["seed"])
    d, K = case["d"], case["K"]
    spread = 8.0 if case["sep"] == "separated" else 1.2
    centres = rs.uniform(-1, 1, size=(K, d)) * spread
    if case["sep"] == "separated":      # push the centres apart along the first axis
        centres[:, 0] = np.arange(K) * 7.0 + rs.uniform(-0.5, 0.5, size=K)
    X, y = [], []
    for k in range(K):
        n = case["n"][k]
        X.append(centres[k] + rs.normal(size=(n, d)) * rs.uniform(0.5, 1.5, size=d))
        y += [k] * n
    X = np.vstack(X) + np.array(case["offset"])[:d]
    y = np.array(y, dtype=np.int64)
    if case["unl"]:
        y[rs.random_sample(len(y)) < 0.15] = -1
        for k in range(K):              # keep every class populated
            if np.sum(y == k) < 8:
                y[np.where(np.arange(len(y)) % K == k)[0][:8]] = k
    p = rs.permutation(len(y))
    return X[p], y[p], centres + np.array(case["offset"])[:d]


def learned_range(case, X, y):
    L = X[y >= 0]
    lo, hi = L.min(axis=0), L.max(axis=0)
    ext = hi - lo
    if case["range"] == "bigger":
        return lo - 0.25 * ext, hi + 0.5 * ext
    if case["range"] == "cut":
        # cut a few samples off, but keep every labelled sample clearly (>= 5e-4 of the extent) away from the box faces: the code accepts
        # positions up to 1e-4 of the box extent beyond the faces, the oracle must not depend on that band
        clo, chi = lo.copy(), hi.copy()
        for j in range(len(lo)):
            v = np.unique(L[:, j])
            mids = [(a + b) / 2 for a, b in zip(v[:-1], v[1:]) if b - a >= 1e-3 * ext[j]]
            lo_c = [m_ for m_ in mids if m_ <= lo[j] + 0.2 * ext[j]]
            hi_c = [m_ for m_ in mids if m_ >= hi[j] - 0.2 * ext[j]]
            clo[j] = min(lo_c, key=lambda m_: abs(m_ - (lo[j] + 0.03 * ext[j]))) if lo_c else lo[j] - 0.1 * ext[j]
            chi[j] = min(hi_c, key=lambda m_: abs(m_ - (hi[j] - 0.02 * ext[j]))) if hi_c else hi[j] + 0.1 * ext[j]
        return clo, chi
    return lo, hi


def make_queries(op, case, X, y, centres, lo, hi):
    rs = np.random.RandomState(op["qseed"])
    d, K, m = case["d"], case["K"], op["m"]
    ext = hi - lo
    L = X[(y >= 0) & np.all((X >= lo) & (X <= hi), axis=1)]
    where = op["where"]
    n_out = 0 if where == "in" else (m if where == "out" else max(1, min(m - 1, int(rs.randint(1, m + 1)))))
    if where == "part" and m < 2:
        m, n_out = 2, 1
    out_flags = np.array([True] * n_out + [False] * (m - n_out))
    rs.shuffle(out_flags)
    Q = np.zeros((m, d))
    for i in range(m):
        if rs.random_sample() < 0.25:
            q = L[rs.randint(len(L))].copy()          # an exact learning/testing sample (possibly an extreme one)
        elif rs.random_sample() < 0.15:
            q = L[np.argmax(L[:, rs.randint(d)])].copy() if rs.random_sample() < 0.5 else L[np.argmin(L[:, rs.randint(d)])].copy()
        else:
            q = lo + rs.random_sample(d) * ext
        if out_flags[i]:
            dims = np.where(rs.random_sample(d) < 0.5)[0]
            if len(dims) == 0:
                dims = [rs.randint(d)]
            for j in dims:
                beyond = (0.02 + rs.random_sample() * (0.5 if rs.random_sample() < 0.8 else 5.0)) * ext[j]
                q[j] = hi[j] + beyond if rs.random_sample() < 0.5 else lo[j] - beyond
        Q[i] = q
    lab = np.array([int(np.argmin(np.sum((centres - q) ** 2, axis=1))) if rs.random_sample() < 0.75 else int(rs.randint(K)) for q in Q], dtype=np.int64)
    if op.get("unl"):
        lab[rs.random_sample(m) < 0.35] = -1
    inside = ~out_flags
    if op["op"] == "test" and inside.any() and not (lab[inside] >= 0).any():
        lab[np.where(inside)[0][0]] = int(rs.randint(K))
    return Q, lab, inside


# ------------------------------------------------------------------------------------------- oracle pieces
def densities(cls_obj, P):
    """per-class density objects evaluated independently of Classification: each class object alone, first points singly, the others in reversed order"""
    combis = cls_obj.get_density_estimation_results()[0]
    D = np.zeros((len(P), len(combis)))
    with capture():
        if len(P) > 60:     # large anchor cases: batches of 97 points per class (never the whole array at once)
            for a in range(0, len(P), 97):
                for k, cb in enumerate(combis):
                    D[a:a + 97, k] = np.asarray(cb(np.array(P[a:a + 97], dtype=float))).ravel()
            return D
        for i in range(min(3, len(P))):                      # the first three points one at a time
            for k, cb in enumerate(combis):
                D[i, k] = float(np.asarray(cb(np.array([P[i]], dtype=float))).ravel()[0])
        if len(P) > 3:                                       # the rest in one call per class, in REVERSED order (never the array the library saw)
            R = np.array(P[3:][::-1], dtype=float)
            for k, cb in enumerate(combis):
                D[3:, k] = np.asarray(cb(R.copy())).ravel()[::-1]
    return D


def check_argmax(ctx, cls_obj, P, classes, site, wc):
    D = densities(cls_obj, P)
    bad = []
    for i, c in enumerate(classes):
        ok = float(c) == int(c) and 0 <= int(c) < D.shape[1]
        if ok:
            ok = D[i, int(c)] >= D[i].max() - 1e-9 * (1 + np.abs(D[i]).max())
        if not ok:
            bad.append((i, float(c), D[i].tolist()))
    ctx.check("B.class.argmax", len(classes) == len(P) and not bad, site, wc, "class not arg-max of the independent densities (row, class, densities): %s" % bad[:3])
    return D


def match_rows(got, ref, tol=1e-9):
    """multiset matching of rows (position..., label)"""
    if len(got) != len(ref):
        return "length %d, expected %d" % (len(got), len(ref))
    used = np.zeros(len(got), dtype=bool)
    for r in ref:
        hit = [k for k in range(len(got)) if not used[k] and got[k][-1] == r[-1] and np.all(np.abs(np.array(got[k][:-1]) - np.array(r[:-1])) <= tol)]
        if not hit:
            return "no stored sample for expected %s" % (list(r),)
        used[hit[0]] = True
    return None


def rows_of(ds, d):
    X = np.asarray(ds.get_data()[0], dtype=float)
    yl = np.asarray(ds.get_data()[1]).ravel()
    if X.size == 0:
        return []
    X = X.reshape(len(X), -1)
    return [tuple(float(v) for v in X[i]) + (float(yl[i]),) for i in range(len(X))]


def rows_of_list(rows, cobj, d):
    """expected testing rows compared exactly against what is stored now (they were verified to 1e-9 when they were stored)"""
    now = rows_of(cobj.get_testing_data(), d)
    ok = len(now) == len(rows) and all(now[i][-1] == rows[i][-1] and np.all(np.abs(np.array(now[i][:-1]) - np.array(rows[i][:-1])) <= 1e-9) for i in range(len(rows)))
    return now if ok else None


STATS = {"refined": 0, "reclassified": 0}


# ------------------------------------------------------------------------------------------- one case
def run_case(ctx, case):
    from sparseSpACE.DEMachineLearning import DataSet, Classification
    d, K = case["d"], case["K"]
    X, y, centres = make_data(case)
    lo, hi = learned_range(case, X, y)
    scale = 0.99 / (hi - lo)
    pos = lambda Z: (np.asarray(Z, dtype=float) - lo) * scale + 0.005
    lab_mask = (y >= 0) & np.all((X >= lo) & (X <= hi), axis=1)
    n_cut = int(np.sum((y >= 0) & ~lab_mask))
    np.random.seed(case["np_seed"])
    kw = {}
    if case["range"] != "auto":
        kw["data_range"] = (lo.copy(), hi.copy())
    ok, cobj, _ = guarded(ctx, d, "B.learn.completes", M + "__init__", "init-raises",
                          lambda: Classification(DataSet((X.copy(), y.copy()), name="S"), split_percentage=case["p"], split_evenly=case["even"],
                                                 shuffle_data=case["shuffle"], **kw))
    if not ok:
        return
    lk = case["learn"]
    if lk["mode"] == "std":
        learn = lambda: cobj.perform_classification(masslumping=lk["ml"], lambd=lk["lambd"], minimum_level=1, maximum_level=lk["lmax"], print_metrics=False)
    else:
        learn = lambda: cobj.perform_classification_dimension_wise(masslumping=lk["ml"], lambd=lk["lambd"], minimum_level=1, maximum_level=lk["lmax"],
                                                                   max_evaluations=lk["evals"], reuse_old_values=lk["reuse"], rebalancing=lk["rebal"],
                                                                   tolerance=lk.get("tol", 0.01), print_metrics=False)
    if lk["mode"] != "std" and case.get("learn_fault"):
        # history with a fault at a particular point: the first learning attempt uses a user error calculator that fails at its LAST invocation (counted on a
        # twin object), i.e. while the last class is being learned; the caller catches the failure and learns again on the same object.  Everything below is then
        # judged on the object as it is after the retry (missed seed C19_9: density estimates of the aborted attempt stayed in the object)
        from sparseSpACE.ErrorCalculator import ErrorCalculatorSingleDimVolumeGuided
        from bounded._drivers_common import ModelFault

        class Counting(ErrorCalculatorSingleDimVolumeGuided):
            def __init__(self, k):
                super().__init__()
                self.n, self.k = 0, k

            def calc_error(self, *a_, **kw_):
                self.n += 1
                if self.n == self.k:
                    raise ModelFault("error calculator failed at invocation %d" % self.k)
                return super().calc_error(*a_, **kw_)
        learn_with = lambda obj, ec: obj.perform_classification_dimension_wise(masslumping=lk["ml"], lambd=lk["lambd"], minimum_level=1, maximum_level=lk["lmax"],  # noqa
                                                                             max_evaluations=lk["evals"], reuse_old_values=lk["reuse"], rebalancing=lk["rebal"],
                                                                             tolerance=lk.get("tol", 0.01), print_metrics=False, error_calculator=ec)
        total = None
        try:
            np.random.seed(case["np_seed"])
            twin = Classification(DataSet((X.copy(), y.copy()), name="S"), split_percentage=case["p"], split_evenly=case["even"], shuffle_data=case["shuffle"], **kw)
            cnt = Counting(0)
            with capture():
                learn_with(twin, cnt)
            total = cnt.n
        except Exception:  # noqa  (a configuration that cannot learn at all is judged by the regular attempt below)
            total = None
        if total:
            try:
                with capture():
                    learn_with(cobj, Counting(total))
            except ModelFault:
                pass
            except Exception:  # noqa
                pass
    ok, _, _ = guarded(ctx, d, "B.learn.completes", M + ("perform_classification" if lk["mode"] == "std" else "perform_classification_dimension_wise"),
                       "learning-raises", learn)
    if not ok:
        return

    # ---- state fixed at learning time
    site0 = M + "_initialize"
    rng_ = cobj.get_dataset_range()
    ok = rng_ is not None and np.allclose(rng_[0], lo, rtol=0, atol=1e-9 * (1 + np.abs(lo).max())) and np.allclose(rng_[1], hi, rtol=0, atol=1e-9 * (1 + np.abs(hi).max())) \
        and np.allclose(np.asarray(cobj.get_scale_factor(), dtype=float) * np.ones(d), scale, rtol=1e-9, atol=0)
    ctx.check("B.scale.fixed", ok, site0, "range-factor", "range %s factor %s, expected %s %s %s" % (rng_, cobj.get_scale_factor(), lo, hi, scale))
    learn_rows, test_rows = rows_of(cobj.get_learning_data(), d), rows_of(cobj.get_testing_data(), d)
    exp_rows = [tuple(pos(x)) + (float(c),) for x, c in zip(X[lab_mask], y[lab_mask])]
    msg = match_rows(learn_rows + test_rows, exp_rows)
    ctx.check("B.scale.fixed", msg is None, site0, "learning+testing", msg)
    if set(r[-1] for r in learn_rows) != set(float(k) for k in range(K)):
        ctx.note("case skipped: a class is missing from the learning part")
        return
    # class identity: density object k was estimated from exactly the learning samples labelled k (so that "index k" means "class k")
    des = cobj.get_density_estimation_results()[1]
    okid, seen = len(des) == K and len(cobj.get_density_estimation_results()[0]) == K, 0
    if okid:
        for k, de in enumerate(des):
            Dk = getattr(de, "data", None)
            if not (isinstance(Dk, np.ndarray) and Dk.ndim == 2 and Dk.shape[1] == d):
                continue
            seen += 1
            msgk = match_rows([tuple(r_) + (float(k),) for r_ in Dk], [r_ for r_ in learn_rows if r_[-1] == float(k)], 1e-12)
            okid = okid and msgk is None
    if seen or not okid:
        ctx.check("B.class.argmax", okid, M + "_process_performed_classification", "density-object-not-from-class-samples",
                  "density object k is not built from the learning samples labelled k (or number of density objects != K)")
    n_unl0 = int(np.sum(y == -1))          # all unlabelled raw samples are set aside at initialisation (no range filter there)

    exp_T = list(test_rows)                                   # expected testing data (position..., label) in order
    classes = np.asarray(cobj.get_calculated_classes_testset(), dtype=float)
    ctx.check("B.history.bookkeeping", len(classes) == len(exp_T), M + "_process_performed_classification", "initial-split",
              "%d classes for %d initial test samples" % (len(classes), len(exp_T)))
    if len(exp_T) and len(classes) == len(exp_T):
        check_argmax(ctx, cobj, np.array([r[:-1] for r in exp_T]), classes, M + "_process_performed_classification", "initial-split")
    exp_omitted = n_unl0
    n_tests = 0
    calls = []                                                # (Q, labels, inside, classes, densities) of earlier __call__ operations

    reports = []      # (description, live object handed to the caller, deep copy taken at report time, comparison function)

    def same_dataset(a, b):
        return all(np.array_equal(np.asarray(u), np.asarray(v)) for u, v in zip(a.get_data(), b))

    def do_call(Q, lab, inside, first, from_learning=False, tag="call-repeat"):
        """__call__ on a fresh DataSet; returns classes or None"""
        site = M + "__call__"
        before = np.asarray(cobj.get_calculated_classes_testset(), dtype=float)
        sf0 = np.array(cobj.get_scale_factor(), dtype=float, copy=True)
        rg0 = [np.array(x, dtype=float, copy=True) for x in cobj.get_dataset_range()]
        Qin = Q.copy()                                        # the array the "caller" owns and may evaluate again
        ds = cobj.get_learning_data() if from_learning else DataSet((Qin, lab.copy()), name="Q")
        I = np.where(inside)[0]
        n_out = len(Q) - len(I)
        if len(I) == 0:
            try:
                with capture():
                    cobj(ds)
            except ValueError:
                ctx.check("B.range.removed", True, site, "all-outside")
            except Exception as e:  # noqa
                dim1 = d == 1 and isinstance(e, IndexError) and "same_scaling" in traceback.format_exc(limit=10)
                ctx.check("B.range.removed", False, "sparseSpACE.DEMachineLearning:DataSet.same_scaling" if dim1 else site,
                          "dim1-array-valued-range" if dim1 else "all-outside-wrong-exception", "%s: %s instead of ValueError" % (type(e).__name__, e))
            else:
                ctx.check("B.range.removed", False, site, "all-outside-classified", "samples outside the learned range were classified")
            return None
        ok, out, text = guarded(ctx, d, "B.range.removed", site, "raises", lambda: cobj(ds))
        if not ok:
            return None
        if not from_learning:
            ctx.check("B.history.caller_array", bool(np.array_equal(Qin, Q)), site, "caller-array-overwritten",
                      "the sample array handed to DataSet(...) was overwritten by the evaluation (max change %.3e): evaluating the same array again classifies other positions"
                      % float(np.abs(Qin - Q).max() if Qin.shape == Q.shape and Qin.size else 0.0))
        P = Q[I] if from_learning else pos(Q[I])
        got = np.asarray(out.get_data()[0], dtype=float).reshape(out.get_length(), -1) if out.get_length() else np.zeros((0, d))
        got_c = np.asarray(out.get_data()[1], dtype=float).ravel()
        okr = len(got) == len(I) and len(got_c) == len(I)
        ctx.check("B.range.removed", okr, site, "kept-set" if first else "kept-set-repeat", "%d samples returned, %d inside the range" % (len(got), len(I)))
        if not okr:
            return None
        ctx.check("B.scale.fixed", bool(np.all(np.abs(got - P) <= 1e-9)), site, "positions",
                  "returned positions differ from (x-min)*0.99/extent+0.005 by %.3e" % float(np.abs(got - P).max()))
        if 0 < n_out and first:
            txt = text.lower()
            ctx.check("B.range.reported", ("remov" in txt) or ("out of bounds" in txt), site, "no-report", "nothing reported for %d removed samples" % n_out)
        D = check_argmax(ctx, cobj, P, got_c, site, "call" if first else tag)
        if first:
            reports.append(("DataSet returned by __call__", out, tuple(np.array(a, copy=True) for a in out.get_data()), same_dataset))
        after = np.asarray(cobj.get_calculated_classes_testset(), dtype=float)
        ctx.check("B.history.stable", len(after) == len(before) and bool(np.all(after == before)), site, "testset-classes-changed-by-call",
                  "calculated test classes changed by __call__")
        if not from_learning:
            # the caller goes on working with THEIR data set (it was scaled in place by the evaluation): reverting its scaling must not reach into the
            # classifier -- the scaling fixed at learning time stays what it was (missed seed C19_7: the evaluated set aliased the classifier's factor array)
            try:
                with capture():
                    ds.revert_scaling()
            except Exception:  # noqa  (reverting the caller's own set is not under test; only its effect on the classifier is)
                pass
            sf1 = np.array(cobj.get_scale_factor(), dtype=float)
            rg1 = [np.array(x, dtype=float) for x in cobj.get_dataset_range()]
            ctx.check("B.scale.fixed", sf1.shape == sf0.shape and bool(np.array_equal(sf1, sf0)) and all(np.array_equal(u, v) for u, v in zip(rg0, rg1)), site,
                      "learned-scaling-changed-by-callers-set", "scale factor %s -> %s after the caller reverted the scaling of the evaluated data set" % (sf0, sf1))
        return got_c, D, P

    def do_evaluate(site, wcl):
        res = None
        out_of_step = n_tests and cobj.get_testing_data().get_length() != len(cobj.get_calculated_classes_testset())
        with ctx.guard(*(("B.history.bookkeeping", site, "testing-data-not-extended") if out_of_step else ("B.test.summary", site, wcl + "-raises"))):
            with capture():
                res = cobj.evaluate()
        if res is None:
            return
        cl = np.asarray(cobj.get_calculated_classes_testset(), dtype=float)
        tl = np.array([r_[-1] for r_ in exp_T])
        wrong = int(np.sum(cl != tl)) if len(cl) == len(tl) else -1
        oks = res.get("Total mappings") == len(tl) and res.get("Wrong mappings") == wrong and abs(res.get("Percentage correct", -9) - (1.0 - wrong / len(tl))) <= 1e-12
        ctx.check("B.test.summary", oks, site, wcl, "evaluate() returned %s, expected wrong=%d total=%d" % (res, wrong, len(tl)))
        with capture():
            res2 = cobj.evaluate()                          # idempotence of the query
        same = all(res2.get(k_) == res.get(k_) for k_ in ("Wrong mappings", "Total mappings", "Percentage correct"))
        ctx.check("B.test.summary", same, site, wcl + "-second-query-differs", "evaluate() twice: %s then %s" % (res, res2))
        reports.append(("summary returned by evaluate()", res, {k_: res[k_] for k_ in ("Wrong mappings", "Total mappings", "Percentage correct")},
                        lambda a, b: all(a.get(k_) == b[k_] for k_ in b)))

    for op in case["seq"]:
        kind = op["op"]
        if op.get("rescale_copy"):
            # the user works on a data set obtained from one of the getters (their copy): rescales it and reverts it.  The scaling fixed at learning time is the
            # classifier's own: what follows must place new samples exactly as before (missed seed C19_b: the factor array shared with the returned copies updated in place)
            getter = [cobj.get_learning_data, cobj.get_testing_data, cobj.get_omitted_data][int(op["rescale_copy"]) % 3]
            try:
                with capture():
                    mine = getter()
                    if not mine.is_empty():
                        mine.scale_factor(2.0)
                        mine.scale_range((0.0, 1.0))
                        mine.revert_scaling()
            except Exception:  # noqa  (what the user's own copy does is not the classifier's business; 1-D sets raise in same_scaling: a recorded finding of C18)
                pass
        if kind in ("call", "test"):
            Q, lab, inside = make_queries(op, case, X, y, centres, lo, hi)
        if kind == "call":
            r = do_call(Q, lab, inside, True)
            if r is not None:
                calls.append({"Q": Q, "lab": lab, "inside": inside, "c": r[0], "D": r[1], "fl": False})
        elif kind == "call_learning":
            Lr = np.array([r_[:-1] for r_ in learn_rows])
            r = do_call(Lr, np.array([int(r_[-1]) for r_ in learn_rows]), np.ones(len(Lr), dtype=bool), True, from_learning=True)
            if r is not None:
                calls.append({"Q": Lr, "lab": None, "inside": np.ones(len(Lr), dtype=bool), "c": r[0], "D": r[1], "fl": True})
        elif kind == "test":
            site = M + "test_data"
            before = np.asarray(cobj.get_calculated_classes_testset(), dtype=float)
            ds = DataSet((Q.copy(), lab.copy()), name="T")
            I = np.where(inside)[0]
            n_out = len(Q) - len(I)
            if len(I) == 0:
                try:
                    with capture():
                        cobj.test_data(ds, print_output=op["print"], print_incorrect_points=op["print"])
                except ValueError:
                    after = np.asarray(cobj.get_calculated_classes_testset(), dtype=float)
                    ctx.check("B.range.removed", len(after) == len(before), site, "all-outside-but-classes-appended", "classes appended although all samples were outside")
                except Exception as e:  # noqa
                    dim1 = d == 1 and isinstance(e, IndexError) and "same_scaling" in traceback.format_exc(limit=10)
                    ctx.check("B.range.removed", False, "sparseSpACE.DEMachineLearning:DataSet.same_scaling" if dim1 else site,
                              "dim1-array-valued-range" if dim1 else "all-outside-wrong-exception", "%s: %s instead of ValueError" % (type(e).__name__, e))
                else:
                    ctx.check("B.range.removed", False, site, "all-outside-tested", "samples outside the learned range were tested")
                continue
            U = [i for i in I if lab[i] >= 0]
            ok, res, text = guarded(ctx, d, "B.range.removed", site, "raises",
                                    lambda: cobj.test_data(ds, print_output=op["print"], print_incorrect_points=op["print"]))
            if not ok:
                return            # state after a failed test_data is undefined; reported above, the rest of the case is dropped
            n_tests += 1
            after = np.asarray(cobj.get_calculated_classes_testset(), dtype=float)
            ctx.check("B.history.stable", len(after) >= len(before) and bool(np.all(after[:len(before)] == before)), site, "earlier-classes-changed",
                      "earlier calculated classes changed by test_data")
            tail = after[len(before):]
            ctx.check("B.range.removed", len(tail) == len(U), site, "appended-count", "%d classes appended, %d labelled samples inside" % (len(tail), len(U)))
            if n_out:
                txt = text.lower()
                ctx.check("B.range.reported", ("remov" in txt) or ("out of bounds" in txt), site, "no-report", "nothing reported for %d removed samples" % n_out)
            if len(tail) != len(U):
                continue
            PU = pos(Q[U])
            check_argmax(ctx, cobj, PU, tail, site, "test")
            wrong = int(np.sum(tail != lab[U].astype(float)))
            oks = isinstance(res, dict) and res.get("Total mappings") == len(U) and res.get("Wrong mappings") == wrong \
                and abs(res.get("Percentage correct", -9) - (1.0 - wrong / len(U))) <= 1e-12
            ctx.check("B.test.summary", oks, site, "summary", "returned %s, expected wrong=%d total=%d" % (res, wrong, len(U)))
            if isinstance(res, dict):
                reports.append(("summary returned by test_data", res, {k_: res.get(k_) for k_ in ("Wrong mappings", "Total mappings", "Percentage correct")},
                                lambda a, b: all(a.get(k_) == b[k_] for k_ in b)))
            reports.append(("classes returned by get_calculated_classes_testset()", after, np.array(after, copy=True), lambda a, b: np.array_equal(a, b)))
            exp_T += [tuple(PU[j]) + (float(lab[U[j]]),) for j in range(len(U))]
            exp_omitted += int(np.sum(lab[I] == -1))
            classes = after
            # bookkeeping: stored testing data / omitted data are in step with the classes
            T_now = rows_of(cobj.get_testing_data(), d)
            if len(T_now) != len(after):
                ctx.check("B.history.bookkeeping", False, site, "testing-data-not-extended", "%d stored testing samples for %d calculated classes" % (len(T_now), len(after)))
            else:
                okb = len(T_now) == len(exp_T) and all(T_now[i][-1] == exp_T[i][-1] and np.all(np.abs(np.array(T_now[i][:-1]) - np.array(exp_T[i][:-1])) <= 1e-9)
                                                       for i in range(len(T_now)))
                ctx.check("B.history.bookkeeping", okb, site, "testing-data-content", "stored testing data differ from initial split + tested samples")
            n_om = cobj.get_omitted_data().get_length()
            ctx.check("B.history.bookkeeping", n_om == exp_omitted, site, "omitted-not-extended" if n_om < exp_omitted else "omitted-count",
                      "%d omitted samples stored, %d unlabelled samples set aside so far" % (n_om, exp_omitted))
        elif kind == "evaluate":
            if not len(exp_T):
                continue          # nothing to evaluate: the documented ValueError, outside the property
            site, wcl = (M + "test_data", "evaluate-after-test_data") if n_tests else (M + "evaluate", "initial-split")
            do_evaluate(site, wcl)
        elif kind == "refine":
            if lk["mode"] != "dim":
                continue
            site = M + "continue_dimension_wise_refinement"
            pts0 = cobj.get_number_of_sparse_grid_points()
            ok, _, _ = guarded(ctx, d, "B.learn.completes", site, "continue-raises",
                               lambda: cobj.continue_dimension_wise_refinement(tolerance=lk.get("tol", 0.01), max_evaluations=op["evals"]))
            if not ok:
                return
            STATS["refined"] += int(cobj.get_number_of_sparse_grid_points() > pts0)
            # the stored test classes, the summary and every re-evaluated sample must reflect the estimators the object holds NOW
            cl = np.asarray(cobj.get_calculated_classes_testset(), dtype=float)
            ctx.check("B.history.bookkeeping", len(cl) == len(exp_T) and rows_of(cobj.get_testing_data(), d) == rows_of_list(exp_T, cobj, d), site,
                      "testing-data-after-refinement", "%d classes / changed testing data for %d testing samples after the refinement" % (len(cl), len(exp_T)))
            if len(exp_T) and len(cl) == len(exp_T):
                check_argmax(ctx, cobj, np.array([r_[:-1] for r_ in exp_T]), cl, site, "stored-test-classes-after-refinement")
                do_evaluate(site, "evaluate-after-refinement")
            for c_ in calls:
                r = do_call(c_["Q"], c_["lab"] if c_["lab"] is not None else np.zeros(len(c_["Q"]), dtype=np.int64), c_["inside"], False,
                            from_learning=c_["fl"], tag="call-after-refinement")
                if r is not None:
                    STATS["reclassified"] += int(np.sum(r[0] != c_["c"]))
                    c_["c"], c_["D"] = r[0], r[1]          # new baseline: the estimators changed legitimately
        elif kind == "other":
            run_case(ctx, op["sub"])                        # a second, differently configured object is built, trained and used in between
        else:
            raise ValueError(kind)

    # ---- history: earlier __call__ data evaluated again, densities unchanged
    for c_ in calls:
        Q, lab, inside, c0, D0, from_learning = c_["Q"], c_["lab"], c_["inside"], c_["c"], c_["D"], c_["fl"]
        r = do_call(Q, lab if lab is not None else np.zeros(len(Q), dtype=np.int64), inside, False, from_learning=from_learning)
        if r is None:
            ctx.check("B.history.stable", False, M + "__call__", "repeat-failed", "earlier data could not be evaluated again")
            continue
        ctx.check("B.history.stable", len(r[0]) == len(c0) and bool(np.all(r[0] == c0)), M + "__call__", "classes-changed", "classes of earlier data changed: %s -> %s" % (c0, r[0]))
        ctx.check("B.history.stable", r[1].shape == D0.shape and bool(np.all(np.abs(r[1] - D0) <= 1e-12 * (1 + np.abs(D0)))), M + "__call__", "densities-changed",
                  "per-class densities at earlier positions changed")
    # ---- report stability: everything handed to the caller earlier (kept WITHOUT copying) still equals the copy taken at report time
    for what, live, frozen, eq in reports:
        ctx.check("B.history.stable", bool(eq(live, frozen)), M + "__call__" if "__call__" in what else M + "test_data", "reported-value-changed-later",
                  "%s changed after later operations" % what)


# ------------------------------------------------------------------------------------------- generation
def gen_case(rng, quick, allow_other=True):
    d = rng.choice([1, 2, 2, 2, 2, 3, 3])
    K = rng.choice([2, 2, 3])
    mode = rng.choice(["std", "std", "dim"])
    if mode == "std":
        learn = {"mode": "std", "lmax": rng.choice([2, 3, 3, 4] if d < 3 else [2, 3]), "ml": rng.random() < 0.7, "lambd": rng.choice([0.0, 0.0, 0.01])}
    else:
        learn = {"mode": "dim", "lmax": rng.choice([2, 2, 3]), "ml": rng.random() < 0.7, "lambd": rng.choice([0.0, 0.0, 0.01]),
                 "evals": rng.choice([20, 20, 40, 80]), "reuse": rng.random() < 0.3, "rebal": rng.random() < 0.3, "tol": rng.choice([0.0, 0.0, 0.01])}
    seq = []
    for _ in range(rng.randint(1, 5) if allow_other else 1):
        kind = rng.choices(["call", "test", "evaluate", "call_learning", "refine", "other"],
                           weights=[4, 5, 2, 0.6, 2.5 if mode == "dim" else 0, 0.5 if allow_other else 0])[0]
        op = {"op": kind}
        if kind == "refine":
            op["evals"] = rng.choice([60, 120, 200])
        if kind == "other":
            op["sub"] = gen_case(rng, quick, allow_other=False)
        if kind in ("call", "test"):
            op.update({"where": rng.choice(["in", "in", "part", "part", "part", "out"]), "m": rng.randint(1, 10), "unl": rng.random() < 0.4,
                       "qseed": rng.randrange(2 ** 31)})
        if kind == "test":
            op["print"] = rng.random() < 0.25
        if kind in ("call", "test") and rng.random() < 0.3:
            op["rescale_copy"] = rng.randint(1, 3)
        seq.append(op)
    return {"kind": "random", "seed": rng.randrange(2 ** 31), "np_seed": rng.randrange(2 ** 31), "d": d, "K": K,
            "n": [rng.randint(12, 30) for _ in range(K)], "sep": rng.choice(["separated", "overlap"]), "unl": rng.random() < 0.35,
            "offset": [round(rng.uniform(-50, 50), 2) for _ in range(3)], "p": rng.choice([1.0, 0.5, 0.6, 0.75, 0.8, 0.9, round(rng.uniform(0.5, 0.95), 3)]),
            "even": rng.random() < 0.5, "shuffle": rng.random() < 0.6, "range": rng.choice(["auto", "auto", "auto", "auto", "bigger", "bigger", "cut"]),
            "learn": learn, "seq": seq}


def directed():
    base = {"kind": "directed", "seed": 11, "np_seed": 5, "d": 2, "K": 2, "n": [20, 24], "sep": "separated", "unl": True, "offset": [3.0, -7.0, 0.0], "p": 0.8,
            "even": True, "shuffle": True, "range": "auto", "learn": {"mode": "std", "lmax": 3, "ml": True, "lambd": 0.0}}
    seqs = [
        [{"op": "evaluate"}, {"op": "test", "where": "part", "m": 8, "unl": True, "qseed": 1, "print": False}, {"op": "evaluate"},
         {"op": "test", "where": "in", "m": 5, "unl": False, "qseed": 2, "print": True}, {"op": "evaluate"}],
        [{"op": "call", "where": "part", "m": 9, "unl": True, "qseed": 3}, {"op": "call", "where": "out", "m": 3, "unl": False, "qseed": 4},
         {"op": "test", "where": "out", "m": 4, "unl": False, "qseed": 5, "print": False}, {"op": "call", "where": "in", "m": 6, "unl": False, "qseed": 6},
         {"op": "call_learning"}],
        [{"op": "test", "where": "in", "m": 10, "unl": True, "qseed": 26, "print": True}, {"op": "evaluate"}],
        [{"op": "call", "where": "in", "m": 8, "unl": False, "qseed": 27, "rescale_copy": 1}, {"op": "test", "where": "part", "m": 8, "unl": True, "qseed": 28, "print": False, "rescale_copy": 2},
         {"op": "call", "where": "part", "m": 6, "unl": False, "qseed": 29, "rescale_copy": 3}, {"op": "evaluate"}],
    ]
    # history with continued dimension-wise refinement: everything evaluated before must be re-evaluated against the refined estimators
    refine_seq = [{"op": "call", "where": "in", "m": 8, "unl": False, "qseed": 31}, {"op": "test", "where": "part", "m": 8, "unl": True, "qseed": 32, "print": False},
                  {"op": "evaluate"}, {"op": "refine", "evals": 120}, {"op": "evaluate"},
                  {"op": "test", "where": "in", "m": 6, "unl": False, "qseed": 33, "print": False}, {"op": "refine", "evals": 250}, {"op": "evaluate"}]
    out = []
    for variant in range(7):
        for s in seqs:
            c = dict(base, seq=s)
            if variant == 1:
                c.update({"p": 1.0})
            elif variant == 2:
                c.update({"even": False, "shuffle": False, "K": 3, "n": [15, 18, 21], "sep": "overlap"})
            elif variant == 3:
                c.update({"learn": {"mode": "dim", "lmax": 2, "ml": True, "lambd": 0.0, "evals": 40, "reuse": False, "rebal": False}, "d": 3})
            elif variant == 4:
                c.update({"range": "bigger", "unl": False})
            elif variant == 5:
                c.update({"d": 1, "range": "cut"})
            elif variant == 6:
                c.update({"d": 1})
            out.append(c)
    for k, (dd, K, sep) in enumerate([(2, 2, "overlap"), (2, 3, "overlap"), (3, 2, "overlap"), (1, 2, "overlap"), (2, 2, "separated")]):
        lrn = {"mode": "dim", "lmax": 2, "ml": k % 2 == 0, "lambd": 0.01, "evals": 20, "reuse": k == 1, "rebal": k == 2, "tol": 0.0}
        out.append(dict(base, d=dd, K=K, n=[30, 26, 28][:K], sep=sep, seed=100 + k, p=0.6, unl=False, seq=refine_seq, learn=lrn))
        if k in (0, 1):     # the first learning attempt fails while the last class is learned; the caller learns again on the same object
            out.append(dict(base, d=dd, K=K, n=[30, 26, 28][:K], sep=sep, seed=300 + k, p=0.6, unl=False, learn=lrn, learn_fault=True,
                            seq=[{"op": "evaluate"}, {"op": "call", "where": "in", "m": 8, "unl": False, "qseed": 35}, {"op": "test", "where": "part", "m": 8, "unl": True, "qseed": 36, "print": False},
                                 {"op": "evaluate"}]))
        if k < 3:   # refinement directly after learning: the held-out testing data were classified once with the coarse estimators
            out.append(dict(base, d=dd, K=K, n=[30, 26, 28][:K], sep=sep, seed=200 + k, p=0.5, unl=False, learn=lrn,
                            seq=[{"op": "evaluate"}, {"op": "refine", "evals": 150}, {"op": "evaluate"}, {"op": "call", "where": "in", "m": 8, "unl": False, "qseed": 34},
                                 {"op": "refine", "evals": 300}, {"op": "evaluate"}]))
    # anchors: a query of 5000 samples (batch sizes / chunking inside the library), component grids with more than 200 points (other interpolation branch),
    # a second object interleaved
    out.append(dict(base, seq=[{"op": "call", "where": "in", "m": 5000, "unl": False, "qseed": 41}, {"op": "test", "where": "part", "m": 4500, "unl": True, "qseed": 42, "print": False},
                               {"op": "evaluate"}]))
    out.append(dict(base, learn={"mode": "std", "lmax": 8, "ml": True, "lambd": 0.0},
                    seq=[{"op": "call", "where": "part", "m": 10, "unl": False, "qseed": 43}, {"op": "evaluate"}]))
    out.append(dict(base, seq=[{"op": "call", "where": "in", "m": 6, "unl": False, "qseed": 44},
                               {"op": "other", "sub": dict(base, seed=12, K=3, n=[14, 15, 16], d=3, sep="overlap", p=1.0, seq=[{"op": "call", "where": "in", "m": 5, "unl": False, "qseed": 45}])},
                               {"op": "test", "where": "in", "m": 6, "unl": False, "qseed": 46, "print": False}, {"op": "evaluate"}]))
    return out


def density_kernel_cases(ctx):
    """samples exactly on grid lines decide classes as every other sample does: the hat kernel of the density interpolation must give them the hat values (1 at the hat's
    own centre, 0 at the neighbouring grid points, linear in between) -- a sample that sits on a grid line of the learning scaling is the special input (missed seed C19_8)"""
    import itertools
    import random
    from types import SimpleNamespace
    from sparseSpACE.GridOperation import DensityEstimation
    site = "sparseSpACE.GridOperation:MachineLearning.hat_function_non_symmetric_completely_vectorized"
    rng = random.Random(19)

    def hat(x, lo, p, hi):
        if x == p:
            return 1.0
        if x < p:
            return 0.0 if (lo == p or x <= lo) else (x - lo) / (p - lo)
        return 0.0 if (hi == p or x >= hi) else (hi - x) / (hi - p)
    for d, stripes in ((1, [[0.0, 0.25, 0.5, 0.75, 1.0]]), (2, [[0.0, 0.125, 0.25, 0.5, 1.0], [0.0, 0.5, 0.75, 1.0]]), (2, [[0.0, 0.25, 0.5, 0.75, 1.0], [0.0, 0.25, 0.5, 0.75, 1.0]]),
                       (3, [[0.0, 0.5, 1.0], [0.0, 0.25, 0.5, 1.0], [0.0, 0.5, 0.75, 1.0]])):
        ctx.case({"kind": "density-kernel", "d": d, "stripes": stripes}, nontrivial=True)
        idx = list(itertools.product(*[range(1, len(s_) - 1) for s_ in stripes]))          # interior grid points carry the hats (no boundary points)
        P = np.array([[stripes[k][i[k]] for k in range(d)] for i in idx])
        LO = np.array([[stripes[k][i[k] - 1] for k in range(d)] for i in idx])
        HI = np.array([[stripes[k][i[k] + 1] for k in range(d)] for i in idx])
        X = [[rng.uniform(0.02, 0.98) for _ in range(d)] for _ in range(6)]
        X += [[rng.choice(stripes[k][1:-1]) for k in range(d)] for _ in range(6)]                                    # every coordinate on a grid line
        X += [[rng.choice(stripes[k][1:-1]) if k == j % d else rng.uniform(0.02, 0.98) for k in range(d)] for j in range(6)]   # one coordinate on a grid line
        X = np.array(X)
        op = object.__new__(DensityEstimation)
        op.dim, op.grid = d, SimpleNamespace(modified_basis=False)
        got = None
        with ctx.guard("B.class.density_kernel", site, "raises"):
            got = np.asarray(op.hat_function_non_symmetric_completely_vectorized(P, LO, HI, X), dtype=float)
        if got is None:
            continue
        want = np.array([[float(np.prod([hat(x[k], LO[j][k], P[j][k], HI[j][k]) for k in range(d)])) for j in range(len(idx))] for x in X])
        ok = got.shape == want.shape and bool(np.all(np.abs(got - want) <= 1e-12))
        worst = None
        if got.shape == want.shape and not ok:
            n_, j_ = np.unravel_index(int(np.argmax(np.abs(got - want))), want.shape)
            worst = (X[n_].tolist(), P[j_].tolist(), float(got[n_, j_]), float(want[n_, j_]))
        ctx.check("B.class.density_kernel", ok, site, "samples-on-grid-lines", "d=%d: (sample, hat centre, library value, hat value) %s" % (d, worst))


def run(ctx):
    density_kernel_cases(ctx)
    for case in directed():
        ctx.case(case)
        run_case(ctx, case)
    ctx.note("directed refinement histories: %d refinements added grid points, %d earlier classes changed through refinement" % (STATS["refined"], STATS["reclassified"]))
    n = 100 if ctx.quick() else 3000
    for k in range(n):
        if ctx.out_of_time(0.8):
            ctx.note("stopped after %d random cases (time)" % k)
            break
        case = gen_case(ctx.rng, ctx.quick())
        ctx.case(case)
        run_case(ctx, case)


def replay(ctx, case):
    if case.get("kind") == "density-kernel":
        return density_kernel_cases(ctx)
    run_case(ctx, case)
