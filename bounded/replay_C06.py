"""native replay handlers for C06 counter-models"""
from bounded.replay_models import handler


@handler("C06.refine")
def c06_refine(inp, obligation):
    from sparseSpACE.RefinementObject import RefinementObjectSingleDimension
    from sparseSpACE.Grid import GlobalTrapezoidalGrid
    a, b = inp.get("a", 0.0), inp.get("b", 1.0)
    grid = GlobalTrapezoidalGrid([a], [b])
    l0, l1, c = int(inp["l0"]), int(inp["l1"]), int(inp["coarsening"])
    o = RefinementObjectSingleDimension(inp["start"], inp["end"], 0, 1, [l0, l1], grid, a, b, coarsening_level=c)
    bad = []
    try:
        new, lmax_inc, upd = o.refine()
    except Exception as e:  # noqa
        return True, {"violations": ["refine raised %s: %s" % (type(e).__name__, e)]}
    if len(new) != 2:
        return True, {"violations": ["%d children" % len(new)]}
    c0, c1 = new
    if not (c0.start == o.start and c0.end == c1.start and c1.end == o.end and o.start < c0.end < o.end):
        bad.append("children [%r,%r],[%r,%r] do not tile [%r,%r]" % (c0.start, c0.end, c1.start, c1.end, o.start, o.end))
    m = max(l0, l1)
    if list(c0.levels) != [l0, m + 1] or list(c1.levels) != [m + 1, l1]:
        bad.append("child levels %r %r, expected %r %r" % (c0.levels, c1.levels, [l0, m + 1], [m + 1, l1]))
    # (the children's provisional coarsening is not judged here: it is recomputed by update_coarsening_values before the next observation;
    #  the whole-structure clause of layer B decides whether a different provisional value matters)
    if (o.start, o.end, list(o.levels), o.coarsening_level) != (inp["start"], inp["end"], [l0, l1], c):
        bad.append("receiver modified")
    return bool(bad), {"violations": bad}


@handler("C06.next_object")
def c06_next(inp, obligation):
    from sparseSpACE.RefinementContainer import RefinementContainer

    class O:
        def __init__(self, b):
            self.benefit = b
    ben = [float(x) for x in inp["benefit"]]
    objs = [O(b) for b in ben]
    rc = RefinementContainer(objs, 1, None)
    rc.startNewObjects = int(inp["startNewObjects"])
    rc.searchPosition = int(inp["searchPosition"])
    tol = float(inp["tolerance"])
    end = len(objs) if rc.startNewObjects == 0 else rc.startNewObjects
    sp0 = rc.searchPosition
    found, idx, obj = rc.get_next_object_for_refinement(tol)
    expected = [j for j in range(sp0, end) if ben[j] >= tol]
    bad = []
    if expected:
        if not (found is True and idx == expected[0] and obj is objs[expected[0]] and rc.searchPosition == idx + 1):
            bad.append("expected object %d (first with benefit >= %r in [%d,%d)), got found=%r idx=%r cursor=%r" % (expected[0], tol, sp0, end, found, idx, rc.searchPosition))
    else:
        if found is not False:
            bad.append("no object reaches the tolerance but found=%r idx=%r" % (found, idx))
    return bool(bad), {"benefit": ben, "tolerance": tol, "violations": bad}


@handler("C06.postprocessing")
def c06_postprocessing(inp, obligation):
    """the real refinement_postprocessing on a real dimension-wise strategy object whose containers hold the intervals (levels) of the counter-model.
    Removal / sorting / rebalancing are no-ops natively (nothing scheduled for removal, intervals already ascending, rebalancing off): the model's values
    describe the state they leave behind.  dim_adaptive is off so that raise_lmax only raises lmax (the index-set fix-point is C01's)."""
    import logging
    from sparseSpACE.spatiallyAdaptiveSingleDimension2 import SpatiallyAdaptiveSingleDimensions2 as K
    from sparseSpACE.RefinementContainer import RefinementContainer, MetaRefinementContainer
    from sparseSpACE.RefinementObject import RefinementObjectSingleDimension
    from sparseSpACE.combiScheme import CombiScheme
    ndim = int(inp["ndim"])
    conts = []
    for c, dd in enumerate(inp["dims"]):
        n = int(dd["n"])
        objs = [RefinementObjectSingleDimension(i / max(n, 1), (i + 1) / max(n, 1), c, ndim, [int(dd["l0"][i]), int(dd["l1"][i])], None, coarsening_level=0, a=0.0, b=1.0)
                for i in range(n)]
        conts.append(RefinementContainer(objs, 1, None))
    o = object.__new__(K)
    o.dim, o.lmax, o.lmin = ndim, [int(x) for x in inp["lmax"]], [1] * ndim
    o.refinement = MetaRefinementContainer(conts)
    o.rebalancing, o.dim_adaptive = False, False
    o.combischeme = CombiScheme(ndim)
    o.combischeme.init_adaptive_combi_scheme(2, 1)
    o.log_util = type("L", (), {"log_debug": lambda *a, **k: None, "log_info": lambda *a, **k: None})()
    o.log = logging.getLogger("replay")
    K.refinement_postprocessing(o)
    bad = []
    for c, cont in enumerate(o.refinement.refinementContainers):
        for i, r in enumerate(cont.get_objects()):
            want = o.lmax[c] - max(r.levels)
            if r.coarsening_level != want:
                bad.append("dimension %d interval %d: coarsening level %r, lmax - highest end-point level = %r" % (c, i, r.coarsening_level, want))
            if r.coarsening_level < 0:
                bad.append("dimension %d interval %d: negative coarsening level %r" % (c, i, r.coarsening_level))
            if o.lmax[c] < max(r.levels):
                bad.append("dimension %d: lmax %r below the deepest level %r" % (c, o.lmax[c], max(r.levels)))
    if bad:
        return True, {"lmax_after": list(o.lmax), "violations": bad[:8]}
    # The model's state does not fail natively (the refuted path needs an abstract step -- rebalancing -- to change levels at a particular moment).
    # Focused native search of the same clauses on the real function: the fixed anchor histories of the bounded layer (rebalancing rotations that move
    # a leaf at the maximum level) and a few covering configurations, observed after every refine().
    from bounded import api, C06 as H, _dimwise_common as C
    ctx = api.Ctx("C06", "quick", 0, 45.0)
    cases = list(H.anchor_cases())
    for case in cases:
        ctx.case(case)
        H.run_case(ctx, case)
    for case in C.covering_cases(ctx.rng, True):
        if ctx.out_of_time(0.9) or any(v["clause"].startswith("B.coarsen") for v in ctx.violations):
            break
        ctx.case(case)
        H.run_case(ctx, case)
    hits = [v for v in ctx.violations if v["clause"] in ("B.coarsen.value", "B.coarsen.lmax")]
    if hits:
        v = hits[0]
        return True, {"note": "the counter-model's state itself does not fail natively; a focused native search of the same clause on the real function found a failing history",
                      "history": v["case"], "violations": [v["message"][:600]]}
    return False, {"lmax_after": list(o.lmax), "violations": [], "focused_search_cases": ctx.evaluations}


@handler("C06.raise_lmax")
def c06_raise_lmax(inp, obligation):
    """the real raise_lmax on a real strategy object with a real adaptive CombiScheme (levels clamped to small values so that the index-set
    fix-point stays small): lmax[d] grows by the value, the other entries stay"""
    import logging
    from sparseSpACE.spatiallyAdaptiveSingleDimension2 import SpatiallyAdaptiveSingleDimensions2 as K
    from sparseSpACE.combiScheme import CombiScheme
    ndim, d = int(inp["ndim"]), int(inp["d"])
    bad = []
    for adaptive in ([bool(inp.get("dim_adaptive", True))] + [True, False]):
        for value in sorted({max(1, min(int(inp.get("value") or 1), 3)), 1, 2}):
            lmax0 = [max(2, min(int(x or 2), 4)) for x in inp["lmax"]]
            o = object.__new__(K)
            o.dim, o.lmax, o.lmin, o.dim_adaptive = ndim, list(lmax0), [1] * ndim, adaptive
            o.combischeme = CombiScheme(ndim)
            o.combischeme.init_adaptive_combi_scheme(max(lmax0), 1)
            o.log_util = type("L", (), {"log_debug": lambda *a, **k: None, "log_info": lambda *a, **k: None})()
            o.log = logging.getLogger("replay")
            K.raise_lmax(o, d, value)
            want = [x + (value if i == d else 0) for i, x in enumerate(lmax0)]
            if list(o.lmax) != want:
                bad.append("raise_lmax(d=%d, value=%d) on lmax %r (dim_adaptive=%r): lmax afterwards %r, expected %r" % (d, value, lmax0, adaptive, list(o.lmax), want))
    return bool(bad), {"violations": bad[:6]}


@handler("C06.refine_refused")
def c06_refine_refused(inp, obligation):
    """a container whose last interval consists of two adjacent floating-point numbers: its refine() refuses (assert start < mid < end); the container must be
    exactly as before, and a later successful step must still leave a tiling of [a,b]"""
    import numpy as np
    from sparseSpACE.RefinementObject import RefinementObjectSingleDimension
    from sparseSpACE.RefinementContainer import RefinementContainer
    from sparseSpACE.Grid import GlobalTrapezoidalGrid
    bad = []
    for (a, b) in ((0.0, 1.0), (2.0 ** 30, 2.0 ** 30 + 1.0)):
        grid = GlobalTrapezoidalGrid([a], [b])
        lo = float(np.nextafter(b, a))
        mid = (a + b) / 2
        objs = [RefinementObjectSingleDimension(a, mid, 0, 1, [0, 1], grid, a, b), RefinementObjectSingleDimension(mid, lo, 0, 1, [1, 2], grid, a, b),
                RefinementObjectSingleDimension(lo, b, 0, 1, [2, 0], grid, a, b)]
        rc = RefinementContainer(objs, 1, None)
        before = (list(rc.popArray), [(o.start, o.end, list(o.levels)) for o in rc.refinementObjects])
        try:
            rc.refine(2)
            continue        # this platform could split the interval: nothing to judge
        except AssertionError:
            pass
        after = (list(rc.popArray), [(o.start, o.end, list(o.levels)) for o in rc.refinementObjects])
        if after != before:
            bad.append("[%r,%r]: refused refine(2) of the interval [%r,%r] changed the container: popArray %r -> %r, %d -> %d objects"
                       % (a, b, lo, b, before[0], after[0], len(before[1]), len(after[1])))
            continue
        rc.refine(0)
        rc.apply_remove()
        ivs = sorted((o.start, o.end) for o in rc.refinementObjects)
        if ivs[0][0] != a or ivs[-1][1] != b or any(ivs[k][1] != ivs[k + 1][0] for k in range(len(ivs) - 1)):
            bad.append("[%r,%r]: after a refused split and one successful step the intervals %r no longer tile the domain" % (a, b, ivs))
    return bool(bad), {"violations": bad[:3]}
