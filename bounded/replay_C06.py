"""native replay handlers for C06 counter-models"""
from bounded.replay_models import handler


@handler("C06.refine")
def c06_refine(inp, obligation):
    from sparseSpACE.RefinementObject import RefinementObjectSingleDimension
    from sparseSpACE.Grid import GlobalTrapezoidalGrid
    a, b = inp.get("a", 0.0), inp.get("b", 1.0)
    grid = GlobalTrapezoidalGrid([a], [b])
    l0, l1, c = int(inp["l0"]), int(inp["l1"]), int(inp["coarsening"])
    o = RefinementObjectSingleDimension(inp["start"], inp["end"], 0, 1, [l0, l1], grid, a, b, coarsening_level=c)
    bad = []
    try:
        new, lmax_inc, upd = o.refine()
    except Exception as e:  # noqa
        return True, {"violations": ["refine raised %s: %s" % (type(e).__name__, e)]}
    if len(new) != 2:
        return True, {"violations": ["%d children" % len(new)]}
    c0, c1 = new
    if not (c0.start == o.start and c0.end == c1.start and c1.end == o.end and o.start < c0.end < o.end):
        bad.append("children [%r,%r],[%r,%r] do not tile [%r,%r]" % (c0.start, c0.end, c1.start, c1.end, o.start, o.end))
    m = max(l0, l1)
    if list(c0.levels) != [l0, m + 1] or list(c1.levels) != [m + 1, l1]:
        bad.append("child levels %r %r, expected %r %r" % (c0.levels, c1.levels, [l0, m + 1], [m + 1, l1]))
    # (the children's provisional coarsening is not judged here: it is recomputed by update_coarsening_values before the next observation;
    #  the whole-structure clause of layer B decides whether a different provisional value matters)
    if (o.start, o.end, list(o.levels), o.coarsening_level) != (inp["start"], inp["end"], [l0, l1], c):
        bad.append("receiver modified")
    return bool(bad), {"violations": bad}


@handler("C06.next_object")
def c06_next(inp, obligation):
    from sparseSpACE.RefinementContainer import RefinementContainer

    class O:
        def __init__(self, b):
            self.benefit = b
    ben = [float(x) for x in inp["benefit"]]
    objs = [O(b) for b in ben]
    rc = RefinementContainer(objs, 1, None)
    rc.startNewObjects = int(inp["startNewObjects"])
    rc.searchPosition = int(inp["searchPosition"])
    tol = float(inp["tolerance"])
    end = len(objs) if rc.startNewObjects == 0 else rc.startNewObjects
    sp0 = rc.searchPosition
    found, idx, obj = rc.get_next_object_for_refinement(tol)
    expected = [j for j in range(sp0, end) if ben[j] >= tol]
    bad = []
    if expected:
        if not (found is True and idx == expected[0] and obj is objs[expected[0]] and rc.searchPosition == idx + 1):
            bad.append("expected object %d (first with benefit >= %r in [%d,%d)), got found=%r idx=%r cursor=%r" % (expected[0], tol, sp0, end, found, idx, rc.searchPosition))
    else:
        if found is not False:
            bad.append("no object reaches the tolerance but found=%r idx=%r" % (found, idx))
    return bool(bad), {"benefit": ben, "tolerance": tol, "violations": bad}
