"""C11 bounded stand-in: Romberg extrapolation grids (sliced Romberg weights, balanced extrapolation, binary-tree completion).

All weights come from the real ExtrapolationGrid / BalancedExtrapolationGrid / GridBinaryTree / Global*RombergGrid; the oracle is
the exact moment H/(k+1) of ((x-a)/H)^k, the interval length, and a tree parser written here.
"""
import itertools

from bounded.api import quiet

SITE_W = "sparseSpACE.Extrapolation:ExtrapolationGrid.get_weights"
SITE_SIMPSON = "sparseSpACE.Extrapolation:SimpsonRombergGridSliceContainer.get_final_weights"
SITE_BAL = "sparseSpACE.Extrapolation:BalancedExtrapolationGrid.get_weights"
SITE_TREE = "sparseSpACE.Extrapolation:GridBinaryTree.force_full_tree_invariant"
SITE_GR = "sparseSpACE.Grid:GlobalRombergGrid.compute_1D_quad_weights"
SITE_GB = "sparseSpACE.Grid:GlobalBalancedRombergGrid.compute_1D_quad_weights"

INTERVALS = [(0.0, 1.0), (-1.0, 3.0), (-6.0, -3.0), (0.5, 0.75), (2.0, 2.0 + 2.0 ** -3)]
GROUPINGS = ("UNIT", "GROUPED", "GROUPED_OPTIMIZED")
SLICES = ("ROMBERG_DEFAULT", "TRAPEZOID")
CONTAINERS = ("ROMBERG_DEFAULT", "SIMPSON_ROMBERG")

BOUND = ("intervals [0,1], [-1,3], [-6,-3], [0.5,0.75], [2,2.125], and for the trees of depth <= 3 also [0,2^-30], [-2^-29,0] (end points and all dyadic points exactly representable: the library "
         "asserts the step width with ==); every dyadic refinement tree of depth<=4 (677 trees incl. the one without inner point; a node may "
         "have one child) x SliceGrouping {UNIT,GROUPED,GROUPED_OPTIMIZED} x SliceVersion {ROMBERG_DEFAULT,TRAPEZOID} x "
         "SliceContainerVersion {ROMBERG_DEFAULT,SIMPSON_ROMBERG} x force_balanced_refinement_tree {False,True} (the tree without inner "
         "point only without forcing: GridBinaryTree.init_tree asserts a root) -- exhaustive on 3 intervals (quick) / 5 (thorough), plus "
         "seeded random trees of depth<=7 (thorough); complete grids of depth m=0..5 for the exactness clauses; BalancedExtrapolationGrid and "
         "GlobalBalancedRombergGrid on every balanced tree (0 or 2 children) of depth<=5 (677 trees); GridBinaryTree completion on every tree "
         "of depth<=4; history passes (12 wrapper objects x 12 rotations x 12 trees on two intervals; object reuse over 16 trees for all "
         "24 option tuples and the balanced grid); GlobalRombergGrid wrapper (one object per option triple, cache on) on every tree of depth<=3 twice, interleaved. "
         "Lagrange containers, constant subtraction and init_perfect_tree_with_max_level are out of scope")
BOUND += "; fault / magnitude additions: per option tuple (unbalanced objects): a grid request aborted by a failing analytic integral of the reference function (second call), then the same grid again, 5 trees"
RULE = BOUND + "; a case is one (interval, level sequence of the tree, option tuple); every case with at least one inner point is non-trivial"
BUDGET = {"quick": 60.0, "thorough": 840.0}

CLAUSES = {
    "B.weights.returns": "set_grid/get_weights return normally on a valid dyadic refinement tree and give one weight per grid point",
    "B.weights.sum": "the weights sum to b-a (1e-10 relative)",
    "B.weights.linear": "sum w_i (x_i-a)/(b-a) == (b-a)/2, i.e. linear functions are integrated exactly (1e-10 relative)",
    "B.full.exactness": "complete dyadic grid of depth m<=5, ROMBERG_DEFAULT containers with ROMBERG_DEFAULT slices (any grouping, forcing "
                        "on/off) or TRAPEZOID slices grouped into one default-Romberg container: sum w_i u_i^k == H/(k+1) for k<=2m+1 (1e-9 H)",
    "B.balanced.sum_linear": "BalancedExtrapolationGrid on a balanced tree: one weight per grid point, weights sum to b-a, linear exact",
    "B.balanced.exactness": "BalancedExtrapolationGrid on the complete grid of depth m in 1..5: exact for degree <= 2m-1 (1e-9 H)",
    "B.tree.completion": "GridBinaryTree.init_tree + force_full_tree_invariant: result is a strictly increasing dyadic refinement tree grid "
                         "on the same interval, contains every given point with its level, and every inner node has 0 or 2 children",
    "B.hist.wrapper_config": "weights delivered by a GlobalRombergGrid depend only on its own configuration and the tree: twelve differently "
                             "configured wrapper objects alive in one process visit the same trees in rotating order (every configuration is "
                             "first on some trees and later on others); each delivery equals (1e-12 H) the weights of a fresh ExtrapolationGrid "
                             "of that configuration, on complete trees the default-Romberg deliveries are exact to degree 2m+1 and UNIT/TRAPEZOID "
                             "deliveries equal the closed-form trapezoid weights (x_{i+1}-x_{i-1})/2",
    "B.hist.idempotent": "repeating set_grid/get_weights on the same object for the same tree returns the same weights, and weight arrays handed "
                         "out earlier (kept by reference) still equal the copy taken at delivery after all later calls",
    "B.hist.reuse": "one ExtrapolationGrid (every option tuple) / BalancedExtrapolationGrid object reused for a sequence of different trees, "
                    "there and back, gives for every tree exactly the weights a fresh object gives",
    "B.wrap.global": "GlobalRombergGrid / GlobalBalancedRombergGrid.set_grid (weight cache on, repeated and interleaved requests) deliver "
                     "one weight per point that sum to b-a and integrate linear functions exactly",
}


# ----------------------------------------------------------------------------------------------------------------
# trees and grids (oracle side)
def all_trees(depth):
    if depth == 0:
        return [None]
    sub = all_trees(depth - 1)
    return [None] + [(l, r) for l in sub for r in sub]


def balanced_trees(depth):
    """non-empty trees in which every node has 0 or 2 children"""
    if depth == 1:
        return [(None, None)]
    sub = balanced_trees(depth - 1)
    return [(None, None)] + [(l, r) for l in sub for r in sub]


def levels_of(tree):
    out = []

    def rec(t, lvl):
        if t is None:
            return
        rec(t[0], lvl + 1)
        out.append(lvl)
        rec(t[1], lvl + 1)
    rec(tree, 1)
    return [0] + out + [0]


def grid_from_levels(a, b, levels):
    """positions of a dyadic refinement tree given by its in-order level sequence (boundaries level 0); None if not a valid tree"""
    n = len(levels)
    pos = [None] * n
    pos[0], pos[-1] = a, b
    ok = [levels[0] == 0 and levels[-1] == 0]
    children = {}

    def rec(i, j, lvl):  # open index range (i, j)
        if j - i <= 1:
            return False
        inner = levels[i + 1:j]
        m = min(inner)
        if m != lvl or inner.count(m) != 1:
            ok[0] = False
            return True
        k = i + 1 + inner.index(m)
        pos[k] = (pos[i] + pos[j]) / 2
        children[k] = (rec(i, k, lvl + 1), rec(k, j, lvl + 1))
        return True
    rec(0, n - 1, 1)
    if not ok[0] or any(p is None for p in pos):
        return None, None
    return pos, children


def complete_levels(m):
    n = 2 ** m
    out = []
    for i in range(n + 1):
        if i == 0 or i == n:
            out.append(0)
        else:
            l, j = m, i
            while j % 2 == 0:
                j //= 2
                l -= 1
            out.append(l)
    return out


def random_tree(rng, depth, p):
    if depth == 0 or rng.random() > p:
        return None
    return (random_tree(rng, depth - 1, p), random_tree(rng, depth - 1, p))


def moment_defect(w, g, a, b, k):
    H = b - a
    s = sum(float(wi) * ((x - a) / H) ** k for wi, x in zip(w, g))
    return abs(s - H / (k + 1)) / H


# ----------------------------------------------------------------------------------------------------------------
def make_grid(grouping, slice_v, container, balanced):
    from sparseSpACE.Extrapolation import ExtrapolationGrid, SliceGrouping, SliceVersion, SliceContainerVersion
    return ExtrapolationGrid(slice_grouping=SliceGrouping[grouping], slice_version=SliceVersion[slice_v],
                             container_version=SliceContainerVersion[container], force_balanced_refinement_tree=balanced)


def wclass(grouping, slice_v, container):
    if container == "SIMPSON_ROMBERG" and grouping != "UNIT":
        return "simpson-container-grouped"
    return ("%s-%s-%s" % (grouping, slice_v, container)).lower()


def tree_case(ctx, case):
    a, b, levels = case["a"], case["b"], list(case["levels"])
    grouping, slice_v, container, balanced = case["grouping"], case["slice"], case["container"], case["balanced"]
    grid, _ = grid_from_levels(a, b, levels)
    assert grid is not None, "harness generated an invalid tree"
    wc = wclass(grouping, slice_v, container)
    site = SITE_SIMPSON if wc == "simpson-container-grouped" else SITE_W
    w = g2 = None
    with ctx.guard("B.weights.returns", SITE_W, wc + "-raises"):
        eg = make_grid(grouping, slice_v, container, balanced)
        with quiet():
            eg.set_grid(list(grid), list(levels))
            w = eg.get_weights()
        g2 = list(eg.get_grid())
    if w is None:
        return
    ctx.check("B.weights.returns", len(w) == len(g2) and (balanced or g2 == grid), SITE_W, wc, "%d weights for %d points" % (len(w), len(g2)))
    if len(w) != len(g2):
        return
    H = b - a
    ctx.check("B.weights.sum", moment_defect(w, g2, a, b, 0) <= 1e-10, site, wc,
              "sum of weights %.15g, interval length %.15g (grid %s levels %s)" % (sum(w), H, grid, levels))
    ctx.check("B.weights.linear", moment_defect(w, g2, a, b, 1) <= 1e-10, site, wc,
              "sum w*(x-a)/H = %.15g instead of %.15g" % (sum(wi * (x - a) / H for wi, x in zip(w, g2)), H / 2))
    m = case.get("complete")
    if m is not None and container == "ROMBERG_DEFAULT" and (slice_v == "ROMBERG_DEFAULT" or (grouping != "UNIT" and m >= 1)):
        bad = [(k, moment_defect(w, g2, a, b, k)) for k in range(2 * m + 2)]
        bad = [x for x in bad if not x[1] <= 1e-9]
        ctx.check("B.full.exactness", not bad, SITE_W, wc, "complete grid of depth %d: moments (degree, rel. defect) %s" % (m, bad[:3]))


def balanced_case(ctx, case):
    from sparseSpACE.Extrapolation import BalancedExtrapolationGrid
    from sparseSpACE.Grid import GlobalBalancedRombergGrid
    a, b, levels = case["a"], case["b"], list(case["levels"])
    grid, _ = grid_from_levels(a, b, levels)
    w = None
    with ctx.guard("B.balanced.sum_linear", SITE_BAL, "raises"):
        bg = BalancedExtrapolationGrid()
        bg.set_grid(list(grid), list(levels))
        w = bg.get_weights()
    if w is not None:
        ok = len(w) == len(grid) and moment_defect(w, grid, a, b, 0) <= 1e-10 and moment_defect(w, grid, a, b, 1) <= 1e-10
        ctx.check("B.balanced.sum_linear", ok, SITE_BAL, "balanced", "weights %s on grid %s" % (list(w)[:6], grid[:6]))
        m = case.get("complete")
        if m is not None and ok:
            bad = [(k, moment_defect(w, grid, a, b, k)) for k in range(2 * m)]
            bad = [x for x in bad if not x[1] <= 1e-9]
            ctx.check("B.balanced.exactness", not bad, SITE_BAL, "balanced-complete", "depth %d: moments (degree, rel. defect) %s" % (m, bad[:3]))
    wg = None
    with ctx.guard("B.wrap.global", SITE_GB, "balanced-raises"):
        G = GlobalBalancedRombergGrid([a], [b])
        G.set_grid([list(grid)], [list(levels)])
        wg = [0.0] + [float(x) for x in G.weights[0]] + [0.0]  # boundary=False: inner points only
    if wg is not None:
        ctx.check("B.wrap.global", len(wg) == len(grid) and moment_defect(wg, grid, a, b, 0) <= 1e-10 and moment_defect(wg, grid, a, b, 1) <= 1e-10,
                  SITE_GB, "balanced", "wrapper weights %s" % wg[:6])


def completion_case(ctx, case):
    from sparseSpACE.Extrapolation import GridBinaryTree
    a, b, levels = case["a"], case["b"], list(case["levels"])
    grid, _ = grid_from_levels(a, b, levels)
    g2 = l2 = None
    with ctx.guard("B.tree.completion", SITE_TREE, "raises"):
        tree = GridBinaryTree()
        tree.init_tree(list(grid), list(levels))
        tree.force_full_tree_invariant()
        g2, l2 = list(tree.get_grid()), list(tree.get_grid_levels())
    if g2 is None:
        return
    msg = None
    if len(g2) != len(l2) or any(not g2[i] < g2[i + 1] for i in range(len(g2) - 1)) or g2[0] != a or g2[-1] != b:
        msg = "not a strictly increasing grid on [a,b]: %s" % g2
    else:
        have = dict(zip(g2, l2))
        lost = [(x, l) for x, l in zip(grid, levels) if have.get(x) != l]
        if lost:
            msg = "given points lost or re-levelled: %s" % lost[:3]
        else:
            pos, children = grid_from_levels(a, b, l2)
            if pos is None or pos != g2:
                msg = "result is not a dyadic refinement tree: grid %s levels %s" % (g2, l2)
            else:
                one = [g2[k] for k, (l, r) in children.items() if l != r]
                if one:
                    msg = "nodes with exactly one child: %s" % one[:3]
    ctx.check("B.tree.completion", msg is None, SITE_TREE, "completion", msg or "")


def wrapper_pass(ctx, a, b, trees):
    """one GlobalRombergGrid per option triple, cache on; each tree requested twice, in two different orders"""
    from sparseSpACE.Grid import GlobalRombergGrid
    from sparseSpACE.Extrapolation import SliceGrouping, SliceVersion, SliceContainerVersion
    for grouping, slice_v, container in itertools.product(GROUPINGS, SLICES, CONTAINERS):
        wc = wclass(grouping, slice_v, container)
        R = GlobalRombergGrid([a], [b], slice_grouping=SliceGrouping[grouping], slice_version=SliceVersion[slice_v],
                              container_version=SliceContainerVersion[container])
        order = list(range(len(trees))) + list(reversed(range(len(trees))))
        for n_req, idx in enumerate(order):
            levels = levels_of(trees[idx])
            grid, _ = grid_from_levels(a, b, levels)
            ctx.case({"kind": "wrapper", "a": a, "b": b, "levels": levels, "grouping": grouping, "slice": slice_v, "container": container,
                      "visit": 1 if n_req < len(trees) else 2}, nontrivial=len(levels) > 2)
            w = None
            with ctx.guard("B.wrap.global", SITE_GR, wc + "-raises"):
                with quiet():
                    R.set_grid([list(grid)], [list(levels)])
                w = [float(x) for x in R.weights[0]]
            if w is None:
                continue
            ok = len(w) == len(grid) and moment_defect(w, grid, a, b, 0) <= 1e-10 and moment_defect(w, grid, a, b, 1) <= 1e-10
            ctx.check("B.wrap.global", ok, SITE_GR, wc, "wrapper weights %s for grid %s" % (w[:6], grid[:6]))


def wrapper2d_pass(ctx, boxes, trees, options=None):
    """one 2-D GlobalRombergGrid (cache on) whose two dimensions have DIFFERENT extents but are refined by the same tree: every dimension's
    weights must fit that dimension's own interval (the weight cache must not hand the weights of one interval to another)"""
    from sparseSpACE.Grid import GlobalRombergGrid
    from sparseSpACE.Extrapolation import SliceGrouping, SliceVersion, SliceContainerVersion
    for grouping, slice_v, container in (options or itertools.product(GROUPINGS, SLICES, CONTAINERS)):
        wc = wclass(grouping, slice_v, container)
        for (a0, b0), (a1, b1) in boxes:
            R = GlobalRombergGrid([a0, a1], [b0, b1], slice_grouping=SliceGrouping[grouping], slice_version=SliceVersion[slice_v],
                                  container_version=SliceContainerVersion[container])
            for tr in trees:
                levels = levels_of(tr)
                g0, _ = grid_from_levels(a0, b0, levels)
                g1, _ = grid_from_levels(a1, b1, levels)
                ctx.case({"kind": "wrapper2d", "box": [[a0, b0], [a1, b1]], "levels": levels, "grouping": grouping, "slice": slice_v, "container": container},
                         nontrivial=len(levels) > 2)
                ws = None
                with ctx.guard("B.wrap.global", SITE_GR, wc + "-raises"):
                    with quiet():
                        R.set_grid([list(g0), list(g1)], [list(levels), list(levels)])
                    ws = [[float(x) for x in R.weights[d]] for d in range(2)]
                if ws is None:
                    continue
                for d, (g, a, b) in enumerate(((g0, a0, b0), (g1, a1, b1))):
                    w = ws[d]
                    ok = len(w) == len(g) and moment_defect(w, g, a, b, 0) <= 1e-10 and moment_defect(w, g, a, b, 1) <= 1e-10
                    ctx.check("B.wrap.global", ok, SITE_GR, wc, "2-D wrapper, dimension %d on [%r,%r]: weights %s for grid %s" % (d, a, b, w[:6], g[:6]))


# ----------------------------------------------------------------------------------------------------------------
# history clauses: several objects / several trees in one process
def history_trees():
    """complete trees of depth 1..4 (exactness can be judged through the wrappers) and adaptive trees, several of equal size"""
    ts = [("c%d" % m, complete_levels(m), m) for m in (1, 2, 3, 4)]
    picks = [t for t in all_trees(3) if t is not None]
    for k in (3, 7, 11, 12, 16, 19, 22, 24):
        ts.append(("t%d" % k, levels_of(picks[k]), None))
    return ts


def trapezoid_weights(grid):
    n = len(grid)
    return [((grid[min(i + 1, n - 1)] - grid[max(i - 1, 0)]) / 2.0) for i in range(n)]


def fresh_weights(grouping, slice_v, container, balanced, grid, levels):
    eg = make_grid(grouping, slice_v, container, balanced)
    with quiet():
        eg.set_grid(list(grid), list(levels))
        return [float(x) for x in eg.get_weights()], list(eg.get_grid())


def same(w1, w2, H):
    return len(w1) == len(w2) and all(abs(float(x) - float(y)) <= 1e-12 * H for x, y in zip(w1, w2))


def wrapper_history_case(ctx, case):
    """twelve differently configured GlobalRombergGrid objects, all alive, visit the trees in an order rotated by case['rotation']"""
    from sparseSpACE.Grid import GlobalRombergGrid
    from sparseSpACE.Extrapolation import SliceGrouping, SliceVersion, SliceContainerVersion
    a, b, rot = case["a"], case["b"], case["rotation"]
    H = b - a
    configs = list(itertools.product(GROUPINGS, SLICES, CONTAINERS))
    objs = None
    with ctx.guard("B.hist.wrapper_config", SITE_GR, "construct-raises"):
        objs = [GlobalRombergGrid([a], [b], slice_grouping=SliceGrouping[g], slice_version=SliceVersion[sv], container_version=SliceContainerVersion[cv])
                for g, sv, cv in configs]
    if objs is None:
        return
    handed_out = []
    for t_no, (name, levels, m) in enumerate(history_trees()):
        grid, _ = grid_from_levels(a, b, levels)
        order = [(rot + t_no + i) % len(configs) for i in range(len(configs))]
        for pos, ci in enumerate(order):
            g, sv, cv = configs[ci]
            wc = wclass(g, sv, cv) + ("/first-on-tree" if pos == 0 else "/after-other-config")
            w = None
            with ctx.guard("B.hist.wrapper_config", SITE_GR, wc + "-raises"):
                with quiet():
                    objs[ci].set_grid([list(grid)], [list(levels)])
                w_ref = objs[ci].weights[0]
                w = [float(x) for x in w_ref]
            if w is None:
                continue
            handed_out.append((w_ref, list(w), wclass(g, sv, cv), name))
            fw, _ = fresh_weights(g, sv, cv, False, grid, levels)
            msg = None
            if not same(w, fw, H):
                msg = "tree %s: wrapper delivers %s, a fresh ExtrapolationGrid of this configuration %s" % (name, w[:5], fw[:5])
            elif sv == "TRAPEZOID" and g == "UNIT" and not same(w, trapezoid_weights(grid), H):
                msg = "tree %s: UNIT/TRAPEZOID delivery %s is not the trapezoidal rule %s" % (name, w[:5], trapezoid_weights(grid)[:5])
            elif m is not None and cv == "ROMBERG_DEFAULT" and (sv == "ROMBERG_DEFAULT" or g != "UNIT"):
                bad = [(k, moment_defect(w, grid, a, b, k)) for k in range(2 * m + 2)]
                bad = [x for x in bad if not x[1] <= 1e-9]
                if bad:
                    msg = "complete tree of depth %d: delivery not exact, (degree, rel. defect) %s" % (m, bad[:3])
            ctx.check("B.hist.wrapper_config", msg is None, SITE_GR, wc, msg or "")
            # the same request again on the same object
            w2 = None
            with ctx.guard("B.hist.idempotent", SITE_GR, wclass(g, sv, cv) + "/second-request-raises"):
                with quiet():
                    objs[ci].set_grid([list(grid)], [list(levels)])
                w2 = [float(x) for x in objs[ci].weights[0]]
            if w2 is not None:
                ctx.check("B.hist.idempotent", same(w, w2, 0.0), SITE_GR, wclass(g, sv, cv) + "/second-request",
                          "tree %s: first request %s, second request %s" % (name, w[:5], w2[:5]))
    changed = [(wc, name) for ref, cp, wc, name in handed_out if [float(x) for x in ref] != cp]
    ctx.check("B.hist.idempotent", not changed, SITE_GR, "reported-earlier", "weight arrays changed after delivery: %s" % changed[:3])


def reuse_case(ctx, case):
    """one object, many trees, there and back"""
    from sparseSpACE.Extrapolation import BalancedExtrapolationGrid
    a, b = case["a"], case["b"]
    H = b - a
    trees = history_trees()
    seq = trees + list(reversed(trees))
    if case["object"] == "balanced":
        bt = [levels_of(t) for t in balanced_trees(4)][::3] + [complete_levels(4)]
        seq2 = bt + list(reversed(bt))
        obj = BalancedExtrapolationGrid()
        for levels in seq2:
            grid, _ = grid_from_levels(a, b, levels)
            w = f = None
            with ctx.guard("B.hist.reuse", SITE_BAL, "reused-object-raises"):
                obj.set_grid(list(grid), list(levels))
                w = [float(x) for x in obj.get_weights()]
                w_again = [float(x) for x in obj.get_weights()]
                fo = BalancedExtrapolationGrid()
                fo.set_grid(list(grid), list(levels))
                f = [float(x) for x in fo.get_weights()]
            if w is not None and f is not None:
                ctx.check("B.hist.reuse", same(w, f, H), SITE_BAL, "reused-object", "levels %s: reused object %s, fresh object %s" % (levels, w[:5], f[:5]))
                ctx.check("B.hist.idempotent", w == w_again, SITE_BAL, "balanced/second-request", "get_weights twice: %s vs %s" % (w[:5], w_again[:5]))
        return
    g, sv, cv, balanced = case["grouping"], case["slice"], case["container"], case["balanced"]
    wc = wclass(g, sv, cv)
    eg = make_grid(g, sv, cv, balanced)
    handed = []
    inplace = bool(case.get("inplace"))
    if inplace:
        wc += "/caller-lists-updated-in-place"
    G, Lv = [], []          # caller-owned lists: with `inplace` the SAME two list objects are refilled for every tree and handed over again
    for name, levels, m in seq:
        grid, _ = grid_from_levels(a, b, levels)
        w = None
        with ctx.guard("B.hist.reuse", SITE_W, wc + "/reused-object-raises"):
            with quiet():
                if inplace:
                    G[:] = list(grid)
                    Lv[:] = list(levels)
                    eg.set_grid(G, Lv)
                else:
                    eg.set_grid(list(grid), list(levels))
                w_ref = eg.get_weights()
                w_again = [float(x) for x in eg.get_weights()]
            w = [float(x) for x in w_ref]
            g_used = list(eg.get_grid())
        if w is None:
            continue
        handed.append((w_ref, list(w), name))
        fw, fg = fresh_weights(g, sv, cv, balanced, grid, levels)
        ctx.check("B.hist.reuse", g_used == fg and same(w, fw, H), SITE_W, wc + "/reused-object",
                  "tree %s: reused object %s, fresh object %s" % (name, w[:5], fw[:5]))
        ctx.check("B.hist.idempotent", w == w_again, SITE_W, wc + "/second-request", "tree %s: get_weights twice %s vs %s" % (name, w[:5], w_again[:5]))
    changed = [name for ref, cp, name in handed if [float(x) for x in ref] != cp]
    ctx.check("B.hist.idempotent", not changed, SITE_W, wc + "/reported-earlier", "weight lists changed after delivery for trees %s" % changed[:4])


def fault_reuse_case(ctx, case):
    """one object; for every tree the grid is first requested while the reference function's analytic integral fails for the second slice (the request aborts
    part-way with the function's exception), then the function is replaced by a good one and the SAME grid is requested again: weights and grid are those of a
    fresh object given the good function (missed seed C11_9: an 'unchanged grid' shortcut trusted the half-built state of the aborted request)"""
    from sparseSpACE.Function import Function
    from bounded._drivers_common import ModelFault
    a, b = case["a"], case["b"]
    H = b - a
    g, sv, cv = case["grouping"], case["slice"], case["container"]
    wc = wclass(g, sv, cv) + "/retry-after-failed-request"

    class Good(Function):
        def output_length(self):
            return 1

        def eval(self, x):
            return 1.0 + 2.0 * float(x[0])

        def getAnalyticSolutionIntegral(self, start, end):
            s_, e_ = float(start[0]), float(end[0])
            return (e_ - s_) + (e_ * e_ - s_ * s_)

    class Bad(Good):
        def __init__(self, k):
            super().__init__()
            self.calls, self.k = 0, k

        def getAnalyticSolutionIntegral(self, start, end):
            self.calls += 1
            if self.calls == self.k:
                raise ModelFault("no analytic integral on [%r, %r]" % (start, end))
            return Good.getAnalyticSolutionIntegral(self, start, end)

    eg = make_grid(g, sv, cv, False)
    for name, levels, m in history_trees()[:5]:
        grid, _ = grid_from_levels(a, b, levels)
        w = None
        aborted = False
        with ctx.guard("B.hist.reuse", SITE_W, wc + "-raises"):
            with quiet():
                bad = Bad(0)
                eg.set_function(bad)            # handed over without a fault; the fault strikes inside the grid request below
                bad.calls, bad.k = 0, 2
                try:
                    eg.set_grid(list(grid), list(levels))
                except ModelFault:
                    aborted = True
                eg.set_function(Good())
                eg.set_grid(list(grid), list(levels))
                w = [float(x) for x in eg.get_weights()]
                g_used = list(eg.get_grid())
                fo = make_grid(g, sv, cv, False)
                fo.set_function(Good())
                fo.set_grid(list(grid), list(levels))
                fw, fg = [float(x) for x in fo.get_weights()], list(fo.get_grid())
        if w is None or not aborted:
            continue
        ctx.check("B.hist.reuse", g_used == fg and same(w, fw, H), SITE_W, wc,
                  "tree %s: after an aborted request and a retry with the same grid %s (%d weights for %d points), fresh object %s" % (name, w[:5], len(w), len(grid), fw[:5]))


def history_pass(ctx, intervals):
    for (a, b) in intervals:
        for rot in range(12):
            case = {"kind": "wrapper_history", "a": a, "b": b, "rotation": rot}
            ctx.case(case)
            wrapper_history_case(ctx, case)
        for g, sv, cv, balanced in itertools.product(GROUPINGS, SLICES, CONTAINERS, (False, True)):
            case = {"kind": "reuse", "object": "extrapolation", "a": a, "b": b, "grouping": g, "slice": sv, "container": cv, "balanced": balanced}
            ctx.case(case)
            reuse_case(ctx, case)
            if not balanced:
                case = dict(case, inplace=True)
                ctx.case(case)
                reuse_case(ctx, case)
                case = dict(case, inplace=False, kind="fault_reuse")
                ctx.case(case)
                fault_reuse_case(ctx, case)
        case = {"kind": "reuse", "object": "balanced", "a": a, "b": b}
        ctx.case(case)
        reuse_case(ctx, case)


# ----------------------------------------------------------------------------------------------------------------
def option_tuples(levels):
    for grouping, slice_v, container, balanced in itertools.product(GROUPINGS, SLICES, CONTAINERS, (False, True)):
        if balanced and len(levels) <= 2:
            continue  # documented refusal: GridBinaryTree.init_tree asserts that there is a root
        yield grouping, slice_v, container, balanced


def run(ctx):
    quick = ctx.quick()
    intervals = INTERVALS[:3] if quick else INTERVALS
    trees4 = all_trees(4)
    ctx.exhaustive = True
    # complete grids first (exactness clauses)
    for (a, b) in intervals:
        for m in range(0, 6):
            levels = complete_levels(m)
            for grouping, slice_v, container, balanced in option_tuples(levels):
                case = {"kind": "tree", "a": a, "b": b, "levels": levels, "grouping": grouping, "slice": slice_v, "container": container,
                        "balanced": balanced, "complete": m}
                ctx.case(case, nontrivial=m >= 1)
                tree_case(ctx, case)
            if m >= 1:
                case = {"kind": "balanced", "a": a, "b": b, "levels": levels, "complete": m}
                ctx.case(case)
                balanced_case(ctx, case)
    # binary tree completion and balanced grids
    for (a, b) in intervals:
        for t in trees4:
            if t is None:
                continue
            case = {"kind": "completion", "a": a, "b": b, "levels": levels_of(t)}
            ctx.case(case)
            completion_case(ctx, case)
        for t in balanced_trees(5):
            case = {"kind": "balanced", "a": a, "b": b, "levels": levels_of(t)}
            ctx.case(case)
            balanced_case(ctx, case)
    # very short intervals (the step widths of neighbouring slices differ by less than numpy's default absolute tolerance 1e-8: exact comparisons of
    # step widths must not be replaced by tolerant ones; missed seed C11_8), all trees of depth <= 3, all options
    for (a, b) in ((0.0, 2.0 ** -30), (-2.0 ** -29, 0.0)):
        for t in all_trees(3):
            if t is None:
                continue
            levels = levels_of(t)
            for grouping, slice_v, container, balanced in option_tuples(levels):
                case = {"kind": "tree", "a": a, "b": b, "levels": levels, "grouping": grouping, "slice": slice_v, "container": container, "balanced": balanced}
                ctx.case(case, nontrivial=len(levels) > 2)
                tree_case(ctx, case)
    # wrappers with cache
    for (a, b) in intervals[:2]:
        wrapper_pass(ctx, a, b, all_trees(3))
    wrapper2d_pass(ctx, [((0.0, 1.0), (-1.0, 2.0)), ((-3.0, 6.0), (0.0, 1.0))], all_trees(3))
    history_pass(ctx, [(0.0, 1.0), (-1.0, 3.0)])
    # all trees of depth <= 4, all options
    for (a, b) in intervals:
        for t in trees4:
            if ctx.out_of_time(0.9):
                ctx.exhaustive = False
                ctx.note("tree enumeration stopped early on interval %s" % ((a, b),))
                return
            levels = levels_of(t)
            for grouping, slice_v, container, balanced in option_tuples(levels):
                case = {"kind": "tree", "a": a, "b": b, "levels": levels, "grouping": grouping, "slice": slice_v, "container": container,
                        "balanced": balanced}
                ctx.case(case, nontrivial=len(levels) > 2)
                tree_case(ctx, case)
    if quick:
        return
    # thorough: random deeper trees (sample)
    n = 0
    while not ctx.out_of_time(0.8) and n < 12000:
        n += 1
        a, b = ctx.rng.choice(INTERVALS)
        t = random_tree(ctx.rng, ctx.rng.randint(5, 7), ctx.rng.choice((0.6, 0.75, 0.9)))
        if t is None:
            continue
        levels = levels_of(t)
        for grouping, slice_v, container, balanced in option_tuples(levels):
            case = {"kind": "tree", "a": a, "b": b, "levels": levels, "grouping": grouping, "slice": slice_v, "container": container,
                    "balanced": balanced}
            ctx.case(case)
            tree_case(ctx, case)
        case = {"kind": "completion", "a": a, "b": b, "levels": levels}
        ctx.case(case)
        completion_case(ctx, case)
    ctx.note("%d random deep trees" % n)


def replay(ctx, case):
    kind = case["kind"]
    if kind == "tree":
        tree_case(ctx, case)
    elif kind == "balanced":
        balanced_case(ctx, case)
    elif kind == "completion":
        completion_case(ctx, case)
    elif kind == "wrapper_history":
        wrapper_history_case(ctx, case)
    elif kind == "reuse":
        reuse_case(ctx, case)
    elif kind == "fault_reuse":
        fault_reuse_case(ctx, case)
    elif kind == "wrapper2d":
        box = [tuple(x) for x in case["box"]]
        wrapper2d_pass(ctx, [tuple(box)], all_trees(3), options=[(case["grouping"], case["slice"], case["container"])])
    else:  # wrapper: a single request on a fresh wrapper (the cache interplay needs the whole pass)
        from sparseSpACE.Grid import GlobalRombergGrid
        from sparseSpACE.Extrapolation import SliceGrouping, SliceVersion, SliceContainerVersion
        a, b, levels = case["a"], case["b"], list(case["levels"])
        grid, _ = grid_from_levels(a, b, levels)
        wc = wclass(case["grouping"], case["slice"], case["container"])
        with ctx.guard("B.wrap.global", SITE_GR, wc + "-raises"):
            R = GlobalRombergGrid([a], [b], slice_grouping=SliceGrouping[case["grouping"]], slice_version=SliceVersion[case["slice"]],
                                  container_version=SliceContainerVersion[case["container"]])
            for _ in range(2):
                with quiet():
                    R.set_grid([list(grid)], [list(levels)])
                w = [float(x) for x in R.weights[0]]
                ctx.check("B.wrap.global", len(w) == len(grid) and moment_defect(w, grid, a, b, 0) <= 1e-10 and moment_defect(w, grid, a, b, 1) <= 1e-10,
                          SITE_GR, wc, "wrapper weights %s for grid %s" % (w[:6], grid[:6]))
