"""native replay for C15 counter-models (moment algebra)"""
from bounded.replay_models import handler


@handler("C15.moments")
def c15_moments(inp, obligation):
    import numpy as np
    from sparseSpACE.GridOperation import UncertaintyQuantification as UQ
    m1 = np.array([float(x) for x in inp["m1"]])
    m2 = np.array([float(x) for x in inp["m2"]])
    store = np.concatenate([m1, m2])            # callers pass views of one live result array
    a, b = store[:len(m1)], store[len(m1):]
    before = store.copy()
    e, v = UQ.moments_to_expectation_variance(a, b)
    bad = []
    if not np.allclose(np.asarray(e, float), m1):
        bad.append("expectation %r != first moment %r" % (list(e), m1.tolist()))
    if not np.allclose(np.asarray(v, float), np.abs(m2 - m1 * m1)) or np.any(np.asarray(v, float) < 0):
        bad.append("variance %r != |m2 - m1^2| %r" % (list(np.asarray(v, float)), np.abs(m2 - m1 * m1).tolist()))
    if not np.array_equal(store, before):
        bad.append("the stored moments were overwritten: %r -> %r (a second query of the statistics is wrong)" % (before.tolist(), store.tolist()))
    return bool(bad), {"m1": m1.tolist(), "m2": m2.tolist(), "violations": bad}


@handler("C15.weights_special")
def c15_weights_special(inp, obligation):
    """closed-form branches of the weighted trapezoidal rule on the real function: one point, and three points without boundary points"""
    import numpy as np
    from sparseSpACE.Grid import GlobalTrapezoidalGridWeighted as G
    bad = []
    for grid, boundary in (([0.3], True), ([0.3], False), ([0.0, 0.4, 1.0], False)):
        for modified in (False, True):
            w = np.asarray(G.compute_weights(list(grid), 0.0, 1.0, None, boundary, modified), dtype=float)
            if len(w) != len(grid) or np.any(w < 0) or abs(float(np.sum(w)) - 1.0) > 1e-12 or (len(grid) == 3 and (w[0] != 0 or w[-1] != 0)):
                bad.append("compute_weights(%r, boundary=%r, modified_basis=%r) = %r" % (grid, boundary, modified, w.tolist()))
    return bool(bad), {"violations": bad}
