"""native replay for C15 counter-models (moment algebra)"""
from bounded.replay_models import handler


@handler("C15.moments")
def c15_moments(inp, obligation):
    import numpy as np
    from sparseSpACE.GridOperation import UncertaintyQuantification as UQ
    m1 = np.array([float(x) for x in inp["m1"]])
    m2 = np.array([float(x) for x in inp["m2"]])
    store = np.concatenate([m1, m2])            # callers pass views of one live result array
    a, b = store[:len(m1)], store[len(m1):]
    before = store.copy()
    e, v = UQ.moments_to_expectation_variance(a, b)
    bad = []
    if not np.allclose(np.asarray(e, float), m1):
        bad.append("expectation %r != first moment %r" % (list(e), m1.tolist()))
    if not np.allclose(np.asarray(v, float), np.abs(m2 - m1 * m1)) or np.any(np.asarray(v, float) < 0):
        bad.append("variance %r != |m2 - m1^2| %r" % (list(np.asarray(v, float)), np.abs(m2 - m1 * m1).tolist()))
    if not np.array_equal(store, before):
        bad.append("the stored moments were overwritten: %r -> %r (a second query of the statistics is wrong)" % (before.tolist(), store.tolist()))
    return bool(bad), {"m1": m1.tolist(), "m2": m2.tolist(), "violations": bad}


@handler("C15.weights_special")
def c15_weights_special(inp, obligation):
    """closed-form branches of the weighted trapezoidal rule on the real function: one point, and three points without boundary points"""
    import numpy as np
    from sparseSpACE.Grid import GlobalTrapezoidalGridWeighted as G
    bad = []
    for grid, boundary in (([0.3], True), ([0.3], False), ([0.0, 0.4, 1.0], False)):
        for modified in (False, True):
            w = np.asarray(G.compute_weights(list(grid), 0.0, 1.0, None, boundary, modified), dtype=float)
            if len(w) != len(grid) or np.any(w < 0) or abs(float(np.sum(w)) - 1.0) > 1e-12 or (len(grid) == 3 and (w[0] != 0 or w[-1] != 0)):
                bad.append("compute_weights(%r, boundary=%r, modified_basis=%r) = %r" % (grid, boundary, modified, w.tolist()))
    return bool(bad), {"violations": bad}


@handler("C15.nodes_after_fault")
def c15_nodes_after_fault(inp, obligation):
    """the node-based statistics after a history that leaves stale nodes / model values in the operation: two-stop moment cases of the bounded harness (first stop,
    continuation, cache emptied, a model fault in the first node-based query of the new grid, the query repeated); reports the node-path clauses only"""
    import random
    from bounded import api, C15 as H
    ctx = api.Ctx("C15", "quick", 0, 60.0)
    rng = random.Random(5)
    n = 0
    for _ in range(6):
        if ctx.out_of_time(0.9):
            break
        d = rng.choice([1, 2])
        setup = H.sample_setup(rng, d, moderate=True)
        d_span = all(H.spans_support(tuple(setup["dist"][k]), setup["a"][k], setup["b"][k]) for k in range(d)) or not setup["boundary"]
        H.moments_case(ctx, setup, rng.choice(["exp", "poly", "abs"]), 1.7, 0.9 if d_span else 0.0, 3.0, 2, rng.choice([12, 20, 30]), False, 60)
        n += 1
    hits = [v for v in ctx.violations if "nodes-path" in v["witness_class"]]
    bad = ["%s [%s]: %s" % (v["clause"], v["witness_class"], v["message"][:300]) for v in hits]
    return bool(bad), {"cases": n, "violations": bad[:4]}
