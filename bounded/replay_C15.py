"""native replay for C15 counter-models (moment algebra)"""
from bounded.replay_models import handler


@handler("C15.moments")
def c15_moments(inp, obligation):
    import numpy as np
    from sparseSpACE.GridOperation import UncertaintyQuantification as UQ
    m1 = np.array([float(x) for x in inp["m1"]])
    m2 = np.array([float(x) for x in inp["m2"]])
    store = np.concatenate([m1, m2])            # callers pass views of one live result array
    a, b = store[:len(m1)], store[len(m1):]
    before = store.copy()
    e, v = UQ.moments_to_expectation_variance(a, b)
    bad = []
    if not np.allclose(np.asarray(e, float), m1):
        bad.append("expectation %r != first moment %r" % (list(e), m1.tolist()))
    if not np.allclose(np.asarray(v, float), np.abs(m2 - m1 * m1)) or np.any(np.asarray(v, float) < 0):
        bad.append("variance %r != |m2 - m1^2| %r" % (list(np.asarray(v, float)), np.abs(m2 - m1 * m1).tolist()))
    if not np.array_equal(store, before):
        bad.append("the stored moments were overwritten: %r -> %r (a second query of the statistics is wrong)" % (before.tolist(), store.tolist()))
    return bool(bad), {"m1": m1.tolist(), "m2": m2.tolist(), "violations": bad}
