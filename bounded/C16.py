"""C16 bounded stand-in: the density-estimation linear system of the real DensityEstimation operation
(matrix, right-hand side, hat evaluations, normalisation) against an independent reference.

The reference (hat1d / gram / basis matrix / trapezoidal weights) is plain numpy written here; it never calls /repo.
C17 and C20 import the reference helpers and the data / grid generators from this module.
"""
import hashlib
import itertools
import random
import types

from bounded.api import quiet, close

BOUND = ("boundary-free hat basis on [0,1]^d, d<=3; uniform component grids: every level vector with levels 1..4 and N<200 points plus "
         "(4,4),(3,3,3),(2,4,4) (thorough: every one with N<=700); non-uniform grids: (a) component grids of real SpatiallyAdaptiveSingleDimensions2 runs, (lmin,lmax) in "
         "{(1,2),(1,3),(2,3)}, d in {2,3}, 1..3 refinement steps chosen by a seeded adversarial ErrorCalculator, margin in {0.5,0.9}, "
         "rebalancing on/off, (b) seeded random bisection-tree stripes (point levels <=6, <=19 interior points per dimension, N<=400) fed "
         "to calculate_operation_dimension_wise of an operation initialised by a real zero-step run; data sets of 1..40 samples in the "
         "closed unit cube of kinds random / on dyadic grid lines / on the domain boundary / clustered / mixed, plus anchor data sets of 4097..12500 "
         "(labelled) samples on small uniform grids; sequences of 4 level vectors (first one revisited) on ONE operation; hat evaluations additionally at "
         "grid points, cell mid points, corners and points one floating-point neighbour below/above interior grid coordinates; lambda in {0,1e-3,0.1,1e8}; "
         "mass lumping on/off; analytic and numeric (1-D: N<=15, 2-D: N<=3) matrix entries; class labels none or +-1; right-hand side on the "
         "small (N<200), large (N>=200) and reuse (N>=200, previous iteration present) paths, natively on grids with N>=200 and, in the "
         "harness process only, with the size constant 200 of the real functions replaced by 0 / 10**9 on small grids")
RULE = BOUND + ("; one case = one (grid or run, data set, lambda, mass lumping, numeric, labels) configuration; non-trivial = the grid has >=1 "
                "interior point and the data set is non-empty (always)")
BUDGET = {"quick": 45.0, "thorough": 840.0}

CLAUSES = {
    "B.R.gram": "analytic system matrix == Gram matrix of the hat basis (exact piecewise integration) + lambda on the diagonal, "
                "rel 1e-10 (uniform grids) / 1e-8 (non-uniform grids, point levels <= 6)",
    "B.R.numeric": "numerically integrated system matrix (full, or its mass-lumped diagonal) == Gram matrix + lambda on the diagonal, "
                   "rel 1e-6 (quadrature tolerance)",
    "B.R.spd": "system matrix is exactly symmetric and its smallest eigenvalue is > 0",
    "B.R.lumped": "mass-lumped form == diagonal of the Gram matrix (uniform grid: the common diagonal value, with or without lambda; "
                  "non-uniform grid: Gram diagonal + lambda), rel 1e-10 / 1e-8",
    "B.rhs.mean": "right-hand side == (1/M) sum_i sign_i * phi_j(x_i) for every basis function j, abs 1e-12, on every size path",
    "B.hat.agree": "scalar, vectorised and completely vectorised hat evaluations == reference hat (and hence each other), abs 1e-12, "
                   "incl. points on cell boundaries, grid points and the domain boundary",
    "B.norm.positive_mean": "returned surpluses: trapezoid-weighted mean of the positive parts is 1 (rel 1e-9) unless no part is positive",
    "B.solve.system": "returned surpluses == c*x + s with x the solution of (Gram + lambda I) x = rhs (mass lumped: diagonal), c>0, "
                      "s=0 without class labels; residual <= 1e-7 relative",
    "B.run.returns": "the real entry points return normally on valid input",
    "B.hist.idempotent": "the same query (matrix, right-hand side, surpluses of a level vector) repeated on the same operation returns the same "
                         "values (rel 1e-12); a level vector revisited after others satisfies all clauses above again",
    "B.hist.report_stable": "arrays handed out earlier (surpluses, right-hand sides, matrices) still equal the copy taken when they were "
                            "returned, after later evaluations on the same operation",
}

DE = "sparseSpACE.GridOperation:DensityEstimation."
ML = "sparseSpACE.GridOperation:MachineLearning."
MLS = ML


# ------------------------------------------------------------------------------------------------
# independent reference
# ------------------------------------------------------------------------------------------------
def uniform_stripes(levelvec):
    return [[i / float(2 ** l) for i in range(2 ** l + 1)] for l in levelvec]


def hat1d(x, l, p, r):
    """piecewise linear: 1 at p, 0 at l and r and outside (l, r); l < p < r."""
    import numpy as np
    x = np.asarray(x, dtype=float)
    return np.maximum(0.0, np.minimum((x - l) / (p - l), (r - x) / (r - p)))


def hats1d_matrix(stripe, xs):
    """values of all interior hats of the 1-D stripe (with both end points) at xs: shape (len(xs), n_interior)"""
    import numpy as np
    xs = np.asarray(xs, dtype=float)
    n = len(stripe) - 2
    H = np.zeros((len(xs), n))
    for j in range(n):
        H[:, j] = hat1d(xs, stripe[j], stripe[j + 1], stripe[j + 2])
    return H


def basis_matrix(stripes, X):
    """Phi[i, j] = phi_j(X[i]); j runs over the tensor-product hats in itertools.product order (first dimension slowest)."""
    import numpy as np
    X = np.asarray(X, dtype=float).reshape((-1, len(stripes)))
    Phi = hats1d_matrix(stripes[0], X[:, 0])
    for k in range(1, len(stripes)):
        Hk = hats1d_matrix(stripes[k], X[:, k])
        Phi = (Phi[:, :, None] * Hk[:, None, :]).reshape((X.shape[0], -1))
    return Phi


def gram1d(stripe):
    """exact mass matrix of the interior hats: Simpson on every cell (the product of two hats is quadratic there)."""
    import numpy as np
    s = np.asarray(stripe, dtype=float)
    left, right = s[:-1], s[1:]
    mid = 0.5 * (left + right)
    h = right - left
    Hl, Hm, Hr = hats1d_matrix(stripe, left), hats1d_matrix(stripe, mid), hats1d_matrix(stripe, right)
    w = (h / 6.0)[:, None]
    return Hl.T @ (w * Hl) + 4.0 * (Hm.T @ (w * Hm)) + Hr.T @ (w * Hr)


def stiff1d(stripe):
    """exact Gram matrix of the derivatives of the interior hats (piecewise constant derivatives)."""
    import numpy as np
    s = np.asarray(stripe, dtype=float)
    h = s[1:] - s[:-1]
    D = (hats1d_matrix(stripe, s[1:]) - hats1d_matrix(stripe, s[:-1])) / h[:, None]
    return D.T @ (h[:, None] * D)


def kron_all(mats):
    import numpy as np
    out = np.ones((1, 1))
    for m in mats:
        out = np.kron(out, m)
    return out


def gram(stripes):
    return kron_all([gram1d(s) for s in stripes])


def gradient_gram(stripes):
    G = [gram1d(s) for s in stripes]
    S = [stiff1d(s) for s in stripes]
    total = 0.0
    for k in range(len(stripes)):
        total = total + kron_all([S[m] if m == k else G[m] for m in range(len(stripes))])
    return total


def trapezoid_weights(stripes):
    import numpy as np
    ws = []
    for s in stripes:
        s = np.asarray(s, dtype=float)
        ws.append(0.5 * (s[2:] - s[:-2]))
    w = np.ones(1)
    for wk in ws:
        w = (w[:, None] * wk[None, :]).reshape(-1)
    return w


def interior_points(stripes):
    return list(itertools.product(*[list(s[1:-1]) for s in stripes]))


def num_points(stripes):
    n = 1
    for s in stripes:
        n *= len(s) - 2
    return n


def near_below_mask(stripes, X):
    """mask[i, j] True iff sample i lies within 4 ulp below (not on) the centre of hat j in some dimension"""
    import numpy as np
    X = np.asarray(X, dtype=float)
    per_dim = []
    for k, st in enumerate(stripes):
        c = np.asarray(st[1:-1], dtype=float)
        diff = c[None, :] - X[:, k][:, None]
        per_dim.append((diff > 0) & (diff <= 4 * np.spacing(c)[None, :]))
    m = per_dim[0]
    for k in range(1, len(stripes)):
        m = (m[:, :, None] | per_dim[k][:, None, :]).reshape((X.shape[0], -1))      # tensor-product hat index, first dimension slowest
    return m


def adjacency_mask(stripes):
    """mask[i, j] True iff the hats i and j are equal or neighbours in every dimension (supports overlap on a set of positive measure)"""
    import numpy as np
    idx = list(itertools.product(*[range(len(s) - 2) for s in stripes]))
    I = np.array(idx)
    diff = np.abs(I[:, None, :] - I[None, :, :])
    return np.all(diff <= 1, axis=2)


# ------------------------------------------------------------------------------------------------
# generators (all deterministic functions of their JSON descriptor)
# ------------------------------------------------------------------------------------------------
DATA_KINDS = ("random", "gridlines", "boundary", "clustered", "mixed")


def make_data(d, desc):
    """desc = {"kind", "M", "seed", "labels": bool}; returns (data (M,d) in [0,1]^d, labels or None)"""
    import numpy as np
    rs = np.random.RandomState(desc["seed"] % (2 ** 32))
    M, kind = desc["M"], desc["kind"]
    X = rs.rand(M, d)
    if kind == "gridlines":
        lev = rs.randint(1, 5, size=(M, d))
        snap = rs.rand(M, d) < 0.6
        Xs = np.round(X * 2.0 ** lev) / 2.0 ** lev
        X = np.where(snap, Xs, X)
    elif kind == "boundary":
        onb = rs.rand(M, d) < 0.5
        X = np.where(onb, (rs.rand(M, d) < 0.5).astype(float), X)
    elif kind == "clustered":
        c = rs.rand(d) * 0.7
        X = c + 0.25 * X
    elif kind == "mixed":
        lev = rs.randint(1, 5, size=(M, d))
        r = rs.rand(M, d)
        Xs = np.round(X * 2.0 ** lev) / 2.0 ** lev
        X = np.where(r < 0.35, Xs, np.where(r < 0.5, (rs.rand(M, d) < 0.5).astype(float), X))
    X = np.clip(X, 0.0, 1.0)
    labels = None
    if desc.get("labels"):
        labels = np.where(rs.rand(M) < 0.5, -1.0, 1.0)
        if M >= 2:
            labels[0], labels[1] = 1.0, -1.0
    return X, labels


def random_data_desc(rng, labels=None, kinds=DATA_KINDS, mmax=40):
    return {"kind": rng.choice(kinds), "M": rng.choice([1, 2, 3, 5, 8, 13, 20, 30, mmax]), "seed": rng.randrange(2 ** 31),
            "labels": bool(rng.random() < 0.5) if labels is None else bool(labels)}


def tree_stripe(rng, base_level, extra, maxlevel=5):
    """1-D refinement-tree grid: full dyadic grid of base_level, then `extra` random bisections of cells (child level <= maxlevel)."""
    n = 2 ** base_level
    pts = [i / float(n) for i in range(n + 1)]
    lev = [0] * (n + 1)

    def fill(i1, i2, l):
        if i1 + 1 >= i2:
            return
        i = (i1 + i2) // 2
        lev[i] = l + 1
        fill(i1, i, l + 1)
        fill(i, i2, l + 1)
    fill(0, n, 0)
    for _ in range(extra):
        cand = [i for i in range(len(pts) - 1) if max(lev[i], lev[i + 1]) + 1 <= maxlevel]
        if not cand:
            break
        i = rng.choice(cand)
        pts.insert(i + 1, 0.5 * (pts[i] + pts[i + 1]))
        lev.insert(i + 1, max(lev[i], lev[i + 1]) + 1)
    return pts, lev


def random_tree_grid(rng, d, max_n=330, big=False):
    while True:
        stripes, levels = [], []
        for _ in range(d):
            if big:
                base, extra = rng.choice([(3, 6), (3, 9), (4, 0), (4, 2), (2, 12)]) if d == 2 else rng.choice([(2, 3), (2, 4), (3, 0)])
            else:
                base, extra = rng.choice([(1, 0), (1, 1), (1, 2), (1, 3), (2, 0), (2, 1), (2, 3), (3, 1)])
            s, l = tree_stripe(rng, base, extra)
            stripes.append(s)
            levels.append(l)
        n = num_points(stripes)
        if (200 <= n <= max_n) if big else (n < 200):
            return stripes, levels


def make_oracle(seed, steps, hook=None, fault_round=None):
    """adversarial, value-independent refinement oracle through the public ErrorCalculator interface: the error of an interval is a
    hash of (seed, round, dimension, start, end); after `steps` refinement rounds every error is 0, so the driver stops (tol = 0).
    hook(round, combi_object) is called once per evaluation round before the errors are read."""
    from sparseSpACE.ErrorCalculator import ErrorCalculator

    class Oracle(ErrorCalculator):
        def __init__(self):
            super().__init__()
            self.is_global = True
            self.round = 0
            self.steps = steps          # may be raised later (continue_adaptive_refinement)
            self.faulted = False

        def calc_global_error(self, data, grid_scheme):
            if fault_round is not None and self.round + 1 == fault_round and not self.faulted:
                # fault injection: the user's global estimator fails once, in this evaluation round (before anything of the round is recorded)
                self.faulted = True
                from bounded._drivers_common import ModelFault
                raise ModelFault("global error estimator failed in evaluation round %d" % fault_round)
            self.round += 1
            if hook is not None:
                hook(self.round, grid_scheme)

        def calc_error(self, refine_object, norm, volume_weights=None):
            if self.round > self.steps:
                return 0.0
            key = repr((seed, self.round, int(refine_object.this_dim), float(refine_object.start), float(refine_object.end)))
            v = int.from_bytes(hashlib.sha1(key.encode()).digest()[:4], "big") / 2.0 ** 32
            # ties, zeros and a dominating interval occur on purpose
            if v < 0.15:
                return 0.0
            if v > 0.85:
                return 1.0
            return round(v, 1)
    return Oracle()


def new_de(d, data, labels, lam=0.0, masslumping=False, numeric=False, reuse=False, global_grid=False):
    import numpy as np
    from sparseSpACE.GridOperation import DensityEstimation
    from sparseSpACE.Grid import GlobalTrapezoidalGrid
    from sparseSpACE.Utils import log_levels, print_levels
    grid = GlobalTrapezoidalGrid(a=np.zeros(d), b=np.ones(d), modified_basis=False, boundary=False) if global_grid else None
    return DensityEstimation(np.array(data, dtype=float), d, grid=grid, masslumping=masslumping, lambd=lam,
                             classes=None if labels is None else np.array(labels, dtype=float), reuse_old_values=reuse,
                             numeric_calculation=numeric, log_level=log_levels.ERROR, print_level=print_levels.ERROR)


def run_driver(op, d, lmin, lmax, steps, margin, rebalancing, oracle_seed, hook=None, fault_round=None):
    """real dimension-wise run; returns the combi object.  With fault_round the user's global estimator fails once in that evaluation round; the caller
    (here) catches the exception and resumes the SAME objects with continue_adaptive_refinement, as a user would."""
    import numpy as np
    from sparseSpACE.spatiallyAdaptiveSingleDimension2 import SpatiallyAdaptiveSingleDimensions2
    from sparseSpACE.Utils import log_levels, print_levels
    a, b = np.zeros(d), np.ones(d)
    sa = SpatiallyAdaptiveSingleDimensions2(a, b, operation=op, margin=margin, rebalancing=rebalancing,
                                            log_level=log_levels.ERROR, print_level=print_levels.ERROR)
    oracle = make_oracle(oracle_seed, steps, hook, fault_round)
    from bounded._drivers_common import ModelFault
    with quiet():
        try:
            sa.performSpatiallyAdaptiv(lmin, lmax, oracle, 0.0, print_output=False)
        except ModelFault:
            sa.continue_adaptive_refinement(tol=0.0)
    return sa


def with_threshold(func, value):
    """copy of a real /repo function whose integer constant 200 (the internal size threshold) is replaced by `value`;
    returns None when the function has no such constant (then only the native paths are exercised)."""
    func = getattr(func, "__func__", func)
    code = func.__code__
    if not any(type(c) is int and c == 200 for c in code.co_consts):
        return None
    consts = tuple(value if (type(c) is int and c == 200) else c for c in code.co_consts)
    g = types.FunctionType(code.replace(co_consts=consts), func.__globals__, func.__name__, func.__defaults__, func.__closure__)
    g.__kwdefaults__ = func.__kwdefaults__
    return g


def patch_threshold(op, name, value):
    g = with_threshold(getattr(type(op), name), value)
    if g is None:
        return False
    setattr(op, name, types.MethodType(g, op))
    return True


# ------------------------------------------------------------------------------------------------
# clause evaluation
# ------------------------------------------------------------------------------------------------
def signs_of(labels, M):
    import numpy as np
    return np.ones(M) if labels is None else np.asarray(labels, dtype=float)


def check_norm_and_solve(ctx, alphas, stripes, R_code, b_code, masslumping, labels, site, tag):
    """normalisation of the returned surpluses, and: surpluses == c*x+s where x solves the system made of the matrix and right-hand
    side the real functions return for this grid (both are compared with the reference by B.R.* / B.rhs.mean on the same grid)."""
    import numpy as np
    alphas = np.asarray(alphas, dtype=float).reshape(-1)
    w = trapezoid_weights(stripes)
    if alphas.shape != w.shape:
        ctx.check("B.norm.positive_mean", False, site, tag + "-shape", "surplus vector has shape %s, grid has %d points" % (alphas.shape, len(w)))
        return
    pos = np.clip(alphas, 0.0, None)
    mean = float(np.inner(pos, w) / np.sum(w))
    ctx.check("B.norm.positive_mean", (not np.any(pos > 0)) or abs(mean - 1.0) <= 1e-9, site, tag,
              "weighted mean of positive parts = %r" % mean)
    if R_code is None or b_code is None:
        return
    b_code = np.asarray(b_code, dtype=float).reshape(-1)
    R_code = np.asarray(R_code, dtype=float)
    try:
        if masslumping:
            x = b_code / (np.diag(R_code) if R_code.ndim == 2 else R_code)
        else:
            x = np.linalg.solve(R_code, b_code)
    except Exception as e:  # singular / ill-shaped matrix: reported by the matrix clauses
        ctx.note("solve clause skipped: %s" % e)
        return
    if x.shape != alphas.shape:
        return
    if labels is None:
        denom = float(np.dot(x, x))
        c = float(np.dot(alphas, x) / denom) if denom > 0 else 0.0
        res = alphas - c * x
        okc = c > 0 or denom == 0 or not np.any(alphas != 0)
    else:
        A = np.stack([x, np.ones_like(x)], axis=1)
        sol = np.linalg.lstsq(A, alphas, rcond=None)[0]
        c = float(sol[0])
        res = alphas - A @ sol
        okc = c > 0 or np.ptp(x) <= 1e-9 * (1 + np.max(np.abs(x)))
    scale = max(float(np.linalg.norm(alphas)), 1e-300)
    ctx.check("B.solve.system", np.linalg.norm(res) <= 1e-7 * scale and okc, site, tag,
              "surpluses are not c*x+s for the solution x of the system: residual %.3e (rel), c=%r" % (np.linalg.norm(res) / scale, c))


def special_points(rng, stripes, n=12, ulp=False):
    """evaluation points incl. grid points, points on grid lines (cell boundaries), the domain boundary and corners"""
    import numpy as np
    d = len(stripes)
    pts = []
    for _ in range(n):
        p = []
        for k in range(d):
            r = rng.random()
            if r < 0.45:
                p.append(rng.choice(stripes[k]))          # on a grid line (incl. 0 and 1)
            elif r < 0.55:
                i = rng.randrange(len(stripes[k]) - 1)
                p.append(0.5 * (stripes[k][i] + stripes[k][i + 1]))
            else:
                p.append(rng.random())
        pts.append(p)
    pts.append([0.0] * d)
    pts.append([1.0] * d)
    pts.append([stripes[k][1] for k in range(d)])
    pts.append([stripes[k][-2] for k in range(d)])
    if ulp:
        # one rounding error below / above an interior grid coordinate (what scaling a lattice data set into the unit cube produces)
        for _ in range(3):
            pts.append([float(np.nextafter(rng.choice(stripes[k][1:-1]), rng.choice([0.0, 1.0]))) for k in range(d)])
        pts.append([float(np.nextafter(stripes[k][1], 0.0)) for k in range(d)])
    return np.array(pts, dtype=float)


def check_hats_uniform(ctx, op, lv, stripes, X):
    import numpy as np
    Phi = basis_matrix(stripes, X)
    lvec = np.array(lv, dtype=int)
    ivecs = np.array(list(itertools.product(*[range(1, 2 ** l) for l in lv])), dtype=int)
    bad = []
    with ctx.guard("B.run.returns", ML + "hat_function_in_support_completely_vectorized", "uniform-hats"):
        full = op.hat_function_in_support_completely_vectorized(ivecs, lvec, X)
        if not close(full, Phi, rel=0, abs_=1e-12):
            bad.append("completely vectorised max diff %.3e" % np.max(np.abs(np.asarray(full) - Phi)))
    ctx.check("B.hat.agree", not bad, ML + "hat_function_in_support_completely_vectorized", "uniform-completely-vectorised", "; ".join(bad))
    bad_s, bad_i, bad_v = [], [], []
    index_of = {tuple(iv): j for j, iv in enumerate(ivecs.tolist())}
    with ctx.guard("B.run.returns", DE + "hat_function", "uniform-hats"):
        for n, x in enumerate(X):
            for j, iv in enumerate(ivecs):
                v = op.hat_function(tuple(iv), lv, x)
                if abs(v - Phi[n, j]) > 1e-12:
                    bad_s.append((x.tolist(), iv.tolist(), float(v), float(Phi[n, j])))
            hats_in = op.get_hats_in_support(lv, x)
            if len(hats_in):
                hv = op.hat_function_in_support_vectorized(np.array(hats_in, dtype=int), lvec, x)
                for h, v in zip(hats_in, hv):
                    j = index_of[tuple(int(t) for t in h)]
                    if abs(v - Phi[n, j]) > 1e-12:
                        bad_v.append((x.tolist(), list(map(int, h)), float(v), float(Phi[n, j])))
                    v2 = op.hat_function_in_support(np.array(h, dtype=int), lvec, x)
                    if abs(v2 - Phi[n, j]) > 1e-12:
                        bad_i.append((x.tolist(), list(map(int, h)), float(v2), float(Phi[n, j])))
    ctx.check("B.hat.agree", not bad_s, DE + "hat_function", "uniform-scalar", "scalar hat differs: %s" % bad_s[:2])
    ctx.check("B.hat.agree", not bad_i, DE + "hat_function_in_support", "uniform-in-support", "in-support hat differs: %s" % bad_i[:2])
    ctx.check("B.hat.agree", not bad_v, DE + "hat_function_in_support_vectorized", "uniform-vectorised", "vectorised hat differs: %s" % bad_v[:2])


def check_hats_nonuniform(ctx, op, stripes, X):
    import numpy as np
    Phi = basis_matrix(stripes, X)
    pts = interior_points(stripes)
    index_of = {p: j for j, p in enumerate(pts)}
    with ctx.guard("B.run.returns", ML + "hat_function_non_symmetric_completely_vectorized", "nonuniform-hats"):
        points, lower, upper = op.get_hat_domain_for_every_grid_point_vectorized(stripes)
        full = np.asarray(op.hat_function_non_symmetric_completely_vectorized(points, lower, upper, X), dtype=float)
        ok = full.shape == Phi.shape and close(full, Phi, rel=0, abs_=1e-12)
        wc = "nonuniform-completely-vectorised"
        if not ok and full.shape == Phi.shape and not np.any((np.abs(full - Phi) > 1e-12) & ~near_below_mask(stripes, X)):
            wc = "sample-ulp-below-gridpoint"       # both linear pieces are counted for x one rounding error below the hat centre
        ctx.check("B.hat.agree", ok, ML + "hat_function_non_symmetric_completely_vectorized", wc,
                  "max diff %.3e at point %s" % ((np.max(np.abs(full - Phi)), X[int(np.argmax(np.max(np.abs(full - Phi), axis=1)))].tolist())
                                                 if full.shape == Phi.shape else (float("nan"), None)))
    bad_s, bad_v = [], []
    with ctx.guard("B.run.returns", DE + "hat_function_non_symmetric", "nonuniform-hats"):
        dom = [op.get_hat_domain(p, stripes) for p in pts]
        for n, x in enumerate(X):
            for j, p in enumerate(pts):
                v = op.hat_function_non_symmetric(p, dom[j], x)
                if abs(v - Phi[n, j]) > 1e-12:
                    bad_s.append((x.tolist(), list(p), float(v), float(Phi[n, j])))
            # vectorised variant: defined for the hats around x (this is how the library uses it)
            hats, _ = op.get_neighbors_optimized(x, stripes)
            if len(hats):
                supports = [op.get_grid_points_with_support(h, stripes, skip_equal_point=True)[0] for h in hats]
                hv = op.hat_function_non_symmetric_vectorized(hats, supports, x)
                for h, v in zip(hats, hv):
                    j = index_of[tuple(h)]
                    if abs(v - Phi[n, j]) > 1e-12:
                        bad_v.append((x.tolist(), list(h), float(v), float(Phi[n, j])))
                # every hat that is non-zero at x must be among the returned neighbours
                nz = set(np.nonzero(Phi[n] > 1e-12)[0].tolist())
                got = set(index_of[tuple(h)] for h in hats)
                if not nz <= got:
                    bad_v.append((x.tolist(), "hats with non-zero value missing from get_neighbors_optimized", sorted(nz - got)))
    ctx.check("B.hat.agree", not bad_s, DE + "hat_function_non_symmetric", "nonuniform-scalar", "scalar hat differs: %s" % bad_s[:2])
    ctx.check("B.hat.agree", not bad_v, ML + "hat_function_non_symmetric_vectorized", "nonuniform-vectorised", "vectorised hat differs: %s" % bad_v[:2])


def numeric_class(dev, ref_diag_scale):
    """witness class of a violation of a numeric-entries clause: the known defect (epsrel == 1 in calculate_L2_scalarproduct, entries are
    first Gauss-Kronrod estimates) produces deviations of at most a few 1e-3 of sqrt(G_ii G_jj); anything larger is a different failure"""
    import numpy as np
    return "numeric-epsrel" if np.all(dev <= 0.03 * ref_diag_scale) else "numeric-gross-error"


def check_matrix(ctx, R, Gref, lam, masslumping, numeric, stripes, site, uniform):
    import numpy as np
    # uniform entries are products of powers of two (exact); the analytic non-uniform entries are differences of cubic antiderivatives
    # with slope m = 1/h: cancellation costs about 1e-16 * m^3 relative (1e-10 observed at point level 6), hence 1e-8 inside the bound
    rel = 1e-6 if numeric else (1e-10 if uniform else 1e-8)
    n = Gref.shape[0]
    dg = np.diag(Gref)
    if masslumping:
        if uniform:
            ok = np.ndim(R) == 0 and (close(np.full(n, float(R)), dg, rel=rel, abs_=1e-15) or close(np.full(n, float(R)), dg + lam, rel=rel, abs_=1e-15))
            ctx.check("B.R.lumped", ok, site, "uniform-lumped", "mass-lumped value %r, Gram diagonal %r" % (R, dg[:3]))
        else:
            R = np.asarray(R, dtype=float)
            if R.ndim == 2:
                R = np.diag(R)
            ok = R.shape == dg.shape and close(R, dg + lam, rel=rel, abs_=1e-15)
            wc = "nonuniform-lumped"
            if numeric and not ok and R.shape == dg.shape:
                wc = numeric_class(np.abs(R - dg - lam), dg)
            ctx.check("B.R.numeric" if numeric else "B.R.lumped", ok, site, wc,
                      "mass-lumped vector differs from Gram diagonal + lambda: %s vs %s" % (R[:4], (dg + lam)[:4]))
        return
    R = np.asarray(R, dtype=float)
    ref = Gref + lam * np.eye(n)
    clause = "B.R.numeric" if numeric else "B.R.gram"
    if R.shape != ref.shape:
        ctx.check(clause, False, site, "shape", "matrix shape %s, expected %s" % (R.shape, ref.shape))
        return
    wrong = ~(np.abs(R - ref) <= 1e-15 + rel * np.maximum(np.abs(R), np.abs(ref)))
    wc = "uniform-entries" if uniform else "nonuniform-entries"
    if numeric:
        wc = numeric_class(np.abs(R - ref), np.sqrt(np.outer(dg, dg)))
    elif np.any(wrong):
        adj = adjacency_mask(stripes)
        wc += "-nonadjacent" if not np.any(wrong & adj) else ("-diagonal" if not np.any(wrong & ~np.eye(n, dtype=bool)) else "-adjacent")
    ij = np.argwhere(wrong)
    msg = ""
    if len(ij):
        i, j = ij[0]
        msg = "%d wrong entries, e.g. R[%d,%d]=%r, Gram(+lambda)=%r" % (len(ij), i, j, R[i, j], ref[i, j])
    ctx.check(clause, not np.any(wrong), site, wc, msg)
    sym_ok = bool(np.array_equal(R, R.T))
    ev = np.linalg.eigvalsh(0.5 * (R + R.T))
    ctx.check("B.R.spd", sym_ok and ev[0] > 0, site, ("numeric-" if numeric else "") + ("asymmetric" if not sym_ok else "eigenvalue"),
              "symmetric=%s, smallest eigenvalue %r" % (sym_ok, ev[0]))


# ------------------------------------------------------------------------------------------------
# cases
# ------------------------------------------------------------------------------------------------
def case_uniform(ctx, case):
    import numpy as np
    from sparseSpACE.ComponentGridInfo import ComponentGridInfo
    d, lv = case["d"], tuple(case["lv"])
    lam, ml = case["lam"], case["ml"]
    data, labels = make_data(d, case["data"])
    stripes = uniform_stripes(lv)
    Gref = gram(stripes)
    sg = signs_of(labels, len(data))
    N = num_points(stripes)
    op = new_de(d, data, labels, lam=lam, masslumping=ml)
    alphas = None
    with ctx.guard("B.run.returns", DE + "evaluate_levelvec", "uniform"):
        with quiet():
            op.initialize()
            alphas = op.evaluate_levelvec(ComponentGridInfo(list(lv), 1))
    if alphas is None:
        return
    if not np.array_equal(np.asarray(op.data, dtype=float), data):
        ctx.note("initialize() changed a data set inside the unit cube; reference uses the changed data")
    Phi = basis_matrix(stripes, op.data)
    bref = Phi.T @ sg / len(data)
    R = None
    with ctx.guard("B.run.returns", DE + "build_R_matrix", "uniform"):
        with quiet():
            R = op.build_R_matrix(list(lv))
        check_matrix(ctx, R, Gref, lam, ml, False, stripes, DE + "build_R_matrix", True)
    paths = [("native-small" if N < 200 else "native-large", None)]
    if case.get("patch", True):
        paths += [("forced-small", 10 ** 9), ("forced-large", 0)]
    b_native = None
    for tag, thr in paths:
        if thr is not None and not patch_threshold(op, "calculate_B", thr):
            ctx.note("calculate_B has no constant 200 any more: forced size paths not exercised")
            break
        with ctx.guard("B.run.returns", DE + "calculate_B", "uniform-" + tag):
            with quiet():
                b = op.calculate_B(op.data, list(lv))
            if thr is None:
                b_native = b
            ctx.check("B.rhs.mean", close(b, bref, rel=0, abs_=1e-12), DE + "calculate_B", "uniform-" + tag,
                      "max |b - reference| = %.3e" % np.max(np.abs(np.asarray(b, dtype=float) - bref)))
    Rm = None
    if R is not None:
        Rm = np.full(N, float(R)) if np.ndim(R) == 0 else R
    check_norm_and_solve(ctx, alphas, stripes, Rm, b_native, ml, labels, DE + "solve_density_estimation", "uniform")
    if case.get("hats", True) and N <= 120:
        X = np.vstack([np.asarray(op.data, dtype=float)[:6], special_points(random.Random(case["data"]["seed"]), stripes, 8, ulp=True)])
        check_hats_uniform(ctx, op, list(lv), stripes, X)


def case_uniform_seq(ctx, case):
    """history on ONE operation: a sequence of level vectors (with revisits) through evaluate_levelvec; every step is compared with the
    reference (state left by earlier level vectors must not leak), every query is repeated, everything handed out is re-read at the end"""
    import numpy as np
    from sparseSpACE.ComponentGridInfo import ComponentGridInfo
    d, lam, ml = case["d"], case["lam"], case["ml"]
    data, labels = make_data(d, case["data"])
    sg = signs_of(labels, len(data))
    op = new_de(d, data, labels, lam=lam, masslumping=ml)
    with ctx.guard("B.run.returns", MLS + "initialize", "uniform-seq"):
        with quiet():
            op.initialize()
    handed = []                                         # (what, live object, copy at hand-out time)
    for step, lv in enumerate(case["lvs"]):
        lv = [int(x) for x in lv]
        stripes = uniform_stripes(lv)
        N = num_points(stripes)
        Gref = gram(stripes)
        bref = basis_matrix(stripes, op.data).T @ sg / len(data)
        tag = "uniform-seq" if step == 0 else "uniform-seq-later"
        alphas = R = b = None
        with ctx.guard("B.run.returns", DE + "evaluate_levelvec", tag):
            with quiet():
                alphas = op.evaluate_levelvec(ComponentGridInfo(list(lv), 1))
                R = op.build_R_matrix(list(lv))
                b = op.calculate_B(op.data, list(lv))
                alphas2 = op.evaluate_levelvec(ComponentGridInfo(list(lv), 1))
                R2 = op.build_R_matrix(list(lv))
                b2 = op.calculate_B(op.data, list(lv))
        if alphas is None or R is None or b is None:
            continue
        check_matrix(ctx, R, Gref, lam, ml, False, stripes, DE + "build_R_matrix", True)
        ctx.check("B.rhs.mean", close(b, bref, rel=0, abs_=1e-12), DE + "calculate_B", tag + ("-small" if N < 200 else "-large"),
                  "step %d, level %s: max |b - reference| = %.3e" % (step, lv, np.max(np.abs(np.asarray(b, dtype=float) - bref))))
        Rm = np.full(N, float(R)) if np.ndim(R) == 0 else R
        check_norm_and_solve(ctx, alphas, stripes, Rm, b, ml, labels, DE + "solve_density_estimation", tag)
        same = close(alphas, alphas2, rel=1e-12, abs_=1e-14) and close(np.asarray(R, dtype=float), np.asarray(R2, dtype=float), rel=1e-12, abs_=1e-16) \
            and close(b, b2, rel=1e-12, abs_=1e-15)
        ctx.check("B.hist.idempotent", same, DE + "evaluate_levelvec", tag, "step %d, level %s: repeating the queries changed the values" % (step, lv))
        stored = op.surpluses.get(tuple(lv))
        for what, obj in (("surpluses", alphas), ("stored-surpluses", stored), ("rhs", b), ("matrix", R)):
            if isinstance(obj, np.ndarray):
                handed.append((what, step, obj, obj.copy()))
    bad = [(what, step) for what, step, obj, cp in handed if not np.array_equal(obj, cp)]
    ctx.check("B.hist.report_stable", not bad, DE + "evaluate_levelvec", "uniform-seq", "arrays handed out earlier were modified later: %s" % bad[:4])


def stripes_key(stripes):
    return tuple(tuple(float(x) for x in s) for s in stripes)


def record_rhs(op, forced_threshold=None):
    """observation hook: the real calculate_B_dimension_wise (optionally with the size constant replaced) stores what it returned"""
    import numpy as np
    base = None
    if forced_threshold is not None:
        g = with_threshold(type(op).calculate_B_dimension_wise, forced_threshold)
        base = types.MethodType(g, op) if g is not None else None
    if base is None:
        base = type(op).calculate_B_dimension_wise.__get__(op)
    store = {}

    def calculate_B_dimension_wise(data, gridPointCoordsAsStripes, grid_point_levels):
        b = base(data, gridPointCoordsAsStripes, grid_point_levels)
        store[stripes_key(gridPointCoordsAsStripes)] = np.array(b, dtype=float)
        return b
    op.calculate_B_dimension_wise = calculate_B_dimension_wise
    return store


def check_nonuniform_grid(ctx, op, stripes, levels, lam, ml, numeric, labels, alphas, b_run, run_tag, tag, hats=True, paths=("native",)):
    """all clauses for one non-uniform component grid; op must have been initialised by a real dimension-wise run.
    b_run: the right-hand side the run itself used for this grid (recorded), run_tag: the size path it was computed on."""
    import numpy as np
    data = np.asarray(op.data, dtype=float)
    Gref = gram(stripes)
    Phi = basis_matrix(stripes, data)
    sg = signs_of(op.classes, len(data))
    bref = Phi.T @ sg / len(data)
    N = num_points(stripes)
    R = None
    with ctx.guard("B.run.returns", DE + "build_R_matrix_dimension_wise", tag):
        with quiet():
            R = op.build_R_matrix_dimension_wise(stripes, levels)
        site = DE + ("calculate_L2_scalarproduct" if numeric else "build_R_matrix_dimension_wise")
        check_matrix(ctx, R, Gref, lam, ml, numeric, stripes, site, False)

    def rhs_check(b, ptag):
        b = np.asarray(b, dtype=float)
        ok = b.shape == bref.shape and close(b, bref, rel=0, abs_=1e-12)
        wc = "nonuniform-" + ptag
        if ptag.endswith("-reuse"):
            # one witness class for the whole reuse implementation, refined by what explains the wrong entries: the known defect
            # (find_data_in_domain never returns the sample with the largest coordinate of a dimension) or anything else
            wc = "reuse-path-other"
            if not ok and b.shape == bref.shape:
                drop = sorted(set(int(np.argsort(data[:, k])[-1]) for k in range(data.shape[1])))
                keep = np.ones(len(data), dtype=bool)
                keep[drop] = False
                bdef = Phi[keep].T @ sg[keep] / len(data)
                if np.all((np.abs(b - bref) <= 1e-12) | (np.abs(b - bdef) <= 1e-12)):
                    wc = "reuse-path-drops-max-sample"
        ctx.check("B.rhs.mean", ok, DE + "calculate_B_dimension_wise", wc,
                  "path %s: max |b - reference| = %.3e" % (ptag, np.max(np.abs(b - bref)) if b.shape == bref.shape else float("nan")))
    if b_run is not None:
        rhs_check(b_run, run_tag)
    for p in paths:
        if p == "native":
            ptag = "small" if N < 200 else "large"
            fn = type(op).calculate_B_dimension_wise.__get__(op)
        else:
            g = with_threshold(type(op).calculate_B_dimension_wise, 10 ** 9 if p == "forced-small" else 0)
            if g is None:
                ctx.note("calculate_B_dimension_wise has no constant 200 any more: forced size paths not exercised")
                continue
            fn = types.MethodType(g, op)
            ptag = p
        if op.reuse_old_values and p != "forced-small" and (N >= 200 or p == "forced-large") and len(op.old_B) > 0:
            ptag += "-reuse"
        with ctx.guard("B.run.returns", DE + "calculate_B_dimension_wise", tag + "-" + ptag):
            with quiet():
                b = fn(op.data, stripes, levels)
            rhs_check(b, ptag)
    if alphas is not None:
        check_norm_and_solve(ctx, alphas, stripes, R, b_run, ml, labels, DE + "solve_density_estimation_dimension_wise",
                             "nonuniform" + ("-numeric" if numeric else ""))
    if hats and N <= 120:
        X = np.vstack([data[:6], special_points(random.Random(len(stripes[0]) * 7919 + N), stripes, 8, ulp=True)])
        check_hats_nonuniform(ctx, op, stripes, X)


def reuse_tag(op, N, forced, had_old):
    t = ("forced-large" if forced else ("small" if N < 200 else "large"))
    if op.reuse_old_values and (forced or N >= 200) and had_old:
        t += "-reuse"
    return "run-" + t


def case_driver(ctx, case):
    import numpy as np
    d = case["d"]
    data, labels = make_data(d, case["data"])
    op = new_de(d, data, labels, lam=case["lam"], masslumping=case["ml"], numeric=case.get("numeric", False),
                reuse=case.get("reuse", False), global_grid=True)
    forced = bool(case.get("force_large_path"))
    store = record_rhs(op, 0 if forced else None)
    sa = None
    with ctx.guard("B.run.returns", "sparseSpACE.spatiallyAdaptiveSingleDimension2:SpatiallyAdaptiveSingleDimensions2.performSpatiallyAdaptiv",
                   "dimwise-de-run"):
        sa = run_driver(op, d, case["lmin"], case["lmax"], case["steps"], case["margin"], case["rebal"], case["oracle_seed"])
    if sa is None:
        return
    del op.calculate_B_dimension_wise          # remove the observation hook: direct calls below use the real method
    for cg in sa.scheme:
        lv = tuple(int(x) for x in cg.levelvector)
        stripes, levels, _ = sa.get_point_coord_for_each_dim(cg.levelvector)
        stripes = [[float(x) for x in s] for s in stripes]
        alphas = op.surpluses.get(lv)
        if alphas is None:
            ctx.check("B.run.returns", False, DE + "calculate_operation_dimension_wise", "missing-surplus", "no surpluses stored for %s" % (lv,))
            continue
        N = num_points(stripes)
        # in the final round a previous iteration exists iff at least one refinement step was made
        rtag = reuse_tag(op, N, forced, case["steps"] >= 1)
        check_nonuniform_grid(ctx, op, stripes, levels, case["lam"], case["ml"], case.get("numeric", False), labels, alphas,
                              store.get(stripes_key(stripes)), rtag, "driver", hats=case.get("hats", True),
                              paths=("native", "forced-small", "forced-large") if case.get("patch", True) else ("native",))


def init_dimwise(op, d):
    """zero-step real run: initialises the operation for dimension-wise evaluation through the public driver"""
    return run_driver(op, d, 1, 2, 0, 0.9, False, 0)


def case_tree(ctx, case):
    """operation initialised by a real zero-step run, then the real per-grid entry point on bisection-tree stripes.
    case["grids"] is a list of (stripes, levels); with reuse the list is a refinement sequence and post_processing() hands the cache over."""
    import numpy as np
    from sparseSpACE.ComponentGridInfo import ComponentGridInfo
    d = case["d"]
    data, labels = make_data(d, case["data"])
    numeric = case.get("numeric", False)
    op = new_de(d, data, labels, lam=case["lam"], masslumping=case["ml"], numeric=numeric, reuse=case.get("reuse", False), global_grid=True)
    ok = False
    with ctx.guard("B.run.returns", "sparseSpACE.spatiallyAdaptiveSingleDimension2:SpatiallyAdaptiveSingleDimensions2.performSpatiallyAdaptiv",
                   "dimwise-de-init"):
        init_dimwise(op, d)
        ok = True
    if not ok:
        return
    store = record_rhs(op, None)
    hook = op.calculate_B_dimension_wise
    handed = []
    for gi, (stripes, levels) in enumerate(case["grids"]):
        lv = tuple(max(l) for l in levels)
        alphas = None
        N = num_points(stripes)
        rtag = reuse_tag(op, N, False, len(op.old_B) > 0)
        op.calculate_B_dimension_wise = hook
        with ctx.guard("B.run.returns", DE + "calculate_operation_dimension_wise", "tree"):
            with quiet():
                op.calculate_operation_dimension_wise(stripes, levels, ComponentGridInfo(list(lv), 1))
            alphas = op.surpluses.get(lv)
        del op.calculate_B_dimension_wise
        if alphas is None:
            continue
        if isinstance(alphas, np.ndarray):
            handed.append((gi, alphas, alphas.copy()))
        paths = ["native"] if N < 200 else []       # on large grids the recorded run value already is the native path
        if case.get("patch", True) and N < 200:
            paths += ["forced-small", "forced-large"]
        check_nonuniform_grid(ctx, op, stripes, levels, case["lam"], case["ml"], numeric, labels, alphas,
                              store.get(stripes_key(stripes)), rtag, "tree", hats=case.get("hats", True), paths=tuple(paths))
        if case.get("reuse", False):
            with ctx.guard("B.run.returns", ML + "post_processing", "tree-reuse"):
                op.post_processing()
    bad = [gi for gi, obj, cp in handed if not np.array_equal(obj, cp)]
    ctx.check("B.hist.report_stable", not bad, DE + "calculate_operation_dimension_wise", "tree-seq",
              "surpluses stored for earlier grids were modified by later evaluations: grids %s" % bad)


def refine_stripes(rng, stripes, levels, k, maxlevel=6):
    """k further random bisections (a later refinement iteration of the same tree)"""
    stripes = [list(s) for s in stripes]
    levels = [list(l) for l in levels]
    for _ in range(k):
        dd = rng.randrange(len(stripes))
        pts, lev = stripes[dd], levels[dd]
        cand = [i for i in range(len(pts) - 1) if max(lev[i], lev[i + 1]) + 1 <= maxlevel]
        if not cand:
            continue
        i = rng.choice(cand)
        pts.insert(i + 1, 0.5 * (pts[i] + pts[i + 1]))
        lev.insert(i + 1, max(lev[i], lev[i + 1]) + 1)
    return stripes, levels


LAMBDAS = (0.0, 1e-3, 0.1, 1e8)      # 1e8: a solution of tiny magnitude whose normalising integral lies below numpy's default absolute tolerance (missed seed C16_9)


def single_thread(f):
    """run/replay wrapper: (1) tiny matrices: BLAS threads only cost time (seconds per solve on a busy machine); (2) the library logs
    every timing line to the file `log_sg` in the working directory (logging is no part of any contract): switched off meanwhile"""
    def g(*a, **k):
        import logging
        logging.disable(logging.CRITICAL)
        try:
            try:
                from threadpoolctl import threadpool_limits
            except Exception:  # pragma: no cover
                return f(*a, **k)
            with threadpool_limits(limits=1):
                return f(*a, **k)
        finally:
            logging.disable(logging.NOTSET)
    g.__name__ = f.__name__
    return g


@single_thread
def run(ctx):
    return _run(ctx)


def _run(ctx):
    import time
    rng = ctx.rng
    quick = ctx.quick()
    nmax = 400 if quick else 700
    tsec = {}
    t0 = time.time()
    # ---- uniform grids: every level vector (levels 1..4) with N <= nmax.  The real build_R_matrix formats two debug strings per
    # matrix entry, so full matrices on N >= 200 grids cost seconds: there most cases use mass lumping (matrix = one value) and
    # exercise the large right-hand-side path; a few full ones remain.
    lvs = []
    for d in (1, 2, 3):
        for lv in itertools.product(range(1, 5), repeat=d):
            n = 1
            for l in lv:
                n *= 2 ** l - 1
            if n <= nmax:
                lvs.append((d, lv, n))
    ctx.exhaustive = False
    # ---- documented size constants: the small-grid right-hand side handles the samples in one vectorised block; data sets larger than
    # any internal block size (anchor: > 4096 and > 8192 samples), with and without labels, on small grids
    for k, (M, lab) in enumerate([(9000, True), (4097, True)] if quick else [(9000, True), (4097, True), (9000, False), (8193, True), (12500, True), (5000, True)]):
        d = 2 if k % 2 == 0 else 1
        lv = [rng.randint(1, 3) for _ in range(d)] if d == 2 else [rng.randint(2, 4)]
        case = {"kind": "uniform", "d": d, "lv": lv, "lam": rng.choice(LAMBDAS), "ml": rng.random() < 0.3,
                "data": {"kind": rng.choice(["random", "clustered", "mixed"]), "M": M, "seed": rng.randrange(2 ** 31), "labels": lab},
                "patch": k == 0, "hats": False}
        ctx.case(case)
        case_uniform(ctx, case)
    # ---- histories on one operation: sequences of level vectors with revisits
    small_lvs = [(d, lv) for d, lv, n in lvs if n <= 60]
    for k in range(8 if quick else 60):
        if ctx.out_of_time(0.3):
            break
        d = rng.choice([1, 2, 2, 3])
        pool = [lv for dd, lv in small_lvs if dd == d]
        seq = [list(rng.choice(pool)) for _ in range(3)]
        seq.append(seq[0])
        case = {"kind": "uniform_seq", "d": d, "lvs": seq, "lam": rng.choice(LAMBDAS), "ml": rng.random() < 0.3, "data": random_data_desc(rng)}
        ctx.case(case)
        case_uniform_seq(ctx, case)
    reps = 1 if quick else 5
    full_large = 0
    for rep in range(reps):
        for d, lv, n in lvs:
            if ctx.out_of_time(0.40):
                break
            if quick and n >= 200 and lv not in ((4, 4), (3, 3, 3), (2, 4, 4)):
                continue
            ml = rng.random() < 0.35
            if quick and 100 <= n < 200:
                ml = rng.random() < 0.8                 # a full matrix with N in 100..200 costs 1-3 s in the real build_R_matrix
            if n >= 200:
                ml = not ((quick and lv == (4, 4)) or (not quick and rng.random() < 0.25))
            case = {"kind": "uniform", "d": d, "lv": list(lv), "lam": rng.choice(LAMBDAS), "ml": ml,
                    "data": random_data_desc(rng, mmax=25 if n >= 200 else 40), "patch": n <= 250, "hats": rng.random() < (0.4 if quick else 0.8)}
            ctx.case(case)
            case_uniform(ctx, case)
    tsec["uniform"] = time.time() - t0
    t0 = time.time()
    # ---- non-uniform grids from real dimension-wise runs
    n_driver = 24 if quick else 120
    for k in range(n_driver):
        if ctx.out_of_time(0.65):
            break
        d = 2 if rng.random() < 0.75 else 3
        lmin, lmax = rng.choice([(1, 2), (1, 3), (2, 3)]) if d == 2 else rng.choice([(1, 2), (1, 2), (1, 3)])
        case = {"kind": "driver", "d": d, "lmin": lmin, "lmax": lmax, "steps": rng.choice([1, 2, 3]) if d == 2 else rng.choice([1, 2]),
                "margin": rng.choice([0.5, 0.9]), "rebal": rng.random() < 0.5, "oracle_seed": rng.randrange(10 ** 6),
                "lam": rng.choice(LAMBDAS), "ml": rng.random() < 0.3, "reuse": rng.random() < 0.5, "data": random_data_desc(rng),
                "hats": rng.random() < 0.4, "patch": True}
        # with reuse: mostly run the whole history on the large/reuse implementation of the right-hand side (size constant -> 0)
        case["force_large_path"] = bool(rng.random() < (0.7 if case["reuse"] else 0.3))
        ctx.case(case)
        case_driver(ctx, case)
    tsec["driver"] = time.time() - t0
    t0 = time.time()
    # ---- bisection-tree grids (small), incl. numeric entries
    n_tree = 24 if quick else 260
    for k in range(n_tree):
        if ctx.out_of_time(0.82):
            break
        d = rng.choice([1, 2, 2, 3])
        numeric = rng.random() < 0.25
        nmax_numeric = None
        if numeric:
            # numeric entries: nested adaptive quadrature; once the tolerance typo (epsrel == 1) is repaired a 2-D entry costs seconds,
            # so 2-D numeric grids are tiny and rare (quick: one with <= 2 points)
            if d >= 2 and ((quick and k != 1) or (not quick and rng.random() < 0.8)):
                d = 1
            d = min(d, 2)
            nmax_numeric = 15 if d == 1 else (2 if quick else 3)
        grids = []
        for _ in range(1 if numeric else 2):
            while True:
                s, l = random_tree_grid(rng, d)
                if not numeric or num_points(s) <= nmax_numeric:
                    break
            grids.append((s, l))
        case = {"kind": "tree", "d": d, "grids": grids, "lam": rng.choice(LAMBDAS), "ml": rng.random() < 0.3, "numeric": numeric,
                "reuse": False, "data": random_data_desc(rng, mmax=20 if numeric else 40), "hats": rng.random() < 0.5, "patch": True}
        ctx.case(case)
        case_tree(ctx, case)
    tsec["tree"] = time.time() - t0
    t0 = time.time()
    # ---- large bisection-tree grids: native large path and native reuse path (refinement sequences)
    n_big = 2 if quick else 24
    for k in range(n_big):
        if ctx.out_of_time(0.97):
            break
        d = 2 if (quick or rng.random() < 0.7) else 3
        s0, l0 = random_tree_grid(rng, d, big=True)
        seq = [(s0, l0)]
        reuse = k % 3 != 1
        if reuse:
            s1, l1 = refine_stripes(rng, s0, l0, rng.choice([1, 2, 3]))
            if num_points(s1) <= 400:
                seq.append((s1, l1))
        # k%3==0/2: refinement sequence with reuse (native reuse path), mass lumped; k%3==1: single grid, full matrix (O(N^2) python
        # loop of the real code); k%6==3 (thorough): reuse sequence with the full, cached matrix
        case = {"kind": "tree", "d": d, "grids": seq, "lam": rng.choice(LAMBDAS), "ml": (k % 3 != 1 and k % 6 != 3), "numeric": False, "reuse": reuse,
                "data": random_data_desc(rng, mmax=25), "hats": False, "patch": False}
        ctx.case(case)
        case_tree(ctx, case)
    tsec["big"] = time.time() - t0
    ctx.note("section seconds: %s" % {k: round(v, 1) for k, v in tsec.items()})


@single_thread
def replay(ctx, case):
    {"uniform": case_uniform, "uniform_seq": case_uniform_seq, "driver": case_driver, "tree": case_tree}[case["kind"]](ctx, case)
